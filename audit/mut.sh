#!/bin/sh
# usage: audit/mut.sh <file-in-repo> <sed-expression> <Cxx> [<Cxx> ...]
# development aid: applies a mutation to a scratch worktree of /repo (never to /repo itself), runs checks against it, removes it
f="$1"; e="$2"; shift 2
W=/tmp/mut_wt_$$
git -C /repo worktree add -q --detach "$W" HEAD || exit 2
( cd "$W" && sed -i "$e" "$f" && git diff --stat | tail -1 )
cd /verif
for p in "$@"; do PYTHONPATH="$W:/verif" RL4CO_REPO="$W" PYTHONHASHSEED=0 CUDA_VISIBLE_DEVICES="" timeout 1500 /venv/bin/python -W ignore -m vt.main $p --tier quick 2>&1 | grep -E "VIOLATION|KNOWN|^\[C" ; done
git -C /repo worktree remove --force "$W"
