"""Wall-clock guard around the env interaction of the scheduling units (C02-C05 sched, C07 fjsp / ffsp).

`env.step` of FFSPEnv / FJSPEnv contains data-dependent `while` loops (`while ~ready.all()`, `while step_complete.any()`).
C02's "episodes terminate" cannot be reported by a check that itself hangs inside such a call, so every env.reset /
env.step / env.pre_step / env.get_reward of the sched units goes through `call(env_name, what, fn, *args)`:

  * main thread (the normal case: ./check runs the units in the main thread): `signal.setitimer(ITIMER_REAL)`; the handler
    raises `EnvTimeout` inside the running call (the loops are python loops, the interpreter delivers the signal between
    two bytecodes), nothing is left running;
  * any other thread: the call runs in a daemon worker thread that is joined with a timeout; an abandoned worker is a
    daemon, `threading._shutdown` does not wait for it, so it cannot keep the check from exiting.

After the first timeout of an env (`timed_out(env_name)`) the callers stop driving that env in the current stream, and
any further guarded call for it gets the short limit only.  A state interrupted in the middle of a step is never used
again.  Limit: VERIF_ENV_CALL_TIMEOUT seconds (default 20; a legitimate call on the tiny batches used here takes
milliseconds)."""
import os
import signal
import threading
import time

LIMIT = float(os.environ.get("VERIF_ENV_CALL_TIMEOUT", "20"))
SHORT = min(LIMIT, float(os.environ.get("VERIF_ENV_CALL_TIMEOUT_AFTER_FIRST", "3")))
_TIMED_OUT = {}          # env name -> number of timeouts seen in this process
STATS = {"guarded_calls": 0, "timeouts": 0, "max_call_s": 0.0}


class EnvTimeout(Exception):
    def __init__(self, env_name, what, secs):
        Exception.__init__(self, "%s: env.%s did not return within %.0f s" % (env_name, what, secs))
        self.env_name, self.what, self.secs = env_name, what, secs


def timed_out(env_name=None):
    if env_name is None:
        return dict(_TIMED_OUT)
    return _TIMED_OUT.get(env_name, 0)


def reset_state():
    _TIMED_OUT.clear()


def signature(env_name, what="step"):
    return "%s: env.%s does not terminate" % (env_name, what)


def _limit(env_name):
    return SHORT if _TIMED_OUT.get(env_name) else LIMIT


def call(env_name, what, fn, *args, **kw):
    """fn(*args, **kw) under the wall-clock limit; raises EnvTimeout(env_name, what) when it does not return in time."""
    secs = _limit(env_name)
    STATS["guarded_calls"] += 1
    t0 = time.time()
    try:
        if threading.current_thread() is threading.main_thread():
            return _call_alarm(env_name, what, secs, fn, args, kw)
        return _call_thread(env_name, what, secs, fn, args, kw)
    except EnvTimeout:
        _TIMED_OUT[env_name] = _TIMED_OUT.get(env_name, 0) + 1
        STATS["timeouts"] += 1
        raise
    finally:
        STATS["max_call_s"] = max(STATS["max_call_s"], round(time.time() - t0, 3))


def _call_alarm(env_name, what, secs, fn, args, kw):
    def handler(signum, frame):
        raise EnvTimeout(env_name, what, secs)
    old = signal.signal(signal.SIGALRM, handler)
    signal.setitimer(signal.ITIMER_REAL, secs)
    try:
        return fn(*args, **kw)
    finally:
        signal.setitimer(signal.ITIMER_REAL, 0)
        signal.signal(signal.SIGALRM, old)


def _call_thread(env_name, what, secs, fn, args, kw):
    box = {}

    def work():
        try:
            box["value"] = fn(*args, **kw)
        except BaseException as e:  # noqa: BLE001   (re-raised in the caller)
            box["error"] = e
    t = threading.Thread(target=work, name="sched-guard-%s-%s" % (env_name, what), daemon=True)
    t.start()
    t.join(secs)
    if t.is_alive():
        raise EnvTimeout(env_name, what, secs)      # the daemon worker is abandoned; it cannot block interpreter exit
    if "error" in box:
        raise box["error"]
    return box.get("value")


def evidence():
    return {"limit_s": LIMIT, "limit_after_first_timeout_s": SHORT, "guarded_calls": STATS["guarded_calls"],
            "timeouts": STATS["timeouts"], "slowest_guarded_call_s": STATS["max_call_s"],
            "mechanism": "signal.setitimer(ITIMER_REAL) in the main thread; daemon worker thread + join(timeout) elsewhere"}
