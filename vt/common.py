"""Shared machinery of the /verif checks (see DESIGN.md sections 1, 4).

Every check is `./check Cxx --tier quick|thorough`:
  1. proof obligations  : full .vo build of coq/ (translated units regenerated from /repo first),
                          then Properties/Cxx.v is recompiled and its `Print Assumptions` output parsed;
  2. correspondence     : the harness runs the real rl4co code from /repo's working tree, writes
                          build/cases_*.v, and the *model* is evaluated on the same inputs inside Coq;
  3. decision + evidence.
"""
from __future__ import annotations

import fcntl
import hashlib
import json
import os
import random
import re
import subprocess
import sys
import time
from concurrent.futures import ThreadPoolExecutor
from fractions import Fraction
from pathlib import Path

VERIF = Path(__file__).resolve().parent.parent
COQ = VERIF / "coq"
THEORIES = COQ / "theories"
BUILD = VERIF / "build"
EVID = Path(os.environ["VERIF_EVIDENCE_DIR"]) if os.environ.get("VERIF_EVIDENCE_DIR") else VERIF / "evidence"   # seeded runs write elsewhere
REPLAYS = VERIF / "replays"
CORPUS = VERIF / "corpus"
REPO = Path(os.environ.get("RL4CO_REPO", "/repo"))
PY = os.environ.get("RL4CO_PY", "/venv/bin/python")
NCPU = min(16, os.cpu_count() or 4)

GATE_RE = re.compile(
    r"\b(Admitted|admit|Axiom|Axioms|Parameter|Parameters|Conjecture|Conjectures|Admit Obligations|bypass_check)\b"
    r"|Unset\s+Guard|Unset\s+Positivity|Unset\s+Universe|type-in-type|impredicative-set"
)


def sh(cmd, timeout=None, cwd=None, env=None, input=None):
    """Run a command, return (rc, stdout+stderr)."""
    try:
        p = subprocess.run(
            cmd, shell=isinstance(cmd, str), cwd=cwd, env=env, input=input,
            stdout=subprocess.PIPE, stderr=subprocess.STDOUT, text=True, timeout=timeout,
        )
        return p.returncode, p.stdout
    except subprocess.TimeoutExpired as e:
        out = e.stdout or ""
        if isinstance(out, bytes):
            out = out.decode("utf-8", "replace")
        return 124, out + "\n[timeout after %ss]" % timeout


# --------------------------------------------------------------------------- numbers

def fr(x) -> Fraction:
    """Exact rational value of a python/torch float (a float32 is a dyadic rational)."""
    return Fraction(float(x))


SCALE_BITS = 40
SCALE = 1 << SCALE_BITS


def zscale(x, bits=SCALE_BITS) -> int:
    """Exact integer x * 2^bits; raises if x is not representable on that grid."""
    f = Fraction(float(x)) * (1 << bits)
    if f.denominator != 1:
        raise ValueError("value %r is not on the 2^-%d grid" % (x, bits))
    return int(f)


def zscale_floor(x, bits=SCALE_BITS) -> int:
    f = Fraction(float(x)) * (1 << bits)
    return f.numerator // f.denominator


# --------------------------------------------------------------------------- Coq literals

def cz(n: int) -> str:
    return "(%d)%%Z" % int(n)


def czraw(n: int) -> str:
    n = int(n)
    return "(%d)" % n if n < 0 else "%d" % n


def czlist(xs) -> str:
    return "[" + "; ".join(cz(x) for x in xs) + "]"


def cnat(n: int) -> str:
    n = int(n)
    assert 0 <= n < 5000, "nat literal too large: %d" % n
    return "%d%%nat" % n


def cnatlist(xs) -> str:
    return "[" + "; ".join(cnat(x) for x in xs) + "]"


def cbool(b) -> str:
    return "true" if bool(b) else "false"


def cboollist(xs) -> str:
    return "[" + "; ".join(cbool(x) for x in xs) + "]"


def clist(xs) -> str:
    return "[" + "; ".join(xs) + "]"


def cq(f: Fraction) -> str:
    f = Fraction(f)
    return "(%s # %d)" % (czraw(f.numerator), f.denominator)


def cpair(a, b) -> str:
    return "(%s, %s)" % (a, b)


# --------------------------------------------------------------------------- Coq running

def coq_lock():
    BUILD.mkdir(exist_ok=True)
    f = open(BUILD / ".coq.lock", "w")
    fcntl.flock(f, fcntl.LOCK_EX)
    return f


def gate_scan():
    """Refuse Admitted/Axiom/... anywhere in the development (comments included: fail closed)."""
    bad = []
    for p in sorted(THEORIES.rglob("*.v")):
        for ln, line in enumerate(p.read_text().splitlines(), 1):
            if GATE_RE.search(line):
                bad.append("%s:%d: %s" % (p.relative_to(VERIF), ln, line.strip()))
    return bad


def write_coq_project():
    """_CoqProject is derived from the files present (dependency order is coqdep's business)."""
    files = sorted(str(p.relative_to(COQ)) for p in THEORIES.rglob("*.v"))
    text = ("-Q theories RL4CO\n"
            "-arg -w -arg -notation-overridden,-ambiguous-paths,-deprecated-hint-without-locality,-deprecated-instance-without-locality\n"
            + "\n".join(files) + "\n")
    p = COQ / "_CoqProject"
    if not p.exists() or p.read_text() != text:
        p.write_text(text)


def coq_project_files():
    files = []
    for line in (COQ / "_CoqProject").read_text().splitlines():
        line = line.strip()
        if line.endswith(".v"):
            files.append(line)
    return files


def coq_build(log=None, timeout=3000):
    """Full .vo build (no -vos). Returns (ok, output)."""
    lock = coq_lock()
    try:
        from translator import regen  # noqa: WPS433
        msgs = regen.regenerate_all()
        write_coq_project()
        t0 = time.time()
        mk = COQ / "Makefile"
        if (not mk.exists()) or mk.stat().st_mtime < (COQ / "_CoqProject").stat().st_mtime:
            rc, out = sh("coq_makefile -f _CoqProject -o Makefile", cwd=COQ, timeout=120)
            if rc != 0:
                return False, out, msgs
        rc, out = sh("make -k -j%d" % NCPU, cwd=COQ, timeout=timeout)
        return rc == 0, out + "\n[make %.1fs]" % (time.time() - t0), msgs
    finally:
        lock.close()


def coqc_file(path: Path, timeout=600):
    """Compile a generated file outside the project tree; returns (rc, output)."""
    cmd = ["coqc", "-q", "-Q", str(THEORIES), "RL4CO", str(path)]
    return sh(cmd, timeout=timeout, cwd=str(path.parent))


def property_files(pid: str):
    """Properties/<pid>.v and Properties/<pid>_<unit>.v (one file per unit is allowed)."""
    d = THEORIES / "Properties"
    files = sorted([p for p in d.glob("%s.v" % pid)] + [p for p in d.glob("%s_*.v" % pid)])
    only = only_units()
    if only:   # development aid: VERIF_ONLY=tsp,atsp restricts a run to the named units/adapters
        files = [p for p in files if p.stem == pid or p.stem.split("_", 1)[1] in only]
    else:
        off = disabled_units(pid)
        files = [p for p in files if p.stem == pid or p.stem.split("_", 1)[1] not in off]
    return files


def disabled_units(pid=None):
    """Units/adapters that exist in the tree but are still under construction (vt/units_disabled.txt, one per line,
    either `unit` = for every property or `Cxx:unit` = for that property only): skipped by the registered checks,
    still runnable with VERIF_ONLY=<unit>."""
    p = VERIF / "vt" / "units_disabled.txt"
    if not p.exists():
        return set()
    out = set()
    for x in p.read_text().splitlines():
        x = x.strip()
        if not x or x.startswith("#"):
            continue
        if ":" in x:
            q, u = x.split(":", 1)
            if pid is not None and q.strip().upper() == str(pid).upper():
                out.add(u.strip())
        else:
            out.add(x)
    return out


def only_units():
    v = os.environ.get("VERIF_ONLY", "").strip()
    return set(x.strip() for x in v.split(",") if x.strip()) if v else None


def target_uptodate(src: Path) -> bool:
    """After `make -k`: is the .vo of this property file (hence everything it depends on) built from current sources?"""
    rel = src.relative_to(COQ).with_suffix(".vo")
    rc, _ = sh("make -q %s" % rel, cwd=COQ, timeout=300)
    return rc == 0


PA_SPLIT = re.compile(r"^(Closed under the global context|Axioms:)", re.M)


def check_property_file(src: Path):
    """Recompile one Properties file and parse `Print Assumptions`.

    Returns dict(theorems=[names], assumptions={name: 'closed' | [axiom lines]}, ok, output)."""
    pid = src.stem
    text = src.read_text()
    names = re.findall(r"^Print Assumptions\s+([\w.']+)\s*\.", text, re.M)
    thms = re.findall(r"^(?:Theorem|Lemma|Corollary)\s+([\w']+)", text, re.M)
    tmp = BUILD / "props"
    tmp.mkdir(parents=True, exist_ok=True)
    dst = tmp / ("%s_chk.v" % pid)
    dst.write_text(text)
    rc, out = coqc_file(dst, timeout=900)
    res = {"theorems": thms, "printed": names, "assumptions": {}, "ok": rc == 0, "output": out[-4000:]}
    if rc != 0:
        return res
    # split the output at each Print Assumptions answer
    pos = [m.start() for m in PA_SPLIT.finditer(out)]
    chunks = [out[a:b] for a, b in zip(pos, pos[1:] + [len(out)])]
    if len(chunks) != len(names):
        res["ok"] = False
        res["output"] = "cannot match Print Assumptions output (%d chunks, %d names)\n%s" % (
            len(chunks), len(names), out[-3000:])
        return res
    for n, c in zip(names, chunks):
        if c.startswith("Closed"):
            res["assumptions"][n] = "closed"
        else:
            axs = re.findall(r"^([\w.']+)\s*$|^([\w.']+)\s*:", c, re.M)
            axs = [a or b for a, b in axs if (a or b) != "Axioms"]
            res["assumptions"][n] = sorted(set(axs))
    return res


RES_RE = re.compile(r"=\s*\[(.*?)\]\s*:\s*list", re.S)


def coq_eval_lists(name: str, text: str, timeout=900):
    """Write build/<name>.v, compile, return list of integer lists (one per `Eval vm_compute`)."""
    path = BUILD / ("%s.v" % name)
    path.write_text(text)
    rc, out = coqc_file(path, timeout=timeout)
    for ext in (".vo", ".vok", ".vos", ".glob"):
        q = path.with_suffix(ext)
        if q.exists():
            q.unlink()
    aux = path.parent / ("." + path.stem + ".aux")
    if aux.exists():
        aux.unlink()
    if rc != 0:
        return None, out
    res = []
    for m in RES_RE.finditer(out):
        body = m.group(1)
        res.append([int(t) for t in re.findall(r"-?\d+", body.replace("%Z", "").replace("%nat", "").replace("%N", ""))])
    return res, out


def coq_eval_shards(prefix: str, header: str, case_type: str, check_fn: str, cases: list, shard=400,
                    timeout=900):
    """cases: list of Coq terms (strings). Evaluates `map check_fn cases` in shards, in parallel.
    Returns (codes list aligned with cases) or raises RuntimeError with the coqc output."""
    BUILD.mkdir(exist_ok=True)
    shards = [cases[i:i + shard] for i in range(0, len(cases), shard)]

    def one(k):
        body = ";\n  ".join(shards[k])
        text = (
            header
            + "\nDefinition cases : list (%s) := [\n  %s ].\n" % (case_type, body)
            + "Set Printing Width 1000000.\nSet Printing Depth 1000000.\n"
            + "Eval vm_compute in (map (%s) cases).\n" % check_fn
        )
        res, out = coq_eval_lists("%s_%03d" % (prefix, k), text, timeout=timeout)
        if res is None or len(res) != 1 or len(res[0]) != len(shards[k]):
            raise RuntimeError("coqc failed on shard %s_%03d:\n%s" % (prefix, k, (out or "")[-3000:]))
        return res[0]

    with ThreadPoolExecutor(max_workers=NCPU) as ex:
        parts = list(ex.map(one, range(len(shards))))
    return [c for p in parts for c in p]


# --------------------------------------------------------------------------- context / evidence

class Ctx:
    def __init__(self, pid: str, tier: str, seed: int):
        self.pid = pid
        self.tier = tier
        self.seed = seed
        self.rng = random.Random(seed)
        self.t0 = time.time()
        self.violations = []      # list of replay paths
        self.known = []
        self.evaluations = 0
        self.nontrivial = set()
        self.samples = []
        self.dist = {}
        self.notes = []
        self.units = {}
        self.proof = None
        self.trusted = []
        self.assumptions = []
        self.rule = ""
        self.level = "proof"
        self.broken = []          # names of theorems / correspondences that no longer check
        self.extra = {}
        self._known_sigs = set()
        self._viol_sigs = set()

    # -- bookkeeping
    def count(self, key, n=1):
        self.dist[key] = self.dist.get(key, 0) + n

    def seen(self, obj, nontrivial=True):
        self.evaluations += 1
        if nontrivial:
            h = hashlib.sha1(json.dumps(obj, sort_keys=True, default=str).encode()).hexdigest()[:16]
            self.nontrivial.add(h)

    def sample(self, obj, cap=6):
        if len(self.samples) < cap:
            self.samples.append(obj)

    # -- reporting
    def write_replay(self, obj, tag="") -> str:
        REPLAYS.mkdir(exist_ok=True)
        blob = json.dumps(obj, sort_keys=True, default=str)
        h = hashlib.sha1(blob.encode()).hexdigest()[:12]
        path = REPLAYS / ("%s-%s%s.json" % (self.pid, tag + "-" if tag else "", h))
        path.write_text(json.dumps(obj, indent=1, default=str))
        return str(path)

    def violation(self, replay_obj, tag="", no_input=False):
        replay_obj = dict(replay_obj)
        replay_obj.setdefault("property", self.pid)
        path = self.write_replay(replay_obj, tag)
        line = "VIOLATION property=%s replay=%s" % (self.pid, path)
        if no_input:
            line += " no-failing-input-found"
        print(line, flush=True)
        self.violations.append(path)

    def known_finding(self, what):
        print("KNOWN-FINDING: property=%s %s" % (self.pid, what), flush=True)
        self.known.append(what)

    def failure(self, signature, replay_obj, tag=""):
        """A concrete input on which the property fails on the implementation.  `signature` names
        env/unit + mechanism (e.g. "mtsp/minmax: reward-changes-under-post-finish-padding"); if
        known_findings.json lists it as open for this property it is reported once as KNOWN-FINDING,
        otherwise as a VIOLATION with the replay."""
        for e in load_known_findings(self.pid):
            if e.get("signature") == signature:
                if signature not in self._known_sigs:
                    self._known_sigs.add(signature)
                    self.known_finding("%s -- %s" % (signature, e.get("what", "")))
                return False
        if signature in self._viol_sigs:      # one VIOLATION line per distinct signature
            return True
        self._viol_sigs.add(signature)
        replay_obj = dict(replay_obj)
        replay_obj["signature"] = signature
        self.violation(replay_obj, tag=tag)
        return True

    def finish(self):
        ev = {
            "property_id": self.pid,
            "tier": self.tier,
            "seed": self.seed,
            "level": self.level,
            "coverage": {},
            "assumptions": self.assumptions,
            "wall_s": round(time.time() - self.t0, 2),
            "violations": len(self.violations),
        }
        cov = ev["coverage"]
        if self.proof is not None:
            cov["obligations"] = self.proof["obligations"]
            cov["discharged"] = self.proof["discharged"]
            cov["checker_cmd"] = self.proof["checker_cmd"]
            cov["theorems"] = self.proof["theorems"]
            cov["print_assumptions"] = self.proof["print_assumptions"]
        cov["trusted_base"] = self.trusted
        cov["evaluations"] = self.evaluations
        cov["distinct_nontrivial"] = len(self.nontrivial)
        cov["rule"] = self.rule
        cov["samples"] = self.samples
        cov["input_distribution"] = self.dist
        cov["units"] = self.units
        cov["known_findings_reproduced"] = self.known
        cov["broken_obligations"] = self.broken
        cov["notes"] = self.notes
        cov.update(self.extra)
        EVID.mkdir(exist_ok=True)
        (EVID / ("%s.json" % self.pid)).write_text(json.dumps(ev, indent=1, default=str))
        return 1 if self.violations else 0


def load_known_findings(pid):
    p = VERIF / "known_findings.json"
    if not p.exists() or os.environ.get("VERIF_IGNORE_KNOWN") == "1":     # dev switch: regenerate the replay of a recorded finding
        return []
    data = json.loads(p.read_text())
    return [e for e in data.get("findings", []) if e.get("property") == pid and e.get("status") == "open"]


TRUSTED_COMMON = [
    "Coq 8.16.1 kernel; vm_compute (case evaluation and finite lifts); no native_compute",
    "hand-written Gallina models read against the source; tie = correspondence check run on every invocation (differential, bounded by its generators)",
    "torch/TensorDict per-row semantics of gather/scatter/where/sort/topk/multinomial",
    "exact arithmetic in theorems; float32 rounding not modelled (exact-grid inputs / margins in the correspondence)",
    "python harness vt/*.py that writes case files and interprets result codes",
]


def proof_stage(ctx: Ctx, skip_build=False):
    """Stage 1: gate, build, property files. Fills ctx.proof; returns True when all obligations discharged."""
    bad = gate_scan()
    if bad:
        ctx.broken.append("gate: forbidden vernacular found: " + "; ".join(bad[:5]))
    ok, out, msgs = coq_build()
    ctx.notes.extend(msgs)
    files = property_files(ctx.pid)
    all_ok = bool(files) and not bad
    n_ob = n_ok = 0
    thms, pa = [], {}
    ctx.proof_units = {}
    for src in files:
        text = src.read_text()
        k = len(re.findall(r"^(?:Theorem|Lemma|Corollary)\s+", text, re.M))
        n_ob += k
        fok = ok or target_uptodate(src)
        if not fok:
            m = re.findall(r'File "([^"]+)", line (\d+), characters [\d-]+:\s*\n(Error:[^\n]*(?:\n[^\n]*){0,3})', out)
            ctx.broken.append("proof obligation no longer checks: coq build of %s failed at %s" % (
                src.name, "; ".join("%s:%s %s" % (a, b, c.replace("\n", " ")[:300]) for a, b, c in m[:3]) or "see build_output_tail"))
            ctx.extra["build_output_tail"] = out[-3000:]
            all_ok = False
            ctx.proof_units[src.stem] = False
            continue
        res = check_property_file(src)
        if not res["ok"]:
            ctx.broken.append("proof obligation no longer checks: %s does not compile" % src.name)
            ctx.extra["props_output_tail_" + src.stem] = res["output"]
            all_ok = False
            ctx.proof_units[src.stem] = False
            continue
        ctx.proof_units[src.stem] = True
        n_ok += min(k, len(res["assumptions"]))
        thms += res["theorems"]
        pa.update(res["assumptions"])
    axioms = sorted({a for v in pa.values() if v != "closed" for a in v})
    ctx.proof = {
        "obligations": n_ob,
        "discharged": n_ok,
        "checker_cmd": "make -C coq (coqc 8.16.1, full .vo build, no -vos) && coqc -Q coq/theories RL4CO coq/theories/Properties/%s*.v" % ctx.pid,
        "theorems": thms,
        "print_assumptions": pa,
    }
    ctx.trusted = list(TRUSTED_COMMON) + ["axioms reported by Print Assumptions for this property: %s" % (axioms or "none (closed under the global context)")]
    return all_ok
