"""Wall-clock guard around every DIRECT call of C10 / C11 / C12 into rl4co's decoding code
(rl4co.utils.decoding, rl4co.utils.ops, ConstructivePolicy.forward).

`DecodingStrategy.sampling(logprobs, mask)` contains a data-dependent `while` loop (resampling until no row holds a masked
action); a change of its test makes the call spin for ever, and a check that hangs inside it reports nothing.  So the
checks go through `call(fn_name, fn, *args, **kw)`, which is vt.sched_guard.call (ITIMER_REAL in the main thread, a daemon
worker thread elsewhere) keyed by the NAME OF THE CALLED FUNCTION: 20 s for the first call that does not return
(VERIF_ENV_CALL_TIMEOUT), 3 s for any later guarded call of the same function; callers test `dead(fn_name)` and stop
calling a function that did not return once.  Calls must not be nested (the inner guard would cancel the outer timer):
only the outermost call into rl4co is wrapped.

A call that does not return is reported by the caller through ctx.failure(signature(fn_name), replay) with the input."""
from vt import sched_guard as _g


class DecodeTimeout(Exception):
    def __init__(self, fn_name, secs):
        Exception.__init__(self, "%s did not return within %.0f s" % (fn_name, secs))
        self.fn_name, self.secs = fn_name, secs


def signature(fn_name):
    return "%s: call into rl4co does not terminate" % fn_name


def call(fn_name, fn, *args, **kw):
    """fn(*args, **kw) under the wall-clock limit; raises DecodeTimeout(fn_name) when it does not return in time."""
    try:
        return _g.call(fn_name, "call", fn, *args, **kw)
    except _g.EnvTimeout as e:
        raise DecodeTimeout(fn_name, e.secs) from None


def dead(fn_name=None):
    """number of guarded calls of fn_name that did not return in this process (all names: dict)"""
    return _g.timed_out(fn_name)


def evidence():
    ev = _g.evidence()
    ev["functions_that_did_not_return"] = dict(_g.timed_out())
    return ev
