"""C19, the part that is NOT provable here: differential TESTS on the real code (reported as testing in the evidence).

  npz        save_tensordict_to_npz -> load_npz_to_tensordict for every environment's generated TensorDict
             (keys, key order, dtypes, shapes, values, batch size; compressed and not)
  copy       copy.deepcopy(env) and pickle round trip of every environment: same reset, same masks / done / reward along
             random action sequences, same final reward, same rng state, same generator stream
  checkpoint REINFORCE + AttentionModelPolicy with each baseline, one tiny epoch, trainer.save_checkpoint ->
             REINFORCE.load_from_checkpoint: same greedy actions / rewards on a fixed batch, same baseline values
  files      FJSP instances -> parser.write -> FJSPFileGenerator / env.load_data ; JSSP instances -> files in the documented
             format -> JSSPFileGenerator: the same instances up to padding and FILE ORDER (os.listdir order is unspecified:
             compared as multisets, the observed order is recorded), then same masks / rewards on matched pairs
No Gallina model exists for numpy's npz format, pickle, deepcopy or Lightning; nothing here is a proof."""
import copy
import os
import pickle
import shutil

ENV_SPECS = [
    ("tsp", {"generator_params": {"num_loc": 7}}),
    ("atsp", {"generator_params": {"num_loc": 6}}),
    ("cvrp", {"generator_params": {"num_loc": 7}}),
    ("sdvrp", {"generator_params": {"num_loc": 6}}),
    ("svrp", {"generator_params": {"num_loc": 6}}),
    ("cvrptw", {"generator_params": {"num_loc": 6}}),
    ("op", {"generator_params": {"num_loc": 7}}),
    ("pctsp", {"generator_params": {"num_loc": 7}}),
    ("spctsp", {"generator_params": {"num_loc": 7}}),
    ("pdp", {"generator_params": {"num_loc": 6}}),
    ("mtsp", {"generator_params": {"num_loc": 7, "min_num_agents": 2, "max_num_agents": 3}}),
    ("mdcpdp", {"generator_params": {"num_loc": 6, "num_agents": 2}}),
    ("mtvrp", {"generator_params": {"num_loc": 6, "variant_preset": "all"}, "check_solution": False}),
    ("ffsp", {"generator_params": {"num_job": 4, "num_machine": 2, "num_stage": 2}}),
    ("fjsp", {"generator_params": {"num_jobs": 3, "num_machines": 2, "min_ops_per_job": 1, "max_ops_per_job": 3}}),
    ("jssp", {"generator_params": {"num_jobs": 3, "num_machines": 3}}),
    ("smtwtp", {"generator_params": {"num_job": 6}}),
    ("mcp", {}),
    ("flp", {}),
    ("tsp_kopt", {"generator_params": {"num_loc": 7}}),
    ("pdp_ruin_repair", {"generator_params": {"num_loc": 6}}),
]
SKIPPED_ENVS = {"dpp": "needs a data archive downloaded from the network", "mdpp": "needs a data archive downloaded from the network"}


def _torch():
    import torch
    return torch


def real(what, fn, *a, **k):
    """every call into rl4co goes through the wall-clock guard of vt/props/c19.py (vt/sched_guard.py)"""
    from vt.props import c19
    return c19.real(what, fn, *a, **k)


def _guard():
    from vt.props import c19
    return c19.RealTimeout, c19.nonterminating


def make_env(name, kw):
    from rl4co.envs import ENV_REGISTRY
    kw = copy.deepcopy(kw)
    try:
        return ENV_REGISTRY[name](**kw)
    except Exception:  # noqa: BLE001 -- generator parameter names differ between environments: fall back to defaults
        kw.pop("generator_params", None)
        return ENV_REGISTRY[name](**kw)


def td_equal(a, b, order=True):
    """None when two TensorDicts agree on keys (and order), dtypes, shapes, values, batch size; else a description"""
    torch = _torch()
    ka, kb = list(a.keys()), list(b.keys())
    if set(ka) != set(kb):
        return "keys differ: %s vs %s" % (sorted(ka), sorted(kb))
    if order and ka != kb:
        return "key order differs: %s vs %s" % (ka, kb)
    if tuple(a.batch_size) != tuple(b.batch_size):
        return "batch size %s vs %s" % (tuple(a.batch_size), tuple(b.batch_size))
    for k in ka:
        x, y = a[k], b[k]
        if not isinstance(x, torch.Tensor) or not isinstance(y, torch.Tensor):
            continue
        if x.dtype != y.dtype:
            return "dtype of %r: %s vs %s" % (k, x.dtype, y.dtype)
        if tuple(x.shape) != tuple(y.shape):
            return "shape of %r: %s vs %s" % (k, tuple(x.shape), tuple(y.shape))
        if not torch.equal(x, y):
            if x.is_floating_point() and torch.equal(torch.nan_to_num(x, nan=123.0), torch.nan_to_num(y, nan=123.0)):
                continue
            return "values of %r differ" % k
    return None


# ------------------------------------------------------------------------------------------------ npz
def diff_npz(ctx, spec_fail, work):
    torch = _torch()
    RealTimeout, nonterminating = _guard()
    from rl4co.data.utils import load_npz_to_tensordict, save_tensordict_to_npz
    d = work / "diff_npz"
    shutil.rmtree(d, ignore_errors=True)
    os.makedirs(d)
    n = fails = 0
    per_env = {}
    for name, kw in ENV_SPECS:
        try:
            env = make_env(name, kw)
        except Exception as e:  # noqa: BLE001
            per_env[name] = "not constructed: %s" % type(e).__name__
            continue
        for B in ([1, 3] if ctx.tier == "quick" else [1, 2, 5]):
            torch.manual_seed(ctx.rng.randint(0, 2 ** 31 - 1))
            try:
                td = real("%s generator" % name, env.generator, [B])
            except RealTimeout as e:
                nonterminating(spec_fail, e, {"unit": "npz round trip", "env": name, "env_kwargs": kw, "B": B})
                break
            for compress in (False, True):
                path = str(d / ("%s_%d_%d.npz" % (name, B, compress)))
                n += 1
                ctx.count("diff_npz_cases")
                try:
                    real("save_tensordict_to_npz", save_tensordict_to_npz, td, path, compress=compress)
                    back = real("load_npz_to_tensordict", load_npz_to_tensordict, path)
                    why = td_equal(td, back)
                except Exception as e:  # noqa: BLE001
                    why = "raised %s: %s" % (type(e).__name__, str(e)[:120])
                except RealTimeout as e:
                    nonterminating(spec_fail, e, {"unit": "npz round trip", "env": name, "env_kwargs": kw, "B": B, "compress": compress})
                    continue
                if why is not None:
                    fails += 1
                    spec_fail.append(("npz: save_tensordict_to_npz -> load_npz_to_tensordict changes the TensorDict", {
                        "unit": "npz round trip", "env": name, "env_kwargs": kw, "B": B, "compress": compress, "difference": why,
                        "saved": {k: {"dtype": str(v.dtype), "shape": list(v.shape)} for k, v in td.items()}}))
        per_env[name] = "ok"
    ctx.units["TEST npz save/load of every environment's generated TensorDict"] = {
        "kind": "differential-test", "cases": n, "failures": fails, "environments": per_env, "skipped": SKIPPED_ENVS,
        "compared": "keys, key order, dtype, shape, values (bitwise), batch size; compress False and True"}


# ------------------------------------------------------------------------------------------------ deepcopy / pickle
def random_actions(rng, mask):
    """one allowed action per row (row with no allowed action: 0)"""
    acts = []
    for row in mask.reshape(mask.shape[0], -1).tolist():
        idx = [i for i, b in enumerate(row) if b]
        acts.append(rng.choice(idx) if idx else 0)
    return acts


def compare_rollout(ctx, envs, td, rng, max_steps=250):
    """envs[0] is the original.  Same actions (drawn from the original's mask) on every env; compares reset output, then
    action_mask / done / reward at every step, then get_reward.  Returns None or (description, actions so far)."""
    torch = _torch()
    states = []
    seed = rng.randint(0, 2 ** 31 - 1)
    for e in envs:
        torch.manual_seed(seed)          # some resets draw (improvement envs: a random initial solution)
        states.append(real("env.reset", e.reset, td.clone()))
    for i in range(1, len(envs)):
        why = td_equal(states[0], states[i], order=False)
        if why:
            return "reset output differs (%s)" % why, []
    if "action_mask" not in states[0].keys():
        return None, None
    acts = []
    for step in range(max_steps):
        if bool(states[0]["done"].all()):
            break
        a = random_actions(rng, states[0]["action_mask"])
        acts.append(a)
        for i, e in enumerate(envs):
            states[i].set("action", torch.tensor(a))
            states[i] = real("env.step", e.step, states[i])["next"]
        for i in range(1, len(envs)):
            for key in ("action_mask", "done", "reward"):
                if key in states[0].keys() and not torch.equal(states[0][key], states[i][key]):
                    return "%s differs at step %d (copy %d)" % (key, step, i), acts
    if acts and bool(states[0]["done"].all()):
        A = torch.tensor(acts).T
        try:
            r0 = real("env.get_reward", envs[0].get_reward, states[0], A)
        except Exception:  # noqa: BLE001 -- a random episode the env's own checker refuses: not our concern here
            return None, acts
        for i in range(1, len(envs)):
            ri = real("env.get_reward", envs[i].get_reward, states[i], A)
            if not torch.equal(r0, ri):
                return "final reward differs (copy %d): %s vs %s" % (i, r0.tolist(), ri.tolist()), acts
    return None, acts


def diff_copy(ctx, spec_fail, work):
    torch = _torch()
    RealTimeout, nonterminating = _guard()
    n = fails = steps = 0
    per_env = {}
    for name, kw in ENV_SPECS:
        try:
            env = make_env(name, kw)
        except Exception as e:  # noqa: BLE001
            per_env[name] = "not constructed: %s" % type(e).__name__
            continue
        try:
            # env.rng IS torch's default generator (torch.manual_seed returns it): __setstate__ reseeds it and must put
            # the captured state back, otherwise copying an environment silently restarts the global random stream
            torch.manual_seed(ctx.rng.randint(0, 2 ** 31 - 1))
            torch.rand(3)
            before = torch.get_rng_state()
            clones = [("deepcopy", copy.deepcopy(env))]
            after_copy = torch.get_rng_state()
            clones += [("pickle", pickle.loads(pickle.dumps(env)))]
            after_pickle = torch.get_rng_state()
            clones += [("deepcopy of unpickled", copy.deepcopy(pickle.loads(pickle.dumps(env))))]
            n += 1
            if not (torch.equal(before, after_copy) and torch.equal(before, after_pickle)):
                fails += 1
                spec_fail.append(("env copy: rng state is not carried through __getstate__/__setstate__", {
                    "unit": "env deepcopy/pickle", "env": name, "env_kwargs": kw,
                    "what": "torch's default generator (= env.rng) has another state after copy.deepcopy(env) / pickle round trip "
                            "than before: the random stream of everything that follows (generators, sampling) changes",
                    "deepcopy_changed_it": not torch.equal(before, after_copy), "pickle_changed_it": not torch.equal(before, after_pickle)}))
        except Exception as e:  # noqa: BLE001
            fails += 1
            spec_fail.append(("env copy: deepcopy / pickle of an environment raises", {
                "unit": "env deepcopy/pickle", "env": name, "env_kwargs": kw, "error": "%s: %s" % (type(e).__name__, str(e)[:200])}))
            per_env[name] = "copy raised"
            continue
        # rng state and attributes
        for how, c in clones:
            n += 1
            if not torch.equal(env.rng.get_state(), c.rng.get_state()):
                fails += 1
                spec_fail.append(("env copy: rng state is not carried through __getstate__/__setstate__", {
                    "unit": "env deepcopy/pickle", "env": name, "env_kwargs": kw, "how": how}))
            if type(c) is not type(env) or set(vars(c)) != set(vars(env)):
                fails += 1
                spec_fail.append(("env copy: attributes lost or added by copying", {
                    "unit": "env deepcopy/pickle", "env": name, "env_kwargs": kw, "how": how,
                    "missing": sorted(set(vars(env)) - set(vars(c))), "extra": sorted(set(vars(c)) - set(vars(env)))}))
        # generator stream
        seed = ctx.rng.randint(0, 2 ** 31 - 1)
        torch.manual_seed(seed)
        try:
            ref = real("%s generator" % name, env.generator, [2])
        except RealTimeout as e:
            nonterminating(spec_fail, e, {"unit": "env deepcopy/pickle", "env": name, "env_kwargs": kw, "torch_seed": seed})
            per_env[name] = "generator does not terminate"
            continue
        for how, c in clones:
            n += 1
            torch.manual_seed(seed)
            why = td_equal(ref, real("%s generator" % name, c.generator, [2]))
            if why:
                fails += 1
                spec_fail.append(("env copy: the copied environment's generator produces other instances", {
                    "unit": "env deepcopy/pickle", "env": name, "env_kwargs": kw, "how": how, "torch_seed": seed, "difference": why}))
        # masks / done / reward along random action sequences
        for rep in range(2 if ctx.tier == "quick" else 6):
            seed = ctx.rng.randint(0, 2 ** 31 - 1)
            torch.manual_seed(seed)
            try:
                td = real("%s generator" % name, env.generator, [3])
            except RealTimeout as e:
                nonterminating(spec_fail, e, {"unit": "env deepcopy/pickle", "env": name, "env_kwargs": kw, "torch_seed": seed})
                break
            n += 1
            ctx.count("diff_copy_rollouts")
            try:
                why, acts = compare_rollout(ctx, [env] + [c for _, c in clones], td, ctx.rng)
            except Exception as e:  # noqa: BLE001
                why, acts = "raised %s: %s" % (type(e).__name__, str(e)[:160]), None
            except RealTimeout as e:
                nonterminating(spec_fail, e, {"unit": "env deepcopy/pickle", "env": name, "env_kwargs": kw, "torch_seed": seed})
                break
            steps += len(acts or [])
            if why:
                fails += 1
                spec_fail.append(("env copy: a deep-copied / unpickled environment behaves differently", {
                    "unit": "env deepcopy/pickle", "env": name, "env_kwargs": kw, "torch_seed": seed, "difference": why,
                    "actions": acts, "copies": [h for h, _ in clones]}))
        per_env[name] = "ok"
    ctx.units["TEST copy.deepcopy / pickle of every environment"] = {
        "kind": "differential-test", "cases": n, "failures": fails, "steps_compared": steps, "environments": per_env,
        "skipped": SKIPPED_ENVS,
        "compared": "rng state, attribute set, generator stream under a fixed torch seed, reset output, action_mask / done / reward "
                    "at every step of random admitted action sequences (batch 3), final get_reward; improvement environments "
                    "(no action_mask): reset output only"}


# ------------------------------------------------------------------------------------------------ checkpoints
class _torch_load_trusting:
    """harness-side only: torch >= 2.6 defaults torch.load(weights_only=True), which refuses rl4co's own checkpoints
    (they pickle the env and the policy as hyper-parameters).  Used AFTER the plain call has been tried and recorded."""

    def __enter__(self):
        torch = _torch()
        self._orig = torch.load

        def load(*a, **k):
            if k.get("weights_only") is None:
                k["weights_only"] = False
            return self._orig(*a, **k)
        torch.load = load

    def __exit__(self, *exc):
        _torch().load = self._orig


def build_model(env_name, baseline, seed):
    torch = _torch()
    from rl4co.models.rl import REINFORCE
    from rl4co.models.zoo import AttentionModelPolicy
    torch.manual_seed(seed)
    env = make_env(env_name, dict(ENV_SPECS)[env_name])
    policy = AttentionModelPolicy(env_name=env.name, embed_dim=128 if baseline == "critic" else 32, num_encoder_layers=1, num_heads=2)
    model = REINFORCE(env, policy, baseline=baseline, train_data_size=8, val_data_size=8, test_data_size=8, batch_size=4)
    return env, model


def checkpoint_case(env_name, baseline, seed, d, epochs=1):
    """returns dict(plain_load_error, policy_same, baseline_same, details...)"""
    torch = _torch()
    from rl4co.models.rl import REINFORCE
    from rl4co.utils import RL4COTrainer
    env, model = build_model(env_name, baseline, seed)
    trainer = RL4COTrainer(max_epochs=epochs, devices=1, accelerator="cpu", logger=False, enable_checkpointing=False,
                           enable_progress_bar=False, enable_model_summary=False, default_root_dir=str(d))
    trainer.fit(model)
    path = os.path.join(str(d), "%s_%s.ckpt" % (env_name, baseline))
    trainer.save_checkpoint(path)
    out = {"env": env_name, "baseline": baseline, "seed": seed, "plain_load_error": None}
    try:
        loaded = REINFORCE.load_from_checkpoint(path)
    except Exception as e:  # noqa: BLE001
        out["plain_load_error"] = "%s: %s" % (type(e).__name__, str(e).strip().splitlines()[0][:200])
        with _torch_load_trusting():
            loaded = REINFORCE.load_from_checkpoint(path)
    torch.manual_seed(seed + 1)
    batch = env.generator([6])
    model.policy.eval()
    loaded.policy.eval()
    with torch.inference_mode():
        o1 = model.policy(env.reset(batch.clone()), env, decode_type="greedy", phase="test")
        o2 = loaded.policy(loaded.env.reset(batch.clone()), loaded.env, decode_type="greedy", phase="test")
    out["policy_same"] = bool(torch.equal(o1["actions"], o2["actions"]) and torch.equal(o1["reward"], o2["reward"]))
    out["actions"] = [o1["actions"].tolist(), o2["actions"].tolist()]
    out["rewards"] = [o1["reward"].tolist(), o2["reward"].tolist()]
    sd1, sd2 = model.state_dict(), loaded.state_dict()
    out["state_dict_same"] = set(sd1) == set(sd2) and all(torch.equal(sd1[k], sd2[k]) for k in sd1)
    # baseline: what it computes on a fixed (td, reward)
    r = torch.tensor([-3.0, -4.0, -5.0, -2.0, -1.0, -2.5])
    try:
        with torch.inference_mode():       # RolloutBaseline.eval decodes by sampling: same torch seed on both sides
            torch.manual_seed(seed + 2)
            b1 = model.baseline.eval(env.reset(batch.clone()), r.clone(), env)[0]
            torch.manual_seed(seed + 2)
            b2 = loaded.baseline.eval(loaded.env.reset(batch.clone()), r.clone(), loaded.env)[0]
        t1, t2 = torch.as_tensor(b1, dtype=torch.float32), torch.as_tensor(b2, dtype=torch.float32)
        out["baseline_same"] = bool(t1.shape == t2.shape and torch.allclose(t1, t2, rtol=0, atol=0))
        out["baseline_values"] = [t1.flatten().tolist(), t2.flatten().tolist()]
    except Exception as e:  # noqa: BLE001
        out["baseline_same"] = None
        out["baseline_error"] = "%s: %s" % (type(e).__name__, str(e)[:160])
    out["baseline_plain_state"] = {
        "original": {k: _plain(getattr(model.baseline, k, None)) for k in ("v", "alpha")},
        "restored": {k: _plain(getattr(loaded.baseline, k, None)) for k in ("v", "alpha")}}
    if baseline == "rollout":
        # is the inner rollout policy itself restored? compare with alpha forced equal
        try:
            with torch.inference_mode():
                torch.manual_seed(seed + 3)
                i1 = model.baseline.baseline.eval(env.reset(batch.clone()), r.clone(), env)[0]
                torch.manual_seed(seed + 3)
                i2 = loaded.baseline.baseline.eval(loaded.env.reset(batch.clone()), r.clone(), loaded.env)[0]
            out["inner_rollout_policy_same"] = bool(torch.equal(i1, i2))
        except Exception as e:  # noqa: BLE001
            out["inner_rollout_policy_same"] = "raised %s" % type(e).__name__
    return out


def _plain(v):
    torch = _torch()
    if isinstance(v, torch.Tensor):
        return v.tolist()
    return v


def diff_checkpoint(ctx, spec_fail, work):
    RealTimeout, nonterminating = _guard()
    d = work / "diff_ckpt"
    shutil.rmtree(d, ignore_errors=True)
    os.makedirs(d)
    combos = [("tsp", b) for b in ("no", "mean", "exponential", "rollout", "critic")]
    if ctx.tier != "quick":
        combos += [("cvrp", b) for b in ("no", "exponential", "rollout", "critic")] + [("op", "rollout"), ("pctsp", "exponential")]
    n = fails = 0
    results = []
    import logging
    for lg in ("lightning", "lightning.pytorch", "pytorch_lightning", "lightning.fabric", "rl4co", "lightning.pytorch.utilities.rank_zero"):
        logging.getLogger(lg).setLevel(logging.ERROR)
    plain_err = None
    for env_name, bl in combos:
        n += 1
        seed = ctx.rng.randint(0, 2 ** 31 - 1)
        ctx.count("diff_checkpoint_cases")
        try:
            out = real("checkpoint save/restore", checkpoint_case, env_name, bl, seed, d, epochs=1 if ctx.tier == "quick" else 2)
        except RealTimeout as e:
            nonterminating(spec_fail, e, {"unit": "checkpoint", "env": env_name, "baseline": bl, "seed": seed})
            continue
        except Exception as e:  # noqa: BLE001
            fails += 1
            spec_fail.append(("reinforce/checkpoint: save / restore raises", {
                "unit": "checkpoint", "env": env_name, "baseline": bl, "seed": seed, "error": "%s: %s" % (type(e).__name__, str(e)[:300])}))
            continue
        results.append({k: out[k] for k in ("env", "baseline", "plain_load_error", "policy_same", "state_dict_same", "baseline_same")})
        if out["plain_load_error"] and plain_err is None:
            plain_err = out
        if not out["policy_same"] or not out["state_dict_same"]:
            fails += 1
            spec_fail.append(("reinforce/checkpoint: restored-policy-differs", dict(out, unit="checkpoint")))
        if out["baseline_same"] is False:
            fails += 1
            st = out["baseline_plain_state"]
            attr = "WarmupBaseline.alpha" if st["original"]["alpha"] != st["restored"]["alpha"] else \
                   "ExponentialBaseline.v" if st["original"]["v"] != st["restored"]["v"] else "baseline"
            sig = {"WarmupBaseline.alpha": "warmup-baseline-alpha-not-restored", "ExponentialBaseline.v": "exponential-baseline-v-not-restored"}.get(attr, "baseline-state-not-restored")
            spec_fail.append(("reinforce/checkpoint: %s" % sig, dict(out, unit="checkpoint",
                              what="after load_from_checkpoint(load_baseline=True) the baseline computes other values than the "
                                   "one that was saved: %s is a plain attribute, not part of the state_dict" % attr)))
        if out.get("inner_rollout_policy_same") is False:
            fails += 1
            spec_fail.append(("reinforce/checkpoint: rollout-baseline-policy-not-restored", dict(out, unit="checkpoint")))
    if plain_err is not None:
        fails += 1
        spec_fail.append(("reinforce/checkpoint: load_from_checkpoint-raises-weights_only", {
            "unit": "checkpoint", "env": plain_err["env"], "baseline": plain_err["baseline"], "seed": plain_err["seed"],
            "error": plain_err["plain_load_error"],
            "what": "REINFORCE.load_from_checkpoint(path) with the installed torch: torch.load defaults to weights_only=True and the "
                    "checkpoint pickles env and policy objects as hyper-parameters; both torch.load calls in load_from_checkpoint are "
                    "affected (the second one, for the baseline, ignores a weights_only=False passed by the caller). The remaining "
                    "comparisons were made with weights_only=False forced from the harness."}))
    ctx.units["TEST Lightning checkpoint save/restore of REINFORCE with each baseline"] = {
        "kind": "differential-test", "cases": n, "failures": fails, "results": results,
        "compared": "greedy actions and rewards on a fixed batch of 6, full state_dict, baseline.eval values on a fixed reward vector; "
                    "AttentionModelPolicy (1 layer), 1 epoch (thorough: 2) of 8 instances on CPU"}


# ------------------------------------------------------------------------------------------------ text files through the file generators
def canon_rows(td):
    """multiset-comparable canonical form of every row: instance content without padding"""
    rows = []
    for b in range(td.batch_size[0]):
        st = [int(x) for x in td["start_op_per_job"][b].tolist()]
        en = [int(x) for x in td["end_op_per_job"][b].tolist()]
        total = int((~td["pad_mask"][b]).sum())
        pt = tuple(tuple(int(v) for v in r[:total]) for r in td["proc_times"][b].tolist())
        rows.append((tuple(st), tuple(en), pt, total))
    return rows


def diff_files(ctx, spec_fail, work):
    torch = _torch()
    RealTimeout, nonterminating = _guard()
    from rl4co.envs import FJSPEnv, JSSPEnv
    from rl4co.envs.scheduling.fjsp.parser import write
    from vt.props.c19 import g_of_td_row, jssp_words, render
    n = fails = 0
    orders = []
    for rep, (cls, nj, nm, lo, hi, B) in enumerate([(FJSPEnv, 3, 2, 1, 3, 5), (FJSPEnv, 4, 3, 2, 3, 4), (JSSPEnv, 3, 3, 3, 3, 4)] +
                                                   ([] if ctx.tier == "quick" else [(FJSPEnv, 6, 4, 2, 5, 12), (JSSPEnv, 5, 4, 4, 4, 12)])):
        d = work / ("diff_files_%d" % rep)
        shutil.rmtree(d, ignore_errors=True)
        os.makedirs(d)
        seed = ctx.rng.randint(0, 2 ** 31 - 1)
        torch.manual_seed(seed)
        gp = dict(num_jobs=nj, num_machines=nm, min_ops_per_job=lo, max_ops_per_job=hi) if cls is FJSPEnv else dict(num_jobs=nj, num_machines=nm)
        env = cls(generator_params=gp)
        info = {"unit": "text files through the file generator", "env": env.name, "generator_params": gp, "B": B, "torch_seed": seed}
        n += 1
        ctx.count("diff_files_cases")
        try:
            one_files_case(ctx, spec_fail, cls, env, d, B, nj, nm, info, orders)
        except RealTimeout as e:
            nonterminating(spec_fail, e, info)
        except _FilesFail:
            fails += 1
    ctx.units["TEST FJSP/JSSP text files through FJSPFileGenerator / JSSPFileGenerator / env.load_data"] = {
        "kind": "differential-test", "cases": n, "failures": fails, "observed_file_orders": orders,
        "compared": "instances as multisets up to padding (os.listdir order is unspecified and is NOT the write order in general); "
                    "then, on matched pairs, action_mask at every step of a random admitted sequence and the final reward. "
                    "start/end_op_per_job come back as float32 instead of int64 (recorded, harmless for masks and rewards)"}
    if any(o["position_of_written_row_in_read_batch"] != sorted(o["position_of_written_row_in_read_batch"]) for o in orders):
        ctx.notes.append("TESTING: FJSPFileGenerator/JSSPFileGenerator return the instances in os.listdir order, which differed from "
                         "the order they were written in on this run (instances compared as multisets)")


class _FilesFail(Exception):
    pass


def one_files_case(ctx, spec_fail, cls, env, d, B, nj, nm, info, orders):
    torch = _torch()
    from rl4co.envs import FJSPEnv
    from rl4co.envs.scheduling.fjsp.parser import write
    from vt.props.c19 import g_of_td_row, jssp_words, render, MAX_NUMEL
    fails = 0
    if True:
        td = real("%s generator" % env.name, env.generator, [B])
        try:
            if cls is FJSPEnv:
                real("fjsp.parser.write", write, str(d), real("env.reset", env.reset, td.clone()))
            else:
                for b in range(B):
                    with open(os.path.join(str(d), "%04d_%dj_%dm.txt" % (b + 1, nj, nm)), "w") as fh:
                        fh.write(render(jssp_words(g_of_td_row(td, b))))
            env2 = real(cls.__name__ + "(file_path)", lambda: cls(generator_params={"file_path": str(d)}))
            back = env2.generator.td
            loaded = real("env.load_data", env2.load_data, str(d), batch_size=[B])
        except Exception as e:  # noqa: BLE001
            spec_fail.append(("files: write -> file generator raises", dict(info, error="%s: %s" % (type(e).__name__, str(e)[:200]))))
            raise _FilesFail()
        if back["proc_times"].numel() > MAX_NUMEL or loaded["proc_times"].numel() > MAX_NUMEL or \
                tuple(back["proc_times"].shape[:2]) != (B, nm):
            spec_fail.append(("files: instances read by the file generator are not the instances written (as multisets, up to padding)",
                              dict(info, read_proc_times_shape=list(back["proc_times"].shape), expected_leading_shape=[B, nm])))
            raise _FilesFail()
        a, b_ = canon_rows(td), canon_rows(back)
        if sorted(a) != sorted(b_) or sorted(canon_rows(loaded)) != sorted(a):
            spec_fail.append(("files: instances read by the file generator are not the instances written (as multisets, up to padding)",
                              dict(info, written=[list(map(list, r[:2])) for r in a], read=[list(map(list, r[:2])) for r in b_])))
            raise _FilesFail()
        perm = [b_.index(r) for r in a]
        orders.append({"env": env.name, "files": sorted(os.listdir(d)), "listdir_order": os.listdir(d), "position_of_written_row_in_read_batch": perm})
        # matched pairs compute the same thing: masks along random admitted sequences, final reward
        idx = torch.tensor(perm)
        s0, s1 = real("env.reset", env.reset, td.clone()), real("env.reset", env2.reset, back[idx].clone())
        ok, steps, acts = True, 0, []
        while not bool(s0["done"].all()) and steps < 300:
            if not torch.equal(s0["action_mask"], s1["action_mask"]):
                ok = False
                break
            aa = random_actions(ctx.rng, s0["action_mask"])
            acts.append(aa)
            s0.set("action", torch.tensor(aa))
            s1.set("action", torch.tensor(aa))
            s0, s1 = real("env.step", env.step, s0)["next"], real("env.step", env2.step, s1)["next"]
            steps += 1
        if ok and bool(s0["done"].all()):
            ok = torch.equal(s0["reward"], s1["reward"]) and torch.equal(s0["done"], s1["done"])
        if not ok:
            spec_fail.append(("files: an instance read back from its text file behaves differently (mask / reward)",
                              dict(info, actions=acts, step=steps)))
            raise _FilesFail()


def run_all(ctx, spec_fail, work):
    _torch().set_num_threads(2)
    ctx.notes.append("TESTING (not proof): npz bytes, deepcopy/pickle of environments, Lightning checkpoints and the file generators "
                     "are exercised differentially on the real code; see coverage.units entries with kind = differential-test")
    for fn in (diff_npz, diff_copy, diff_files, diff_checkpoint):
        try:
            fn(ctx, spec_fail, work)
        except Exception as e:  # noqa: BLE001 -- a crash of a test is reported, it does not hide the others
            import traceback
            ctx.broken.append("differential test %s crashed: %s" % (fn.__name__, traceback.format_exc()[-900:]))


# ------------------------------------------------------------------------------------------------ replay
def replay(obj):
    import json
    torch = _torch()
    unit = obj.get("unit", "")
    work = __import__("vt.common", fromlist=["BUILD"]).BUILD / "c19" / "replay"
    work.mkdir(parents=True, exist_ok=True)
    if unit == "save_tensordict_to_npz -> CVRPEnv.load_data":
        from tensordict import TensorDict
        from rl4co.data.utils import save_tensordict_to_npz
        from rl4co.envs import CVRPEnv
        dem = torch.tensor(obj["saved"]["demand"]["values"])
        cap = torch.tensor(obj["saved"]["capacity"]["values"])
        B, n = dem.shape
        td = TensorDict({"locs": torch.zeros(B, n, 2), "depot": torch.zeros(B, 2), "demand": dem, "capacity": cap}, batch_size=[B])
        save_tensordict_to_npz(td, str(work / "g.npz"))
        back = CVRPEnv.load_data(str(work / "g.npz"))
        print("saved demand shape   :", list(dem.shape), " capacity shape:", list(cap.shape))
        print("loaded demand shape  :", list(back["demand"].shape), " (recorded: %s)" % obj.get("loaded_demand_shape"))
        same = list(back["demand"].shape) == list(dem.shape) and torch.allclose(back["demand"], dem)
        print("property on the current tree:", "HOLDS on this case" if same else "FAILS: the loaded demand is not the saved demand")
        return True
    if unit == "MTVRPEnv.load_data(scale=True)":
        from tensordict import TensorDict
        from rl4co.data.utils import save_tensordict_to_npz
        from rl4co.envs import MTVRPEnv
        import math
        st, ld = obj["stored"], obj["loaded"]
        print("stored  demand_linehaul:", st["demand_linehaul"], " vehicle_capacity:", st["vehicle_capacity"])
        print("recorded loaded demand_linehaul:", ld["demand_linehaul"], " vehicle_capacity:", ld["vehicle_capacity"])
        print("recorded masks after actions %s: stored instance %s, loaded instance %s" % (obj["actions_so_far"], obj["mask_stored_instance"], obj["mask_loaded_instance"]))
        if "stored_row" in obj:
            def fix(v):
                return [fix(u) for u in v] if isinstance(v, list) else (math.inf if v == "inf" else v)
            td = TensorDict({k: torch.tensor(fix(v["values"]), dtype=getattr(torch, v["dtype"])) for k, v in obj["stored_row"].items()}, batch_size=[1])
            env = MTVRPEnv(**obj["env_kwargs"])
            save_tensordict_to_npz(td, str(work / "mt.npz"))
            tl = env.load_data(str(work / "mt.npz"), scale=True)
            s0, s1 = env.reset(td.clone()), env.reset(tl.clone())
            for a in obj["actions_so_far"]:
                s0.set("action", torch.tensor([a]))
                s1.set("action", torch.tensor([a]))
                s0, s1 = env.step(s0)["next"], env.step(s1)["next"]
            print("now: loaded demand_linehaul", tl["demand_linehaul"][0].tolist(), " vehicle_capacity", tl["vehicle_capacity"][0].tolist())
            print("now: mask of the stored instance", s0["action_mask"][0].tolist(), " mask of the loaded instance", s1["action_mask"][0].tolist())
            print("property on the current tree:", "HOLDS on this case" if torch.equal(s0["action_mask"], s1["action_mask"]) else
                  "FAILS: the instance loaded with scale=True admits other actions than the stored one")
        return True
    if unit == "checkpoint" and "baseline" in obj and "seed" in obj:
        out = checkpoint_case(obj["env"], obj["baseline"], obj["seed"], work)
        print(json.dumps({k: out.get(k) for k in ("plain_load_error", "policy_same", "state_dict_same", "baseline_same",
                                                  "baseline_values", "baseline_plain_state", "inner_rollout_policy_same")}, indent=1))
        return True
    return False
