"""Helpers shared by the C18 units (generators): exact numbers, Coq literals, fixed/recording samplers, torch RNG
patching, evaluation of case lists in Coq with bookkeeping."""
import contextlib
import os
from fractions import Fraction

from vt.common import SCALE_BITS, coq_eval_shards, cz, clist, cq

SB = SCALE_BITS          # 2^40 grid for scaled integers
S = 1 << SB


def fr(x):
    return Fraction(float(x))


def zs(x, bits=SB):
    """exact scaled integer x * 2^bits (raises when x is not on the grid)"""
    f = Fraction(float(x)) * (1 << bits)
    if f.denominator != 1:
        raise ValueError("value %r is not on the 2^-%d grid" % (x, bits))
    return int(f)


def zs_floor(x, bits=SB):
    f = Fraction(float(x)) * (1 << bits)
    return f.numerator // f.denominator


def zrow(xs, exact=True, bits=SB):
    f = zs if exact else zs_floor
    return "[" + "; ".join(cz(f(x, bits)) for x in xs) + "]"


def zmat(rows, exact=True, bits=SB):
    return "[" + "; ".join(zrow(r, exact, bits) for r in rows) + "]"


def interleave(cases, metas, k=4):
    """reorder (cases, metas) so that consecutive shards get a similar mix of sizes"""
    idx = sorted(range(len(cases)), key=lambda i: (i % k, i))
    return [cases[i] for i in idx], [metas[i] for i in idx]


def zlist(xs):
    return "[" + "; ".join(cz(int(x)) for x in xs) + "]"


def zzmat(rows):
    return "[" + "; ".join(zlist(r) for r in rows) + "]"


def qlist(xs):
    return "[" + "; ".join(cq(fr(x)) for x in xs) + "]"


def natlist(xs):
    return "[" + "; ".join("%d%%nat" % int(x) for x in xs) + "]"


def natmat(rows):
    return "[" + "; ".join(natlist(r) for r in rows) + "]"


def cbool(b):
    return "true" if bool(b) else "false"


def boollist(xs):
    return "[" + "; ".join(cbool(x) for x in xs) + "]"


class FixedSampler:
    """Stands in for a torch.distributions sampler (`loc_sampler=`, `demand_sampler=`, `dist_sampler=` kwargs of the
    generators): returns the queued tensors in order, checks the requested shape."""

    def __init__(self, *tensors):
        self.q = list(tensors)
        self.calls = []

    def sample(self, shape):
        t = self.q.pop(0)
        self.calls.append(tuple(shape))
        assert tuple(t.shape) == tuple(shape), "sampler asked for %s, have %s" % (tuple(shape), tuple(t.shape))
        return t.clone()


@contextlib.contextmanager
def patched(obj, name, fn):
    old = getattr(obj, name)
    setattr(obj, name, fn)
    try:
        yield
    finally:
        setattr(obj, name, old)


def queue_fn(values, log=None):
    """a replacement for torch.rand / torch.randint ...: returns the queued tensors in order"""
    q = list(values)

    def f(*a, **k):
        t = q.pop(0)
        if log is not None:
            log.append((a, k))
        return t.clone()
    return f


def nshard(n, want=4):
    """shard size so that at most `want` coqc processes run for n cases"""
    return max(1, -(-n // want))


def coq_cases(ctx, label, header, case_type, check_fn, cases, metas, shard=None, timeout=900):
    """Evaluate `map check_fn cases` in Coq.  Returns the list of codes or None (evaluation failure is recorded as a
    broken correspondence)."""
    if not cases:
        return []
    try:
        return coq_eval_shards("c18/cases_C18_%s" % label, header, case_type, check_fn, cases,
                               shard=shard or nshard(len(cases)), timeout=timeout)
    except RuntimeError as e:
        ctx.broken.append("correspondence C18/%s could not be evaluated in Coq: %s" % (label, str(e)[-700:]))
        return None


def ensure_dirs(prefix=None):
    """build/c18/ is this property's own scratch directory; stale case files of the unit are removed"""
    from vt.common import BUILD
    d = BUILD / "c18"
    d.mkdir(parents=True, exist_ok=True)
    if prefix:
        for f in d.glob("cases_C18_%s*" % prefix):
            try:
                f.unlink()
            except OSError:
                pass


def quiet_logs():
    import logging
    logging.getLogger("rl4co").setLevel(logging.ERROR)
    for name in list(logging.root.manager.loggerDict):
        if name.startswith("rl4co"):
            logging.getLogger(name).setLevel(logging.ERROR)


def tolist(t):
    return t.detach().cpu().tolist()


def run_jobs(ctx, unit, header, jobs, workers=4, cap=400):
    """jobs: list of (label, case_type, check_fn, cases, metas).  All jobs are cut into shards of at most `cap` cases
    (case i of a job goes to shard i mod k, so sizes mix) and ALL shards share one pool of `workers` coqc processes.
    Returns {label: codes or None}, codes aligned with the job's cases; an evaluation failure is recorded in ctx.broken."""
    from concurrent.futures import ThreadPoolExecutor
    tasks = []
    for ji, (label, ctype, fn, cases, metas) in enumerate(jobs):
        n = len(cases)
        if n == 0:
            continue
        k = max(1, -(-n // cap))
        for s in range(k):
            idx = list(range(s, n, k))
            tasks.append((sum(len(cases[i]) for i in idx), ji, s, idx))
    tasks.sort(key=lambda t: -t[0])

    def one(t):
        _, ji, s, idx = t
        label, ctype, fn, cases, metas = jobs[ji]
        try:
            codes = coq_eval_shards("c18/cases_C18_%s_%s_s%02d" % (unit, label, s), header, ctype, fn, [cases[i] for i in idx],
                                    shard=len(idx), timeout=1500)
            return ji, idx, codes, None
        except RuntimeError as e:
            return ji, idx, None, str(e)[-700:]
    with ThreadPoolExecutor(max_workers=workers) as ex:
        results = list(ex.map(one, tasks))
    out = {}
    for ji, (label, ctype, fn, cases, metas) in enumerate(jobs):
        out[label] = [0] * len(cases) if cases else []
    failed = set()
    for ji, idx, codes, err in results:
        label = jobs[ji][0]
        if codes is None:
            if label not in failed:
                failed.add(label)
                ctx.broken.append("correspondence C18/%s/%s could not be evaluated in Coq: %s" % (unit, label, err))
            out[label] = None
            continue
        if out[label] is None:
            continue
        for i, c in zip(idx, codes):
            out[label][i] = c
    return out


def bulk(k):
    """number of 1000-row batches of a thorough-tier bulk plan entry written for 10 batches per generator family.
    Default 6 per family (about 6000 rows; thorough stays below 15 min on a heavily loaded machine); VERIF_C18_BULK=10 gives the full 10^4 rows."""
    b = int(os.environ.get("VERIF_C18_BULK", "6"))
    return max(1, (k * b + 5) // 10)
