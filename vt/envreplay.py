"""./check --replay for records written by the routing adapters (vt/envprops.Item.replay): rebuilds the instance
bit-exactly from its hex floats, drives the real env of the current tree through the recorded actions and prints what
it shows now next to what was recorded."""
import json

import torch


def _dispatch_unit(pid, obj):
    import importlib
    unit = obj.get("unit")
    if unit:
        try:
            mod = importlib.import_module("vt.props.%s_%s" % (pid.lower(), unit))
            if hasattr(mod, "replay"):
                return mod.replay(obj)
        except ModuleNotFoundError:
            pass
    return None


def replay(obj, pid=None):
    pid = pid or obj.get("property", "?")
    if obj.get("unit") and "instance" not in obj:
        r = _dispatch_unit(pid, obj)
        if r is not None:
            return r
    from vt import envprops, envh
    name = obj.get("env")
    adapters = {a.name: a for a in envprops.adapters()}
    if name not in adapters or "instance" not in obj or "actions" not in obj:
        r = _dispatch_unit(pid, obj)
        if r is not None:
            return r
        print(json.dumps(obj, indent=1)[:4000])
        print("(no executable replay for this record)")
        return 0
    if obj.get("batch_instances") and obj.get("batch_actions") and "actions" not in obj:
        print("signature:", obj.get("signature")); print("what     :", obj.get("what"))
        print("(batched checker / batched get_reward record: rows and actions are in the file; re-run `./check %s` to re-judge it)" % pid)
        return 0
    a = adapters[name]
    variant = obj.get("variant") or {}
    env = a.make_env(variant)
    td_in = envprops.td_from_hex(obj["instance"])
    print("signature:", obj.get("signature"))
    print("what     :", obj.get("what"))
    print("env      : %s  variant: %s" % (name, variant))
    acts = [int(x) for x in obj["actions"]]
    td = env.reset(td_in.clone())
    rec_done = obj.get("done_flags") or []
    status = "recorded actions replayed"
    for k, act in enumerate(acts):
        mask = [bool(b) for b in td["action_mask"][0].reshape(-1).tolist()]
        offered = act < len(mask) and mask[act]
        print("step %2d  mask=%s  action=%d%s" % (k + 1, "".join("1" if b else "0" for b in mask), act,
                                                 "" if offered else "   <-- NOT offered by the mask now"))
        if not offered:
            status = "action %d of step %d is not offered on the current tree" % (act, k + 1)
            break
        td.set("action", torch.tensor([act], dtype=torch.int64))
        try:
            td = env.step(td)["next"]
        except Exception as e:  # noqa: BLE001
            status = "env.step raised at step %d: %r" % (k + 1, e)
            print(status)
            break
        d = bool(td["done"].reshape(-1)[0])
        if k < len(rec_done) and bool(rec_done[k]) != d:
            print("         done=%s (recorded %s)" % (d, rec_done[k]))
    else:
        try:
            tdr = env.reset(td_in.clone()) if getattr(a, "reward_td", "reset") == "reset" else td
            rew = env.get_reward(tdr if getattr(a, "reward_td", "reset") == "reset" else td, torch.tensor([acts], dtype=torch.int64))
            print("reward now: %r   recorded: %r" % (float(rew.reshape(-1)[0]), obj.get("impl_reward")))
        except Exception as e:  # noqa: BLE001
            print("get_reward raised: %r   recorded reward: %r" % (e, obj.get("impl_reward")))
        try:
            v = envh.verdict(env, env.reset(td_in.clone()), torch.tensor([acts], dtype=torch.int64))
            print("checker verdict now: %r   recorded: %r" % (v, obj.get("impl_checker")))
        except Exception as e:  # noqa: BLE001
            print("checker could not be run: %r" % (e,))
    print("status   :", status)
    print("(the verdict of the property on this input is decided by `./check %s`, which evaluates the Coq specification on it)" % pid)
    return 0
