"""Entry point: ./check Cxx --tier quick|thorough ; ./check --replay file ; ./check setup"""
import argparse
import importlib
import json
import os
import sys
import time
import traceback

from vt import common


def run_one(pid, tier, seed):
    ctx = common.Ctx(pid, tier, seed)
    try:
        mod = importlib.import_module("vt.props.%s" % pid.lower())
    except ModuleNotFoundError:
        print("no check for %s" % pid)
        return 2
    try:
        proofs_ok = common.proof_stage(ctx)
        mod.run(ctx, proofs_ok)
        if ctx.broken and not ctx.violations:
            # a proof obligation or the correspondence no longer checks and the search found no input
            ctx.violation({"broken": ctx.broken, "note": "no concrete failing input found by the search"},
                          tag="broken", no_input=True)
    except Exception:  # the check itself failed: fail closed, but say so
        tb = traceback.format_exc()
        ctx.broken.append("check crashed: " + tb[-1500:])
        sys.stderr.write(tb)
        ctx.violation({"broken": ctx.broken}, tag="crash", no_input=True)
    rc = ctx.finish()
    print("[%s] tier=%s seed=%d evaluations=%d distinct=%d violations=%d known=%d wall=%.1fs" % (
        pid, tier, seed, ctx.evaluations, len(ctx.nontrivial), len(ctx.violations), len(ctx.known),
        time.time() - ctx.t0), flush=True)
    return rc


def main():
    ap = argparse.ArgumentParser()
    ap.add_argument("pid", nargs="?")
    ap.add_argument("--tier", default=os.environ.get("VERIF_TIER", "quick"))
    ap.add_argument("--replay")
    a = ap.parse_args()
    seed = int(os.environ.get("VERIF_SEED", "20260926"))
    tier = a.tier if a.tier in ("quick", "thorough") else "quick"
    if a.replay:
        from vt import replay
        sys.exit(replay.run(a.replay))
    if a.pid == "setup":
        bad = common.gate_scan()
        ok, out, msgs = common.coq_build()
        print(out[-3000:])
        for m in msgs:
            print(m)
        if bad:
            print("GATE:", bad)
        # setup succeeds when every property file of every REGISTERED check is built from current sources; files of
        # units still under construction (vt/units_disabled.txt) may fail to compile without failing the setup
        man = json.load(open(common.VERIF / "MANIFEST.json"))
        missing = []
        for c in man["checks"]:
            for src in common.property_files(c["property_id"]):
                if not (ok or common.target_uptodate(src)):
                    missing.append(src.name)
        if missing:
            print("NOT BUILT:", missing)
        if not ok:
            print("note: make reported errors (see above); registered property files built: %s" % (not missing))
        sys.exit(0 if not missing and not bad else 1)
    if a.pid == "coqchk":
        # independent re-check of every compiled property file (and everything it depends on) + axiom summary
        import re
        from concurrent.futures import ThreadPoolExecutor
        mods = ["RL4CO.Properties." + p.stem for p in sorted((common.THEORIES / "Properties").glob("C*.v"))]

        def one(m):
            rc, out = common.sh("coqchk -silent -o -Q theories RL4CO %s" % m, cwd=common.COQ, timeout=3600)
            ax = re.search(r"\* Axioms:(.*?)\n\s*\n\* Constants", out, re.S)
            return m, rc, re.sub(r"\s+", " ", ax.group(1)).strip() if ax else out[-400:]
        with ThreadPoolExecutor(max_workers=6) as ex:
            res = list(ex.map(one, mods))
        (common.VERIF / "audit").mkdir(exist_ok=True)
        (common.VERIF / "audit" / "coqchk.json").write_text(json.dumps(
            [{"module": m, "rc": rc, "axioms": ax} for m, rc, ax in res], indent=1))
        for m, rc, ax in res:
            print(m, "rc=%d" % rc, ax[:300])
        sys.exit(1 if any(rc for _, rc, _ in res) else 0)
    if a.pid == "all":
        rcs = {}
        man = json.load(open(common.VERIF / "MANIFEST.json"))
        for c in man["checks"]:
            rcs[c["property_id"]] = run_one(c["property_id"], tier, seed)
        print(rcs)
        sys.exit(1 if any(rcs.values()) else 0)
    sys.exit(run_one(a.pid.upper(), tier, seed))


if __name__ == "__main__":
    main()
