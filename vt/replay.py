"""./check --replay <file>: re-run a recorded case on the current /repo tree and print observed vs expected."""
import importlib
import json


def run(path):
    obj = json.load(open(path))
    pid = obj.get("property", "?")
    print("replay of %s for property %s" % (path, pid))
    try:
        mod = importlib.import_module("vt.props.%s" % pid.lower())
    except ModuleNotFoundError:
        mod = None
    if mod is not None and hasattr(mod, "replay"):
        return mod.replay(obj)
    print(json.dumps(obj, indent=1)[:4000])
    print("(no executable replay for this record: it names the obligation that no longer checks)")
    return 0
