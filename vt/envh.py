"""Generic harness for constructive environments (C01-C06): drives the real rl4co env through
mask-confined episodes, records API-level observables per batch row, and turns them into Coq cases.

An environment is plugged in through an `Adapter` (vt/envs/<env>.py):
    name            short name, e.g. "cvrp"
    header          Coq header of the generated case files (Require Import of the env's harness)
    case_type       Coq type of one case
    variants(tier)  list of dicts of constructor kwargs / modes
    make_env(variant)
    instances(env, variant, rng, tier) -> list of (TensorDict with batch_size [1], meta dict)
    coq_instance(env, td_reset_row) -> Coq term of the model instance
    reward_tol(env, td_reset_row, n_steps) -> Fraction (absolute tolerance for the float32 reward sum)
All randomness comes from the `random.Random` passed in.
"""
from __future__ import annotations

import random
from fractions import Fraction

import torch
from tensordict import TensorDict

from vt.common import cbool, cboollist, clist, cnat, cz, SCALE_BITS

S64 = 64          # every float32 datum is scaled exactly by 2^64


def zs(x) -> int:
    """exact integer x * 2^64 of a float (float32 values >= 2^-41 in magnitude are exact)"""
    f = Fraction(float(x)) * (1 << S64)
    if f.denominator != 1:
        raise ValueError("value %r not representable on the 2^-64 grid" % (x,))
    return int(f)


def zs_list(t) -> list:
    return [zs(v) for v in t.reshape(-1).tolist()]


def zmatrix(t) -> str:
    """Coq list (list Z) of a 2-D tensor"""
    return clist(clist(cz(zs(v)) for v in row) for row in t.tolist())


def tstep(mask_row, action, done) -> str:
    return "(%s, %s, %s)" % (cboollist(mask_row), cnat(action), cbool(done))


class Episode:
    """what one batch row showed: per step (mask before, action, done after), final mask, reward, verdict"""
    __slots__ = ("steps", "final_mask", "reward", "complete", "checker", "checker_msg", "dead_end", "crash", "book0", "book")

    def __init__(self):
        self.book0 = None          # bookkeeping entries after reset (only when envh.BOOK is set: C02 / C04)
        self.book = []             # bookkeeping entries after every step env.step returned from
        self.steps = []
        self.final_mask = None
        self.reward = None
        self.complete = False
        self.checker = None
        self.checker_msg = ""
        self.dead_end = None
        self.crash = None

    @property
    def actions(self):
        return [a for _, a, _ in self.steps]

    def key(self):
        return (tuple(self.actions), tuple(tuple(m) for m, _, _ in self.steps), tuple(d for _, _, d in self.steps))


# ------------------------------------------------------------------------------------------ choosers

def choose_uniform(rng, mask_row, row_state):
    idx = [j for j, b in enumerate(mask_row) if b]
    return rng.choice(idx)


def choose_depot_first(rng, mask_row, row_state):
    if mask_row[0]:
        return 0
    return choose_uniform(rng, mask_row, row_state)


def choose_depot_last(rng, mask_row, row_state):
    idx = [j for j, b in enumerate(mask_row) if b and j != 0]
    return rng.choice(idx) if idx else 0


def choose_low(rng, mask_row, row_state):
    return min(j for j, b in enumerate(mask_row) if b)


def choose_high(rng, mask_row, row_state):
    return max(j for j, b in enumerate(mask_row) if b)


CHOOSERS = {"uniform": choose_uniform, "depot_first": choose_depot_first, "depot_last": choose_depot_last,
            "low": choose_low, "high": choose_high}


# ------------------------------------------------------------------------------------------ rollouts

# Bookkeeping recorder: None, or a callable td -> list (one per batch row) of lists of raw values (ints / floats): the
# bookkeeping keys of the env's step output that the adapter's row model has a counterpart for (adapter.book_values).
# Set by vt/envprops.run_env_property around the collection of C02 / C04; every rollout then records the entries after
# reset and after every step (Episode.book0 / Episode.book).
BOOK = None


def _book(td):
    if BOOK is None:
        return None
    try:
        return BOOK(td)
    except (ValueError, KeyError):      # a key is missing / has an unexpected form: this rollout is not compared
        return None


def cat_tds(tds):
    return torch.cat(tds, 0)


def rollout(env, td_in, rng, choosers=None, forced=None, pad_steps=0, max_steps=None):
    """Runs one batched mask-confined rollout on the REAL env.

    td_in: instance TensorDict with batch size [B].  choosers: list of B chooser names.
    forced: optional list of B action lists to replay (when exhausted, or when the row is finished,
    actions come from the chooser, i.e. padding drawn from the mask).
    pad_steps: extra steps after every row is done (all rows get padding actions from their mask).
    Returns (list of Episode, td_reset, td_final, actions tensor)."""
    B = td_in.batch_size[0]
    choosers = choosers or ["uniform"] * B
    td = env.reset(td_in.clone())
    td_reset = td.clone()
    eps = [Episode() for _ in range(B)]
    b0 = _book(td)
    book_on = b0 is not None
    if book_on:
        for r in range(B):
            eps[r].book0 = b0[r]
    acts = []
    t = 0
    extra = pad_steps
    max_steps = max_steps or 10000
    while t < max_steps:
        all_done = bool(td["done"].all())
        if all_done:
            if extra <= 0:
                break
            extra -= 1
        mask = td["action_mask"].bool()
        a_t = []
        mrows = mask.tolist()
        for r in range(B):
            mrow = mrows[r]
            if not any(mrow):
                if eps[r].dead_end is None:
                    eps[r].dead_end = t
                a = 0
            elif forced is not None and t < len(forced[r]) and not bool(td["done"][r].any()):
                a = forced[r][t]
            elif forced is not None and t < len(forced[r]):
                a = forced[r][t] if mrow[forced[r][t]] else CHOOSERS[choosers[r]](rng, mrow, None)
            else:
                a = CHOOSERS[choosers[r]](rng, mrow, None)
            a_t.append(a)
        td.set("action", torch.tensor(a_t, dtype=torch.int64))
        try:
            td = env.step(td)["next"]
        except Exception as e:  # a crash on offered actions is a C02 violation; recorded, episode ends
            for r in range(B):
                eps[r].crash = "%s: %s" % (type(e).__name__, str(e)[:300])
                eps[r].steps.append((mrows[r], a_t[r], False))
            acts.append(a_t)
            break
        dn = td["done"].reshape(B, -1).any(-1).tolist()
        for r in range(B):
            eps[r].steps.append((mrows[r], a_t[r], bool(dn[r])))
        if book_on:
            bk = _book(td)
            if bk is None:
                book_on = False
                for r in range(B):
                    eps[r].book0 = None
            else:
                for r in range(B):
                    eps[r].book.append(bk[r])
        acts.append(a_t)
        t += 1
    fm = td["action_mask"].bool().tolist()
    dn = td["done"].reshape(B, -1).any(-1).tolist()
    for r in range(B):
        eps[r].final_mask = fm[r]
        eps[r].complete = bool(dn[r]) and eps[r].crash is None
    actions = torch.tensor(acts, dtype=torch.int64).T.contiguous() if acts else torch.zeros(B, 0, dtype=torch.int64)
    return eps, td_reset, td, actions


def rewards_and_verdicts(env, td_final, td_reset, actions, eps, reward_td="final"):
    """reward via the unchecked _get_reward on the whole batch (what a policy gets), verdict of
    check_solution_validity per row (it asserts on the whole batch otherwise)"""
    B = actions.shape[0]
    td_r = td_final if reward_td == "final" else td_reset
    try:
        rew = env._get_reward(td_r, actions)
        for r in range(B):
            eps[r].reward = float(rew[r])
    except Exception as e:
        for r in range(B):
            eps[r].reward = None
            eps[r].crash = eps[r].crash or ("reward: %s: %s" % (type(e).__name__, str(e)[:200]))
    for r in range(B):
        try:
            env.check_solution_validity(td_r[r:r + 1], actions[r:r + 1])
            eps[r].checker = True
        except NotImplementedError:
            eps[r].checker = None
        except Exception as e:
            eps[r].checker = False
            eps[r].checker_msg = "%s: %s" % (type(e).__name__, str(e)[:120])


def verdict(env, td_row, actions_row):
    try:
        env.check_solution_validity(td_row, actions_row)
        return True
    except NotImplementedError:
        return None
    except Exception:
        return False


# ------------------------------------------------------------------------------------------ exhaustive expansion

def expand_all(env, td_in_row, cap=20000, max_depth=64):
    """All complete mask-admitted action sequences of one instance (batch size [1] input), by breadth-first
    expansion of the REAL env with the frontier as a batch. Returns (list of action tuples, truncated?).
    A sequence ends at the first step after which the row is done."""
    td0 = env.reset(td_in_row.clone())
    frontier = td0
    seqs = [()]
    complete = []
    truncated = False
    depth = 0
    while len(seqs) > 0 and depth < max_depth:
        mask = frontier["action_mask"].bool().tolist()
        idx, acts, nseq = [], [], []
        for r, mrow in enumerate(mask):
            for a, b in enumerate(mrow):
                if b:
                    idx.append(r)
                    acts.append(a)
                    nseq.append(seqs[r] + (a,))
        if not idx:
            break
        if len(idx) + len(complete) > cap:
            truncated = True
            idx, acts, nseq = idx[:cap], acts[:cap], nseq[:cap]
        nxt = frontier[torch.tensor(idx)].clone()
        nxt.set("action", torch.tensor(acts, dtype=torch.int64))
        nxt = env.step(nxt)["next"]
        dn = nxt["done"].reshape(len(idx), -1).any(-1).tolist()
        keep = [k for k, d in enumerate(dn) if not d]
        for k, d in enumerate(dn):
            if d:
                complete.append(nseq[k])
        if truncated or not keep:
            seqs = []
            break
        frontier = nxt[torch.tensor(keep)].clone()
        seqs = [nseq[k] for k in keep]
        depth += 1
    if seqs and depth >= max_depth:
        truncated = True      # some admitted sequence does not finish within max_depth steps
    return complete, truncated


# ------------------------------------------------------------------------------------------ integral point sets

# points with integer pairwise distances (5-12-13, 9-12-15, 16-12-20, 35-12-37 triangles on a common leg)
INTEGRAL_POINTS = [(0, 12), (5, 0), (-5, 0), (9, 0), (-9, 0), (16, 0), (-16, 0), (35, 0), (-35, 0), (0, 0)]


def integral_coords(rng, n, scale=128.0, offset=(0.5, 0.25)):
    """n points whose pairwise Euclidean distances are exact in float32 (integers / scale). Duplicates allowed
    when n exceeds the set."""
    pts = [rng.choice(INTEGRAL_POINTS) for _ in range(n)] if n > len(INTEGRAL_POINTS) else rng.sample(INTEGRAL_POINTS, n)
    # (0,12) and (0,0) are 12 apart; (0,0)-(x,0) integer; (0,12)-(x,0) integer by construction
    return [[offset[0] + x / scale, offset[1] + y / scale] for x, y in pts]
