"""Adapter for SPCTSPEnv (properties C01-C06): PCTSPEnv with `_stochastic = True`, same Coq model with `stoch := true`.
By the problem definition the constraint is on the prize REVEALED at the visit (td["stochastic_prize"]); the exact
instances carry the boundary structure in that vector and a clearly different deterministic (expected) vector."""
from vt.envs.pctsp import PCTSPAdapter


class SPCTSPAdapter(PCTSPAdapter):
    name = "spctsp"
    stochastic = True

    def make_env(self, variant):
        from rl4co.envs import SPCTSPEnv
        return SPCTSPEnv(generator_params={"num_loc": variant["num_loc"]}, check_solution=False)


ADAPTER = SPCTSPAdapter()
