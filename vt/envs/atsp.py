"""Adapter for ATSPEnv (properties C01-C06). Same automaton as TSP; the instance is an asymmetric cost matrix."""
from __future__ import annotations

import itertools
from fractions import Fraction

import torch
from tensordict import TensorDict

from vt import envh
from vt.common import cnat
from vt.envs.tsp import TSPAdapter


class ATSPAdapter(TSPAdapter):
    name = "atsp"
    header = ("From Coq Require Import List ZArith Bool.\nFrom RL4CO Require Import Base.Num Base.EnvSig Env.ATSP Harness.HATSP.\n"
              "Import ListNotations.\nOpen Scope Z_scope.\n")
    case_type = "atsp_case"
    sol_type = "(atsp_inst * atsp_obs) * list nat * bool"
    book_type = "atsp_book"      # keys and function inherited from the TSP adapter (Harness/HATSP.v book_obs)

    def variants(self, tier):
        return [{"num_loc": n} for n in ([1, 2, 3, 5, 8] if tier == "quick" else [1, 2, 3, 4, 6, 10, 20])]

    def make_env(self, variant):
        from rl4co.envs import ATSPEnv
        return ATSPEnv(generator_params={"num_loc": variant["num_loc"]}, check_solution=False)

    # ---------------------------------------------------------------- instances
    def instances(self, env, variant, rng, tier):
        n = variant["num_loc"]
        out = []
        k = 3 if tier == "quick" else 8
        torch.manual_seed(rng.randrange(1 << 30))
        td = env.generator(batch_size=[k])
        for r in range(k):
            out.append((td[r:r + 1].clone(), {"kind": "generator"}))
        # exact stream: ASYMMETRIC integer matrices / 64 (every partial sum exact in float32), so that a transposed
        # gather or a reversed roll changes the reward by whole grid units
        for rep in range(k):
            kind = rng.choice(["exact/asym", "exact/asym", "exact/triangular", "exact/diag"])
            if kind == "exact/triangular":
                m = [[(rng.randint(1, 64) if a < b else 0) for b in range(n)] for a in range(n)]
            else:
                m = [[rng.randint(0, 64) for b in range(n)] for a in range(n)]
                if kind == "exact/asym":
                    for a in range(n):
                        m[a][a] = 0
            out.append((TensorDict({"cost_matrix": torch.tensor([m], dtype=torch.float32) / 64.0}, batch_size=[1]), {"kind": kind}))
        return out

    # ---------------------------------------------------------------- Coq encoding
    def coq_instance(self, env, td_reset, variant):
        return "(mk_atsp %s %s %s)" % (cnat(env.generator.num_loc), self.matrix_term(td_reset["cost_matrix"][0]), self.obs_term(td_reset))

    def feasible_solutions(self, env, td_reset, variant):
        n = td_reset["cost_matrix"].shape[-1]
        return [tuple(p) for p in itertools.permutations(range(n))]


ADAPTER = ATSPAdapter()
