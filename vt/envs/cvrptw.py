"""Adapter for CVRPTWEnv (properties C01-C06).  CVRPTW = CVRP + clock; model Env/CVRPTW.v, harness Harness/HCVRPTW.v.

Instance streams
  * generator (unscaled: int32 windows on a [0,480] horizon, coordinates in [0,150]; and scale=True: everything / 480),
  * exact planted stream: integral point sets on a 1/s grid (s = 128: unit-square like, all times < 1 time unit;
    s = 4: quarter time units, so the checker's .int() truncation matters; s = 1: integral data, truncation is the
    identity).  A feasible solution is planted first (exact integer arithmetic in grid units), then every comparison
    site of the mask / step / checker is made tight: deadline = arrival (=), one grid unit below (the planted order
    becomes infeasible: "late-1") and above; window opening = arrival -1/0/+1 (the max in the step); depot deadline
    = latest possible return (=, +1, -1: vehicle cannot return, outside the documented format); loads as in the CVRP
    adapter (exactly filling the vehicle, +-1/64),
  * degenerate: one customer, duplicate points, zero-length windows, the DESIGN section 8 witness.
The planted solutions are replayed through the real env (forced prefixes) so that the tight states are really visited.
"""
from __future__ import annotations

import itertools
from fractions import Fraction

import torch
from tensordict import TensorDict

from vt import envh
from vt.common import clist, cz, cnatlist, cbool, coq_eval_shards
from vt.envs._base import RoutingAdapter
from vt.envs.cvrp import CVRPAdapter

# Which checker the library ships: False = as found (.int() truncation of arrival times, batch row 0's horizon for every
# row; Harness check_C06 / Properties C06_cvrptw_checker_sound_refuted), True = repaired (check_C06_fixed /
# C06_cvrptw_checker_fixed_sound).  Flip together with the `fix:` commit.  (VERIF_CVRPTW_FIXED=1 overrides, for trying a
# repaired scratch copy.)
import os
CHECKER_FIXED = True   # /repo carries the two CVRPTW checker "fix:" commits (24c691c, d5b9545) since 2026-10-01

MECH = {(15, 1): "checker-accepts-late-service(arrival-time-truncated-to-int)",
        (14, 1): "checker-rejects-feasible-solution(uses-batch-row-0-horizon)"}


def _isqrt_exact(v):
    import math
    r = math.isqrt(v)
    assert r * r == v
    return r


class CVRPTWAdapter(RoutingAdapter):
    name = "cvrptw"
    header = ("From Coq Require Import List ZArith Bool.\nFrom RL4CO Require Import Base.Num Base.EnvSig Env.CVRP Env.CVRPTW "
              "Harness.HCVRP Harness.HCVRPTW.\nImport ListNotations.\nOpen Scope Z_scope.\n")
    case_type = "cvrptw_case"
    props = {"C01": "check_C01", "C02": "check_C02", "C03": "check_C03", "C04": "check_C02", "C05": "check_C05",
             "C06": "check_C06_fixed" if CHECKER_FIXED else "check_C06"}
    sol_type = "cvrptw_inst * list nat * bool"
    sol_fn = "check_C06_sol_fixed" if CHECKER_FIXED else "check_C06_sol"
    reward_td = "reset"
    shard = 60
    # keys of the step output compared with the row model after every step in C02 / C04 (Harness/HCVRPTW.v tw_book_obs)
    book_keys = (("current_node", "int"), ("used_capacity", "f"), ("visited", "bits"), ("current_time", "f"))
    book_fn = "check_book_tw"
    book_type = "cvrptw_book"

    def __init__(self):
        self._envs = {}
        self._gens = {}

    # ---------------------------------------------------------------- envs / variants
    def variants(self, tier):
        # num_loc = 1 and 2: degenerate but legal sizes (the checker starts with CVRPEnv's, which indexes demand columns)
        # (listed last: the C05 enumeration budget goes to the first tiny instances met, which should stay the n = 3 ones)
        return [{"num_loc": n} for n in ([3, 5, 8, 1, 2] if tier == "quick" else [2, 3, 4, 6, 10, 15, 1])]

    def make_env(self, variant):
        n = variant["num_loc"]
        if n not in self._envs:
            from rl4co.envs import CVRPTWEnv
            self._envs[n] = CVRPTWEnv(generator_params={"num_loc": n}, check_solution=False)
        return self._envs[n]

    def scaled_generator(self, n):
        if n not in self._gens:
            from rl4co.envs.routing.cvrptw.generator import CVRPTWGenerator
            self._gens[n] = CVRPTWGenerator(num_loc=n, scale=True)
        return self._gens[n]

    def signature(self, item, tag, step):
        from vt.envprops import CONCRETE
        mech = MECH.get((tag, step)) or CONCRETE.get(tag, "tag%d" % tag)
        return "%s/%s: %s" % (self.name, self.variant_tag(item.variant), mech)

    # ---------------------------------------------------------------- instances
    def instances(self, env, variant, rng, tier):
        n = variant["num_loc"]
        out = []
        k = 3 if tier == "quick" else 5
        # exact planted stream first (the tiny ones are then inside the C05 enumeration budget)
        kinds = ["tight", "tight", "late-1", "tight+1", "wait", "H-1", "H+1", "zero-window", "dup"]
        for rep in range(k + 2):
            s = [4, 128, 4, 1][rep % 4]
            kind = kinds[rep % len(kinds)] if tier == "quick" and rep < 3 else rng.choice(kinds)
            out.append(self.planted_instance(rng, n, s, kind))
        # generator stream, unscaled and scaled
        torch.manual_seed(rng.randrange(1 << 30))
        td = env.generator(batch_size=[k])
        for r in range(k):
            out.append((td[r:r + 1].clone(), {"kind": "generator"}))
        td = self.scaled_generator(n)(batch_size=[max(1, k - 1)])
        for r in range(max(1, k - 1)):
            out.append((td[r:r + 1].clone(), {"kind": "generator/scale=True"}))
        if n == 3:
            out.append(self.design_witness())
        return out

    @staticmethod
    def design_witness():
        """DESIGN section 8: depot (0,0), customer (3,4.5) at distance 5.408.., window [0,5]; two more customers so that
        the instance has the shape of the n=3 variant."""
        td = TensorDict({"depot": torch.tensor([[0.0, 0.0]]), "locs": torch.tensor([[[3.0, 4.5], [1.0, 0.0], [0.0, 2.0]]]),
                         "demand": torch.tensor([[0.25, 0.25, 0.25]]), "durations": torch.zeros(1, 4),
                         "time_windows": torch.tensor([[[0.0, 100.0], [0.0, 5.0], [0.0, 50.0], [0.0, 50.0]]])}, batch_size=[1])
        return td, {"kind": "design-witness"}

    def planted_instance(self, rng, n, s, kind):
        """exact instance on the 1/s grid with a planted feasible solution; all arithmetic below is on integers
        (grid units); 1 time unit = s grid units"""
        P = envh.INTEGRAL_POINTS
        if kind == "dup" or n + 1 > len(P):
            pts = [rng.choice(P) for _ in range(n + 1)]
        else:
            pts = rng.sample(P, n + 1)
        D = [[_isqrt_exact((ax - bx) ** 2 + (ay - by) ** 2) for (bx, by) in pts] for (ax, ay) in pts]
        dem64 = [round(d * 64) for d in CVRPAdapter._demands(rng, n, rng.choice(["tight", "tight+1", "tight-1", "random64"]))]
        # planted routes: a random order cut greedily by capacity and at random
        order = list(range(1, n + 1))
        rng.shuffle(order)
        routes, cur, load = [], [], 0
        for x in order:
            if cur and (load + dem64[x - 1] > 64 or rng.random() < 0.3):
                routes.append(cur)
                cur, load = [], 0
            cur.append(x)
            load += dem64[x - 1]
        routes.append(cur)
        lo = [0] * (n + 1)
        hi = [0] * (n + 1)
        du = [0] * (n + 1)
        start = [0] * (n + 1)
        arrs = [0] * (n + 1)
        for r in routes:
            t, frm = 0, 0
            for x in r:
                arr = t + D[frm][x]
                mode = "wait" if kind == "wait" else rng.choice(["open", "open", "arr-1", "arr", "arr+1", "wait"])
                lo[x] = {"open": 0, "arr-1": arr - 1, "arr": arr, "arr+1": arr + 1, "wait": arr + rng.randint(2, 6)}[mode]
                lo[x] = max(0, lo[x])
                st = max(arr, lo[x])
                du[x] = rng.choice([0, 0, 1, 2, 5])
                slack = 0 if kind in ("tight", "late-1", "H-1", "H+1") and rng.random() < 0.7 else rng.choice([0, 1, 1, rng.randint(2, 12)])
                hi[x] = st + slack
                if kind == "zero-window" and rng.random() < 0.5:
                    lo[x] = hi[x] = st
                start[x], arrs[x] = st, arr
                t, frm = st + du[x], x
        blocked = None
        if kind == "late-1":
            # one customer whose vehicle does not wait gets its deadline one grid unit before the planted arrival
            cands = [x for x in range(1, n + 1) if arrs[x] - 1 >= lo[x]]
            # keep the blocked customer's window of positive length where possible (an empty window puts the instance outside
            # the documented format: the checker then refuses it whatever the solution)
            cands = [x for x in cands if arrs[x] - 1 > lo[x]] or cands
            if cands:
                blocked = rng.choice(cands)
                hi[blocked] = arrs[blocked] - 1
        H = max([hi[x] + du[x] + D[x][0] for x in range(1, n + 1)] + [1])
        H += {"H-1": -1, "H+1": 1}.get(kind, rng.choice([0, 0, 0, 1, 10]))
        lo[0], hi[0], du[0] = 0, H, 0
        # floats (exact): coordinates shifted to be non-negative
        ox, oy = 36, 1
        f = float(s)
        locs = [[(x + ox) / f, (y + oy) / f] for (x, y) in pts]
        td = TensorDict({"locs": torch.tensor([locs[1:]], dtype=torch.float32), "depot": torch.tensor([locs[0]], dtype=torch.float32),
                         "demand": torch.tensor([[d / 64.0 for d in dem64]], dtype=torch.float32),
                         "durations": torch.tensor([[v / f for v in du]], dtype=torch.float32),
                         "time_windows": torch.tensor([[[a / f, b / f] for a, b in zip(lo, hi)]], dtype=torch.float32)}, batch_size=[1])
        plan = []
        for r in routes:
            plan += r + [0]
        # is the planted solution feasible on the final data? (exact integers; no for late-1 and for H-1 when a
        # vehicle of the plan needs the last grid unit)
        plan_ok = True
        for r in routes:
            t, frm = 0, 0
            for x in r:
                st = max(t + D[frm][x], lo[x])
                plan_ok = plan_ok and st <= hi[x]
                t, frm = st + du[x], x
            plan_ok = plan_ok and t + D[frm][0] <= H
        meta = {"kind": "exact/s%d/%s" % (s, kind), "plan": plan, "blocked": blocked, "grid": s, "plan_feasible": plan_ok}
        return td, meta

    # ---------------------------------------------------------------- planted solutions replayed on the real env
    def extra_items(self, ctx, pid, tier):
        from vt.envprops import Item
        rng = ctx.rng
        items = []
        for variant in self.variants(tier):
            n = variant["num_loc"]
            env = self.make_env(variant)
            reps = 6 if tier == "quick" else 10
            for rep in range(reps):
                s = rng.choice([4, 4, 128, 1])
                kind = rng.choice(["tight", "tight", "late-1", "late-1", "tight+1", "wait", "H-1", "H+1"])
                td_in, meta = self.planted_instance(rng, n, s, kind)
                plan = list(meta["plan"])
                if meta["blocked"] is not None:
                    plan = plan[:plan.index(meta["blocked"])]
                eps, td_reset, td_fin, actions = envh.rollout(env, td_in, rng, choosers=[rng.choice(["uniform", "depot_last"])],
                                                              forced=[plan], pad_steps=rng.choice([0, 1, 2]),
                                                              max_steps=self.max_steps(variant))
                ep = eps[0]
                # every forced action must have been offered by the implementation's mask: the planted solution is
                # feasible by construction (exact integers), so a refusal is a hidden feasible solution (C05)
                hidden = None
                for kk, (m, a, d) in enumerate(ep.steps[:len(plan)]):
                    if meta["plan_feasible"] and a == plan[kk] and not m[a]:
                        hidden = kk
                        break
                envh.rewards_and_verdicts(env, td_fin, td_reset, actions, eps, self.reward_td)
                it = Item(self, variant, env, td_in, td_reset, ep, dict(meta, chooser="planted"), "solo")
                ctx.count("%s/planted/%s" % (self.name, meta["kind"]))
                if hidden is not None:
                    if pid == "C05":
                        ctx.failure(self.signature(it, 16, 0),
                                    it.replay({"what": "a planted feasible solution (exact arithmetic) is refused by the mask at step %d" % (hidden + 1),
                                               "planted_solution": meta["plan"], "step": hidden + 1}), tag=self.name)
                    continue
                items.append(it)
        return items

    # ---------------------------------------------------------------- Coq encoding
    def dist_matrix(self, td_reset):
        locs = td_reset["locs"][0]                       # depot first
        from rl4co.utils.ops import get_distance
        return get_distance(locs[:, None, :], locs[None, :, :])

    def coq_instance(self, env, td_reset, variant, hz0=None, n_steps=40):
        dem = td_reset["demand"][0]
        cap = td_reset["vehicle_capacity"][0, 0]
        tol = torch.tensor(1e-5, dtype=torch.float32)
        tw = td_reset["time_windows"][0]
        du = td_reset["durations"][0]
        hor = float(tw[0, 1])
        hz0 = hor if hz0 is None else float(hz0)
        tsl = Fraction(2 ** -21) * max(1, int(abs(hor)) + 1)       # slack for the spec on float32 episodes
        basei = "(mk_cvrp %s %s %s %s)" % (clist(cz(envh.zs(v)) for v in dem.tolist()), cz(envh.zs(cap)),
                                           envh.zmatrix(self.dist_matrix(td_reset)), cz(envh.zs(tol)))
        return "(mk_cvrptw %s %s %s %s %s %s %s)" % (
            basei, clist(cz(envh.zs(v)) for v in tw[:, 0].tolist()), clist(cz(envh.zs(v)) for v in tw[:, 1].tolist()),
            clist(cz(envh.zs(v)) for v in du.tolist()), cz(envh.zs(1.0)), cz(envh.zs(hz0)), cz(int(tsl * (1 << envh.S64))))

    def reward_tol(self, env, td_reset, n_steps):
        # float32 sum of n_steps+1 distances, each below the diameter of the point set
        diam = float(self.dist_matrix(td_reset).max())
        return Fraction(1e-6) * (n_steps + 2) * 2 * Fraction(max(1.0, diam))

    def reward_close(self, a, b):
        return abs(a - b) <= 1e-6 * (1.0 + abs(b))

    # ---------------------------------------------------------------- spec-level enumeration (C05)
    def feasible_solutions(self, env, td_reset, variant):
        """all feasible route sets of a tiny instance, from the PROBLEM DEFINITION in exact rationals (distances are the
        instance's float32 values taken exactly), canonically encoded.  On instances that are not on an exact grid only
        solutions with a safety margin are listed (a float32 comparison may go either way below it)."""
        dem = [Fraction(float(v)) for v in td_reset["demand"][0].tolist()]
        cap = Fraction(float(td_reset["vehicle_capacity"][0, 0]))
        tw = [[Fraction(float(v)) for v in row] for row in td_reset["time_windows"][0].tolist()]
        du = [Fraction(float(v)) for v in td_reset["durations"][0].tolist()]
        D = [[Fraction(float(v)) for v in row] for row in self.dist_matrix(td_reset).tolist()]
        exact_grid = all(v.denominator <= 128 for row in D for v in row) and all(v.denominator <= 128 for row in tw for v in row)
        margin = Fraction(0) if exact_grid else Fraction(1, 2000) * max(Fraction(1), tw[0][1])
        n = len(dem)

        def route_ok(r):
            if sum(dem[j - 1] for j in r) > cap:
                return False
            t, frm = Fraction(0), 0
            for x in r:
                st = max(t + D[frm][x], tw[x][0])
                if st > tw[x][1] - margin:
                    return False
                t, frm = st + du[x], x
            return t + D[frm][0] <= tw[0][1] - margin

        sols = []
        for perm in itertools.permutations(range(1, n + 1)):
            for cuts in range(1 << (n - 1)):
                routes, cur = [], [perm[0]]
                for k in range(1, n):
                    if cuts >> (k - 1) & 1:
                        routes.append(cur)
                        cur = []
                    cur.append(perm[k])
                routes.append(cur)
                if all(route_ok(r) for r in routes):
                    seq = []
                    for r in routes:
                        seq += r + [0]
                    sols.append(tuple(seq))
        return sols

    # ---------------------------------------------------------------- instance classes (evidence bookkeeping)
    def classify(self, ctx, items):
        seen, cases = set(), []
        for it in items:
            key = id(it.td_in)
            if key in seen:
                continue
            seen.add(key)
            try:
                cases.append(self.coq_instance(it.env, it.td_reset, it.variant))
            except ValueError:
                pass
        if not cases:
            return {}
        codes = coq_eval_shards("cases_class_%s" % self.name, self.header, "cvrptw_inst", "instance_class", cases, shard=400)
        out = {"instances": len(codes), "outside_wf": 0, "not_solvable": 0, "not_returnable": 0, "not_strict": 0}
        for c in codes:
            out["outside_wf"] += 0 if c & 1 else 1
            out["not_solvable"] += 0 if c & 2 else 1
            out["not_returnable"] += 0 if c & 4 else 1
            out["not_strict"] += 0 if c & 8 else 1
        for k, v in out.items():
            ctx.count("%s/class/%s" % (self.name, k), v)
        return {"instance_classes": out}

    def extra_c01(self, ctx, tier, items):
        return self.classify(ctx, items)

    def extra_c02(self, ctx, tier, items):
        return self.classify(ctx, items)

    def batch_priority(self, row):
        """batched checker calls: rows that are rejected for being LATE first (hand-built: a sane in-format instance whose
        planted plan misses one deadline by one grid unit; then the planted late-1 plans) -- the deadline assert is the one
        that reduces over the batch"""
        it, kind, acts, v = row
        return 0 if kind.startswith("handbuilt:late-deadline") else (1 if (kind.startswith("handbuilt:planted") and "late-1" in kind) else 2)

    # ---------------------------------------------------------------- C06: instances outside the documented format
    def ill_formed(self, rng, tier):
        """(instance, meta, action list): planted exact-grid instances with ONE sanity fault, and a solution that the time
        loop of the checker accepts, so that only the instance assert can (and must) refuse:
          neg-duration     one customer's service duration is minus one grid unit
          neg-window       one customer's window opens one grid unit before time 0
          empty-window     lo = hi at a customer where the vehicle waits or arrives exactly then
          cannot-return    x = last stop of the plan, the list is NOT closed by a depot visit (so the loop never drives the
                           way back): service >= 1 unit, window start = depot deadline - distance - service + 1 unit
        each with the planted solution (closed) and without its last depot visit; and, on the same sane base instances,
          late-deadline    NOT ill-formed: one customer's deadline is put one grid unit before the planted start of service
                           (window kept of positive length): an in-format instance on which the plan is late by one unit --
                           only the deadline assert of the time loop can refuse it (rows for the batched checker calls)"""
        out = []
        reps = 1 if tier == "quick" else 8
        for n in ([1, 2, 4] if tier == "quick" else [1, 2, 3, 4, 6, 10]):
            for rep in range(reps):
                for ill in ("neg-duration", "neg-window", "empty-window", "cannot-return", "late-deadline", "late-deadline"):
                    s = rng.choice([4, 128, 1])
                    td, meta = self.planted_instance(rng, n, s, rng.choice(["tight", "tight+1", "wait"]))
                    if not meta["plan_feasible"]:
                        continue
                    plan = list(meta["plan"])
                    f = float(s)
                    tw = td["time_windows"].clone()
                    du = td["durations"].clone()
                    # the base instance must be sane: planted windows may have length 0 -- open them by one grid unit (the
                    # plan stays on time), and make sure the real checker accepts the plan on the base instance
                    for j in range(tw.shape[1]):
                        if float(tw[0, j, 0]) >= float(tw[0, j, 1]):
                            if float(tw[0, j, 0]) >= 1.0 / f:
                                tw[0, j, 0] = tw[0, j, 1] - 1.0 / f       # service may start earlier: the plan stays on time
                            else:
                                tw[0, j, 1] = tw[0, j, 0] + 1.0 / f
                    td = td.clone()
                    td["time_windows"] = tw.clone()
                    env0 = self.make_env({"num_loc": n})
                    if not envh.verdict(env0, env0.reset(td.clone()), torch.tensor([plan], dtype=torch.int64)):
                        continue
                    last = [a for a in plan if a != 0][-1]
                    x = last if ill == "cannot-return" else rng.choice([a for a in plan if a != 0])
                    if ill == "neg-duration":
                        du[0, x] = -1.0 / f
                        changed = {"durations[%d]" % x: -1.0 / f}
                    elif ill == "neg-window":
                        tw[0, x, 0] = -1.0 / f
                        changed = {"time_windows[%d][0]" % x: -1.0 / f}
                    elif ill == "late-deadline":
                        D = self.dist_matrix(TensorDict({"locs": torch.cat([td["depot"][:, None, :], td["locs"]], 1)}, batch_size=[1]))
                        t, frm, starts = 0.0, 0, {}
                        for a in plan:                       # exact: everything is on the 1/s grid
                            if a == 0:
                                t, frm = 0.0, 0
                                continue
                            arr = t + float(D[frm, a])
                            starts[a] = (arr, max(arr, float(tw[0, a, 0])))
                            t, frm = starts[a][1] + float(du[0, a]), a
                        cands = [a for a, (arr, st) in starts.items() if arr - 1.0 / f > float(tw[0, a, 0])]
                        if not cands:
                            continue
                        x = rng.choice(cands)
                        tw[0, x, 1] = starts[x][0] - 1.0 / f
                        changed = {"time_windows[%d][1]" % x: float(tw[0, x, 1]), "planted_arrival": starts[x][0]}
                    elif ill == "empty-window":
                        # service starts at max(arrival, lo) <= hi: closing the window at its opening keeps the plan on time
                        # only if the vehicle is there by then; take hi := lo := the later of the two
                        lo_x, hi_x = float(tw[0, x, 0]), float(tw[0, x, 1])
                        tw[0, x, 0] = hi_x
                        changed = {"time_windows[%d]" % x: [hi_x, hi_x]}
                    else:
                        H = float(tw[0, 0, 1])
                        d = float(self.dist_matrix(TensorDict({"locs": torch.cat([td["depot"][:, None, :], td["locs"]], 1)}, batch_size=[1]))[0, x])
                        dx = max(float(du[0, x]), rng.choice([1, 2, 5]) / f)
                        du[0, x] = dx
                        lo_x = H - d - dx + 1.0 / f
                        if lo_x < 0:
                            continue
                        tw[0, x, 0] = lo_x
                        tw[0, x, 1] = lo_x + rng.choice([1, 3]) / f
                        changed = {"durations[%d]" % x: dx, "time_windows[%d]" % x: [lo_x, float(tw[0, x, 1])]}
                    td_bad = td.clone()
                    td_bad["time_windows"] = tw
                    td_bad["durations"] = du
                    m_bad = dict(meta, kind="illformed/" + ill, ill=ill, changed=changed)
                    open_end = plan[:-1] if plan and plan[-1] == 0 else plan
                    out.append((td_bad, m_bad, open_end))
                    if ill not in ("cannot-return", "late-deadline"):
                        out.append((td_bad, m_bad, plan))
        return out

    # ---------------------------------------------------------------- C06: corruptions, hand-built late solutions, batched checker
    def extra_c06(self, ctx, tier, items):
        from vt.envprops import Item, CONCRETE, hexrow
        rng = ctx.rng
        cases, meta = [], []

        def add(it, kind, acts, v, hz0=None, extra=None):
            try:
                inst = self.coq_instance(it.env, it.td_reset, it.variant, hz0=hz0)
            except ValueError:
                return
            cases.append("(%s, %s, %s)" % (inst, cnatlist(acts), cbool(v)))
            meta.append((it, kind, acts, v, extra or {}))
            ctx.count("%s/c06_%s/%s" % (self.name, kind.split(":")[0], "accepted" if v else "rejected"))

        done_items = [it for it in items if it.ep.complete]
        rng.shuffle(done_items)
        # (a) single-fault corruptions of complete mask-made solutions
        for it in done_items[: (22 if tier == "quick" else 70)]:
            n = it.variant.get("num_loc", 0)
            for kind, acts in self.corruptions(rng, it.ep.actions, n):
                if not acts:
                    continue
                v = envh.verdict(it.env, it.td_reset, torch.tensor([acts], dtype=torch.int64))
                if v is None:
                    continue
                add(it, "corruption:" + kind, acts, v)
        # (b) planted solutions as hand-built action lists: feasible ones (tight), and the ones one grid unit late
        #     that the mask refuses; with and without the final return to the depot
        seen = set()
        for it in items:
            m = it.meta
            if "plan" not in m or id(it.td_in) in seen:
                continue
            seen.add(id(it.td_in))
            plan = list(m["plan"])
            for kind, acts in (("planted", plan), ("planted-never-return", [a for a in plan if a != 0]),
                               ("planted-open-end", plan[:-1])):
                v = envh.verdict(it.env, it.td_reset, torch.tensor([acts], dtype=torch.int64))
                if v is not None:
                    add(it, "handbuilt:" + kind + ("/late-1" if m.get("blocked") else ""), acts, v)
        # (c) the checker on a two-row batch: row 0 supplies the horizon used for both rows.  Row 0 = an instance whose
        #     own solution is accepted solo; row 1 = the solution under test.
        solo_ok = [it for it in done_items if it.ep.checker]
        pairs = 0
        for it in solo_ok:
            if pairs >= (10 if tier == "quick" else 30):
                break
            mates = [m for m in solo_ok if m is not it and m.variant == it.variant and len(m.ep.actions) > 0
                     and float(m.td_reset["time_windows"][0, 0, 1]) != float(it.td_reset["time_windows"][0, 0, 1])]
            if not mates:
                continue
            m0 = rng.choice(mates)
            L = max(len(m0.ep.actions), len(it.ep.actions))
            a0 = m0.ep.actions + [0] * (L - len(m0.ep.actions))
            a1 = it.ep.actions + [0] * (L - len(it.ep.actions))
            # padding with depot visits must itself be acceptable solo (it is: see C04); verify rather than assume
            if not (envh.verdict(m0.env, m0.td_reset, torch.tensor([a0])) and envh.verdict(it.env, it.td_reset, torch.tensor([a1]))):
                continue
            try:
                tdb = torch.cat([m0.td_reset, it.td_reset], 0)
            except Exception:
                continue
            v = envh.verdict(it.env, tdb, torch.tensor([a0, a1], dtype=torch.int64))
            if v is None:
                continue
            pairs += 1
            add(it, "batched-with-row0", a1, v, hz0=float(m0.td_reset["time_windows"][0, 0, 1]),
                extra={"row0_instance": hexrow(m0.td_in), "row0_actions": a0})
        # (e) ill-formed instances: the checker's instance-sanity asserts (non-negative windows / durations, windows of
        #     positive length, "window start + distance + duration within the depot deadline") must refuse the instance
        #     whatever the solution.  Built from planted instances so that ONLY the sanity assert can refuse: the planted
        #     solution is otherwise accepted by the time loop.
        n_ill = 0
        for td_bad, m_bad, acts in self.ill_formed(rng, tier):
            variant = {"num_loc": td_bad["locs"].shape[1]}
            env = self.make_env(variant)
            td_r = env.reset(td_bad.clone())
            v = envh.verdict(env, td_r, torch.tensor([acts], dtype=torch.int64))
            if v is None:
                continue
            ep = envh.Episode()
            ep.steps = [([], a, False) for a in acts]
            ep.checker = v
            fake = Item(self, variant, env, td_bad, td_r, ep, m_bad, "solo")
            if m_bad["ill"] == "late-deadline":
                add(fake, "handbuilt:late-deadline", acts, v, extra={"changed": m_bad["changed"]})
                continue
            add(fake, "illformed:" + m_bad["ill"], acts, v, extra={"ill_formed": m_bad["ill"], "changed": m_bad["changed"]})
            ctx.count("%s/c06_illformed_instance/%s/%s" % (self.name, m_bad["ill"], "accepted" if v else "rejected"))
            n_ill += 1
        if not cases:
            return {}
        codes = coq_eval_shards("cases_C06_%s_sol" % self.name, self.header, self.sol_type, self.sol_fn, cases, shard=self.shard)
        nd = nc = 0
        first = None
        for (it, kind, acts, v, extra), c in zip(meta, codes):
            ctx.seen({"e": self.name, "sol": acts, "k": kind, "i": str(it.td_in["time_windows"].tolist()) + str(it.td_in["locs"].tolist())})
            if c == 0:
                continue
            tag, step = c % 1000, c // 1000
            ep = envh.Episode()
            ep.steps = [([], a, False) for a in acts]
            ep.checker = v
            fake = Item(self, it.variant, it.env, it.td_in, it.td_reset, ep, dict(it.meta, solution_kind=kind), "solo")
            if tag in CONCRETE:
                nc += 1
                ctx.failure(self.signature(fake, tag, step), fake.replay(dict({"what": MECH.get((tag, step)) or CONCRETE[tag], "solution_kind": kind,
                                                                               "code": c}, **extra)), tag=self.name)
            else:
                nd += 1
                first = first or (fake, c, kind)
        if first:
            fake, c, kind = first
            path = ctx.write_replay(fake.replay({"code": c, "what": "checker model verdict differs from the implementation", "solution_kind": kind}),
                                    tag="corr-" + self.name)
            ctx.broken.append("correspondence C06/%s (hand-built, corrupted and batched solutions): %d disagreement(s); first: code %d on '%s', case file %s" % (
                self.name, nd, c, kind, path))
        out = {"c06_solutions": len(cases), "c06_disagreements": nd, "c06_concrete": nc, "c06_batched_pairs": pairs,
               "c06_illformed_instances": n_ill}
        # (d) the same corrupted / hand-built lists and the mask-made solutions as rows of batches of 2-4 different instances
        #     handed to the real checker in ONE call (vt/envs/_base.py batched_checker): the deadline assert reduces over
        #     the batch with .all()
        rows = [(it, kind, acts, v) for it, kind, acts, v, extra in meta if "row0_instance" not in extra]
        rows += [(it, "original", list(it.ep.actions), bool(it.ep.checker)) for it in done_items[: (40 if tier == "quick" else 150)]
                 if it.ep.checker is not None and it.ep.actions]
        out.update(self.batched_checker(ctx, tier, rows))
        out.update(self.classify(ctx, items))
        return out


ADAPTER = CVRPTWAdapter()
