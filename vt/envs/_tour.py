"""Shared base of the adapters of the fixed-length single-tour environments (TSP, ATSP, PDP).

These environments have EMPTY masks once a row is done and all rows of a batch finish at the same step, so
  * episodes are recorded without post-finish padding (there is no feasible padding action to draw),
  * the C04 differential compares solo vs batched runs without padding and also compares the bookkeeping keys
    the policies read (first_node / current_node / i), which is where the batch-global first-step test lands,
  * the observed final bookkeeping of each row travels inside the per-row reset TensorDict (keys "vt_*") so that
    `coq_instance` can put it into the case without any change to the shared driver.
"""
from __future__ import annotations

import torch

from vt import envh
from vt.envs._base import RoutingAdapter


class TourAdapter(RoutingAdapter):
    obs_keys = ()                # bookkeeping keys recorded at the end of a rollout (ints per row)
    tiny = 5
    batch_pad = False            # C06 batched checker calls: a tour has a fixed length, there is no padding action

    def choosers(self, tier):
        return ["uniform", "uniform", "low", "high", "depot_first", "depot_last"] if tier == "thorough" else \
               ["uniform", "low", "high", "depot_last"]

    def max_steps(self, variant):
        return variant.get("num_loc", 20) + 3

    def strip(self, seq):
        return tuple(seq)

    def expected_len(self, variant):
        return variant.get("num_loc", 0)

    def signature(self, item, tag, step):
        # the checkers never compare the length of the action list with the instance: an accepted infeasible list of
        # the wrong length is that (specific) defect; any other wrongly accepted list keeps the generic signature
        if tag == 18 and (item.ep.crash or "").startswith("reward:"):
            return "%s/%s: reward-not-per-row-for-single-action-tour" % (self.name, self.variant_tag(item.variant))
        if tag == 15 and len(item.ep.actions) != self.expected_len(item.variant):
            return "%s/%s: checker-accepts-tour-of-wrong-length" % (self.name, self.variant_tag(item.variant))
        return super().signature(item, tag, step)

    # ------------------------------------------------------------------ helpers
    def obs_of(self, td_fin, r):
        out = []
        for k in self.obs_keys:
            v = td_fin[k]
            out.append(int(v.reshape(v.shape[0], -1)[r, 0]))
        return out

    def row_reset(self, td_reset, r, td_fin, meta):
        row = td_reset[r:r + 1].clone()
        if self.obs_keys:
            row["vt_obs"] = torch.tensor([self.obs_of(td_fin, r)], dtype=torch.int64)
        row["vt_exact"] = torch.tensor([[1 if str(meta.get("kind", "")).startswith("exact") else 0]], dtype=torch.int64)
        return row

    def obs_term(self, td_reset):
        if "vt_obs" not in td_reset.keys():
            return "None"
        vals = td_reset["vt_obs"][0].tolist()
        return "(Some (%s))" % ", ".join("%d%%nat" % v for v in vals)

    def is_exact(self, td_reset):
        return "vt_exact" in td_reset.keys() and int(td_reset["vt_exact"][0, 0]) == 1

    @staticmethod
    def route_reward_crash(eps):
        """a failure of _get_reward is not a crash of env.step (C02): it belongs to C03/C04 and is reported there"""
        for e in eps:
            if e.crash and e.crash.startswith("reward:"):
                e.checker_msg = "REWARD-CRASH " + e.crash
                e.crash = None

    def reward_crashes(self, ctx, items, pid):
        n = 0
        for it in items:
            if it.ep.checker_msg.startswith("REWARD-CRASH"):
                n += 1
                ctx.failure("%s/%s: reward-not-per-row-for-single-action-tour" % (self.name, self.variant_tag(it.variant)),
                            it.replay({"what": "_get_reward does not return one value per batch row for this input",
                                       "detail": it.ep.checker_msg, "property": pid}), tag=self.name)
        return n

    def extra_c03(self, ctx, tier, items):
        self.annotate_broken(ctx)
        return {"reward_crashes": self.reward_crashes(ctx, items, "C03")}

    # ------------------------------------------------------------------ episodes (no padding)
    def collect(self, ctx, pid, tier, scale=1.0):
        from vt.envprops import Item
        rng = ctx.rng
        items = []
        for variant in self.variants(tier):
            env = self.make_env(variant)
            insts = self.instances(env, variant, rng, tier)
            vtag = self.variant_tag(variant)
            for td_in, meta in insts:
                ctx.count("%s/%s/instances/%s" % (self.name, vtag, meta.get("kind", "?")))
                for ch in self.choosers(tier):
                    eps, td_reset, td_fin, actions = envh.rollout(env, td_in, rng, choosers=[ch], pad_steps=0,
                                                                  max_steps=self.max_steps(variant))
                    envh.rewards_and_verdicts(env, td_fin, td_reset, actions, eps, self.reward_td)
                    self.route_reward_crash(eps)
                    items.append(Item(self, variant, env, td_in, self.row_reset(td_reset, 0, td_fin, meta), eps[0],
                                      dict(meta, chooser=ch), "solo"))
                    ctx.count("%s/%s/solo_episodes" % (self.name, vtag))
            groups = {}
            for td_in, meta in insts:
                key = tuple((k, tuple(td_in[k].shape[1:])) for k in sorted(td_in.keys()))
                groups.setdefault(key, []).append((td_in, meta))
            for key, grp in groups.items():
                if len(grp) < 2:
                    continue
                for rep in range(2 if tier == "quick" else 4):
                    k = min(len(grp), rng.choice([2, 3, 5, 8]))
                    sel = [rng.choice(grp) for _ in range(k)]
                    td_b = torch.cat([t for t, _ in sel], 0)
                    chs = [rng.choice(self.choosers(tier)) for _ in sel]
                    eps, td_reset, td_fin, actions = envh.rollout(env, td_b, rng, choosers=chs, pad_steps=0,
                                                                  max_steps=self.max_steps(variant))
                    envh.rewards_and_verdicts(env, td_fin, td_reset, actions, eps, self.reward_td)
                    self.route_reward_crash(eps)
                    for r, (t, meta) in enumerate(sel):
                        items.append(Item(self, variant, env, t, self.row_reset(td_reset, r, td_fin, meta), eps[r],
                                          dict(meta, chooser=chs[r]), "batch%d@%d" % (k, r)))
                        ctx.count("%s/%s/batched_rows" % (self.name, vtag))
        return items

    # ------------------------------------------------------------------ C06: corrupted solutions need no distance data
    _light = False

    def matrix_term(self, t):
        """Coq matrix of a 2-D tensor; for the hand-built/corrupted-solution cases of C06 (the checkers and the
        feasibility predicate never look at distances) a zero matrix of the same size keeps the case files small"""
        return envh.zmatrix(torch.zeros_like(t) if self._light else t)

    # dedicated witnesses of repaired defects: (variant dict that must match, action list, label); they stay in the
    # stream on every run and are reported under the original signature if the defect returns
    witnesses = ()

    def extra_c06(self, ctx, tier, items):
        self._light = True
        try:
            out = super().extra_c06(ctx, tier, items) or {}
            out.update(self.witness_cases(ctx, items))
            self.annotate_broken(ctx)
            return out
        finally:
            self._light = False

    def witness_cases(self, ctx, items):
        from vt.envprops import Item, CONCRETE
        from vt.common import cnatlist, cbool, coq_eval_shards
        cases, meta = [], []
        for want, acts, label in self.witnesses:
            it = next((x for x in items if x.ep.complete and all(x.variant.get(k) == v for k, v in want.items())), None)
            if it is None:
                ctx.broken.append("C06/%s: no episode of variant %s to attach the witness %s to" % (self.name, want, acts))
                continue
            v = envh.verdict(it.env, it.td_reset, torch.tensor([acts], dtype=torch.int64))
            if v is None:
                continue
            cases.append("(%s, %s, %s)" % (self.coq_instance(it.env, it.td_reset, it.variant), cnatlist(acts), cbool(v)))
            meta.append((it, acts, label, v))
            ctx.count("%s/c06_witness/%s/%s" % (self.name, label, "accepted" if v else "rejected"))
        if not cases:
            return {}
        codes = coq_eval_shards("cases_C06_%s_wit" % self.name, self.header, self.sol_type, self.sol_fn, cases, shard=self.shard)
        bad = 0
        for (it, acts, label, v), c in zip(meta, codes):
            ctx.seen({"e": self.name, "witness": acts, "v": it.variant})
            if c == 0:
                continue
            bad += 1
            ep = envh.Episode()
            ep.steps = [([], a, False) for a in acts]
            ep.checker = v
            fake = Item(self, it.variant, it.env, it.td_in, it.td_reset, ep, dict(it.meta, corruption=label), "solo")
            if c in CONCRETE:
                ctx.failure(self.signature(fake, c, 0), fake.replay({"what": CONCRETE[c], "corruption": label}), tag=self.name)
            else:
                path = ctx.write_replay(fake.replay({"code": c, "what": "checker model verdict differs from the implementation on the witness " + label}),
                                        tag="corr-" + self.name)
                ctx.broken.append("correspondence C06/%s (dedicated witness %s): code %d, case file %s" % (self.name, label, c, path))
        return {"c06_witnesses": len(cases), "c06_witness_failures": bad}

    # ------------------------------------------------------------------ result codes of Harness/H{TSP,ATSP,PDP}.v that the
    # shared table envprops.DISAGREE does not know: their explanation is put into the broken-obligation text and into
    # the disagreement replay
    MY_CODES = {20: "instance outside the documented input format (wfb false on a generated instance): not a case of any theorem",
                21: "final bookkeeping of the row (first_node / current_node / i) differs from the row model's"}

    def annotate_broken(self, ctx):
        import json, os, re
        for k, b in enumerate(ctx.broken):
            if ("/%s:" % self.name) not in b and ("/%s " % self.name) not in b:
                continue
            m = re.search(r"code (\d+) \(step \d+: \?\)", b)
            if not m or int(m.group(1)) % 1000 not in self.MY_CODES:
                continue
            txt = self.MY_CODES[int(m.group(1)) % 1000]
            ctx.broken[k] = b.replace(": ?)", ": %s)" % txt, 1)
            mp = re.search(r"case file (\S+)", b)
            if mp and os.path.exists(mp.group(1)):
                try:
                    d = json.load(open(mp.group(1)))
                    d["what"] = "model/implementation disagreement: " + txt
                    json.dump(d, open(mp.group(1), "w"), indent=1, default=str)
                except Exception:
                    pass

    def extra_c01(self, ctx, tier, items):
        self.annotate_broken(ctx)
        return {}

    def extra_c02(self, ctx, tier, items):
        self.annotate_broken(ctx)
        return {}

    # ------------------------------------------------------------------ C05: spread the enumeration budget over the sizes
    def extra_c05(self, ctx, tier, items):
        """the base class enumerates the first few distinct instances it meets; hand them over round-robin over the
        variants, largest first, so that the budget is not spent on the smallest size"""
        groups = {}
        for it in items:
            if it.batch == "solo":
                groups.setdefault(self.variant_tag(it.variant) + "/%d" % it.variant.get("num_loc", 0), []).append(it)
        order = sorted(groups, key=lambda k: -groups[k][0].variant.get("num_loc", 0))
        out = []
        depth = 0
        while any(len(groups[k]) > depth for k in order):
            for k in order:
                if len(groups[k]) > depth:
                    out.append(groups[k][depth])
            depth += 1
        self.annotate_broken(ctx)
        return super().extra_c05(ctx, tier, out)

    # ------------------------------------------------------------------ C04: solo vs batched (no padding exists)
    def extra_c04(self, ctx, tier, items):
        from vt.envprops import Item, hexrow
        rng = ctx.rng
        solo = [it for it in items if it.batch == "solo" and it.ep.complete]
        n_cmp = n_bad = 0
        by_shape = {}
        for it in solo:
            key = (id(it.env), tuple((k, tuple(it.td_in[k].shape[1:])) for k in sorted(it.td_in.keys())))
            by_shape.setdefault(key, []).append(it)
        for key, grp in by_shape.items():
            reps = 6 if tier == "quick" else 20
            for rep in range(reps):
                it = rng.choice(grp)
                env = it.env
                forced_actions = list(it.ep.actions)
                size = rng.choice([1, 2, 3, 4, 6])
                pos = rng.randrange(size)
                mates = [it if (q == pos or rng.random() < 0.3) else rng.choice(grp) for q in range(size)]
                td_b = torch.cat([m.td_in for m in mates], 0)
                forced = [forced_actions if q == pos else [] for q in range(size)]
                chs = [rng.choice(["uniform", "low", "high"]) for _ in range(size)]
                eps, td_reset, td_fin, actions = envh.rollout(env, td_b, rng, choosers=chs, forced=forced, pad_steps=0,
                                                              max_steps=self.max_steps(it.variant))
                envh.rewards_and_verdicts(env, td_fin, td_reset, actions, eps, self.reward_td)
                e = eps[pos]
                n_cmp += 1
                ctx.count("%s/c04_compositions" % self.name)
                bad = None
                if e.steps != it.ep.steps:
                    kk = next((k for k in range(len(it.ep.steps)) if k >= len(e.steps) or e.steps[k] != it.ep.steps[k]), len(it.ep.steps))
                    bad = "masks/done differ from the solo run at step %d" % (kk + 1)
                elif e.final_mask != it.ep.final_mask:
                    bad = "final mask differs from the solo run"
                elif it.ep.reward is not None and e.reward is not None and not self.reward_close(e.reward, it.ep.reward):
                    bad = "reward %r in the batch vs %r solo" % (e.reward, it.ep.reward)
                elif self.obs_keys and "vt_obs" in it.td_reset.keys() and self.obs_of(td_fin, pos) != it.td_reset["vt_obs"][0].tolist():
                    bad = "bookkeeping %s = %r in the batch vs %r solo" % ("/".join(self.obs_keys), self.obs_of(td_fin, pos),
                                                                          it.td_reset["vt_obs"][0].tolist())
                if bad:
                    n_bad += 1
                    fake = Item(self, it.variant, env, it.td_in, it.td_reset, e, it.meta, "batch%d@%d" % (size, pos))
                    ctx.failure(self.signature(fake, 17, 0),
                                fake.replay({"what": bad, "solo_reward": it.ep.reward, "solo_actions": forced_actions,
                                             "batch_instances": [hexrow(m.td_in) for m in mates],
                                             "batch_actions": actions.tolist(), "position": pos}), tag=self.name)
        self.annotate_broken(ctx)
        return {"c04_compositions": n_cmp, "c04_differences": n_bad, "reward_crashes": self.reward_crashes(ctx, items, "C04")}
