"""Shared by the OP and SDVRP adapters: C06 on hand-built solutions (in addition to the generic single-fault
corruptions of vt/envs/_base.py). Not an adapter itself (module name starts with '_')."""
from __future__ import annotations

import torch

from vt import envh
from vt.common import cnatlist, cbool, coq_eval_shards


def check_solutions(adapter, ctx, tier, triples, prefix):
    """triples: list of (item, kind, actions). Runs the REAL checker on each action list (one row), evaluates
    adapter.sol_fn on (instance, actions, verdict) in Coq, reports concrete failures / disagreements.
    Returns counters."""
    from vt.envprops import Item, CONCRETE
    cases, meta = [], []
    for it, kind, acts in triples:
        if not acts:
            continue
        v = envh.verdict(it.env, it.td_reset, torch.tensor([acts], dtype=torch.int64))
        if v is None:
            continue
        try:
            inst = adapter.coq_instance(it.env, it.td_reset, it.variant)
        except ValueError:
            continue
        cases.append("(%s, %s, %s)" % (inst, cnatlist(acts), cbool(v)))
        meta.append((it, kind, acts, v))
        ctx.count("%s/c06_%s/%s/%s" % (adapter.name, prefix, kind, "accepted" if v else "rejected"))
    if not cases:
        return {}
    codes = coq_eval_shards("cases_C06_%s_%s" % (adapter.name, prefix), adapter.header, adapter.sol_type, adapter.sol_fn, cases,
                            shard=adapter.shard)
    nd = nc = 0
    first = None
    for (it, kind, acts, v), c in zip(meta, codes):
        ctx.seen({"e": adapter.name, "sol": acts, "k": kind, "i": str(sorted((k, it.td_in[k].reshape(-1).tolist()) for k in it.td_in.keys()))})
        if c == 0:
            continue
        ep = envh.Episode()
        ep.steps = [([], a, False) for a in acts]
        ep.checker = v
        fake = Item(adapter, it.variant, it.env, it.td_in, it.td_reset, ep, dict(it.meta, corruption=kind), "solo")
        if c in CONCRETE:
            nc += 1
            ctx.failure(adapter.signature(fake, c, 0), fake.replay({"what": CONCRETE[c], "solution_kind": kind}), tag=adapter.name)
        else:
            nd += 1
            first = first or (fake, c, kind)
    if first:
        fake, c, kind = first
        path = ctx.write_replay(fake.replay({"code": c, "what": "checker model verdict differs from the implementation", "solution_kind": kind}),
                                tag="corr-" + adapter.name)
        ctx.broken.append("correspondence C06/%s (%s solutions): %d disagreement(s); first: code %d on a '%s' solution, case file %s" % (
            adapter.name, prefix, nd, c, kind, path))
    return {"c06_%s_solutions" % prefix: len(cases), "c06_%s_disagreements" % prefix: nd, "c06_%s_concrete" % prefix: nc}
