"""Shared by the OP, SDVRP and PCTSP/SPCTSP adapters: C06 on hand-built solutions (in addition to the generic single-fault
corruptions of vt/envs/_base.py) and C03 on hand-built action lists and batches (`check_rewards`). Not an adapter itself
(module name starts with '_')."""
from __future__ import annotations

import torch

from vt import envh
from vt.common import cnatlist, cbool, coq_eval_shards


def check_solutions(adapter, ctx, tier, triples, prefix, batches=True):
    """triples: list of (item, kind, actions). Runs the REAL checker on each action list (one row), evaluates
    adapter.sol_fn on (instance, actions, verdict) in Coq, reports concrete failures / disagreements; then
    (batches=True) the same lists as rows of BATCHES handed to the real checker in one call
    (RoutingAdapter.batched_checker).  Returns counters."""
    from vt.envprops import Item, CONCRETE
    cases, meta = [], []
    for it, kind, acts in triples:
        if not acts:
            continue
        v = envh.verdict(it.env, it.td_reset, torch.tensor([acts], dtype=torch.int64))
        if v is None:
            continue
        try:
            inst = adapter.coq_instance(it.env, it.td_reset, it.variant)
        except ValueError:
            continue
        cases.append("(%s, %s, %s)" % (inst, cnatlist(acts), cbool(v)))
        meta.append((it, kind, acts, v))
        ctx.count("%s/c06_%s/%s/%s" % (adapter.name, prefix, kind, "accepted" if v else "rejected"))
    if not cases:
        return {}
    codes = coq_eval_shards("cases_C06_%s_%s" % (adapter.name, prefix), adapter.header, adapter.sol_type, adapter.sol_fn, cases,
                            shard=adapter.shard)
    nd = nc = 0
    first = None
    for (it, kind, acts, v), c in zip(meta, codes):
        ctx.seen({"e": adapter.name, "sol": acts, "k": kind, "i": str(sorted((k, it.td_in[k].reshape(-1).tolist()) for k in it.td_in.keys()))})
        if c == 0:
            continue
        ep = envh.Episode()
        ep.steps = [([], a, False) for a in acts]
        ep.checker = v
        fake = Item(adapter, it.variant, it.env, it.td_in, it.td_reset, ep, dict(it.meta, corruption=kind), "solo")
        if c in CONCRETE:
            nc += 1
            ctx.failure(adapter.signature(fake, c, 0), fake.replay({"what": CONCRETE[c], "solution_kind": kind}), tag=adapter.name)
        else:
            nd += 1
            first = first or (fake, c, kind)
    if first:
        fake, c, kind = first
        path = ctx.write_replay(fake.replay({"code": c, "what": "checker model verdict differs from the implementation", "solution_kind": kind}),
                                tag="corr-" + adapter.name)
        ctx.broken.append("correspondence C06/%s (%s solutions): %d disagreement(s); first: code %d on a '%s' solution, case file %s" % (
            adapter.name, prefix, nd, c, kind, path))
    out = {"c06_%s_solutions" % prefix: len(cases), "c06_%s_disagreements" % prefix: nd, "c06_%s_concrete" % prefix: nc}
    if batches:
        # together with the rows the generic corruption stream left for us (RoutingAdapter._defer_batches)
        rows = list(getattr(adapter, "_c06_rows", None) or []) + [(it, kind, acts, v) for it, kind, acts, v in meta]
        adapter._c06_rows = None
        out.update(adapter.batched_checker(ctx, tier, rows, cap=(12 if tier == "quick" else 70)))
    return out


def check_rewards(adapter, ctx, tier, batches, prefix="handbuilt"):
    """C03 on hand-built action lists (the mask-made episodes of the generic stream always end at the depot and are
    handed to get_reward one rollout at a time; this stream reaches the branches they cannot: action lists that are not
    closed by a depot visit, one-column action tensors, batches whose rows differ in kind).

    batches: list of (kind, [(item, actions), ...]); the rows of one entry go into ONE call of the real
    `env._get_reward` (same env, instances of equal shape, equally long action lists).  Only rows whose list the env's own
    checker accepts (that row alone) are judged -- the reward of a non-solution means nothing; such a row is a batch-mate
    only.  Specification side: the call either raises (counted; a refusal is not a wrong reward) or returns, for every
    judged row, the objective of that row's own action list: each such row becomes a case of the adapter's Coq
    `check_C03` (4 = reward differs from the objective, concrete; 5 = differs from the model of _get_reward).
    Returns counters."""
    from vt.envprops import Item, CONCRETE, DISAGREE, case_of, hexrow
    fn = adapter.props.get("C03")
    if not fn or adapter.reward_td != "reset":
        return {}
    cases, meta = [], []
    n_raise = n_calls = 0
    for kind, rows in batches:
        rows = [(it, [int(a) for a in acts]) for it, acts in rows if acts]
        if not rows or len({len(a) for _, a in rows}) != 1:
            continue
        env = rows[0][0].env
        # rows that the env's own checker refuses are only batch-mates: their reward is not judged
        judged = [envh.verdict(env, it.td_reset, torch.tensor([acts], dtype=torch.int64)) is not False for it, acts in rows]
        if not any(judged):
            ctx.count("%s/c03_%s/%s/not-a-solution(skipped)" % (adapter.name, prefix, kind))
            continue
        try:
            td_b = torch.cat([it.td_reset for it, _ in rows], 0)
        except Exception:      # noqa: BLE001
            continue
        actions = torch.tensor([a for _, a in rows], dtype=torch.int64)
        n_calls += 1
        try:
            rew = env._get_reward(td_b, actions)
            rew = [float(x) for x in rew.reshape(-1).tolist()]
            if len(rew) != len(rows):
                raise ValueError("reward of %d values for %d rows" % (len(rew), len(rows)))
        except Exception as e:      # noqa: BLE001
            n_raise += 1
            ctx.count("%s/c03_%s/%s/get_reward-raised" % (adapter.name, prefix, kind))
            continue
        ctx.count("%s/c03_%s/%s/rows" % (adapter.name, prefix, kind), len(rows))
        for r, (it, acts) in enumerate(rows):
            if not judged[r]:
                continue
            ep = envh.Episode()
            ep.steps = [([], a, False) for a in acts]
            ep.final_mask = []
            ep.reward = rew[r]
            ep.complete = True
            ep.checker = True
            fake = Item(adapter, it.variant, env, it.td_in, it.td_reset, ep, dict(it.meta, solution_kind=kind),
                        "solo" if len(rows) == 1 else "batch%d@%d" % (len(rows), r))
            try:
                cases.append(case_of(fake))
            except ValueError:
                continue
            meta.append((fake, kind, rows, actions.tolist(), rew, r))
    if not cases:
        return {"c03_%s_calls" % prefix: n_calls, "c03_%s_raised" % prefix: n_raise}
    codes = coq_eval_shards("cases_C03_%s_%s" % (adapter.name, prefix), adapter.header, adapter.case_type, fn, cases, shard=adapter.shard)
    nd = nc = 0
    first = None
    for (fake, kind, rows, bacts, rew, r), c in zip(meta, codes):
        ctx.seen({"e": adapter.name, "c03sol": fake.ep.actions, "k": kind, "b": bacts, "r": r,
                  "i": str(sorted((k, fake.td_in[k].reshape(-1).tolist()) for k in fake.td_in.keys()))},
                 nontrivial=len(fake.ep.actions) >= 2 or len(rows) >= 2)
        if c == 0:
            continue
        tag = c % 1000
        extra = {"code": c, "solution_kind": kind, "position": r, "batch_actions": bacts, "batch_rewards": rew,
                 "batch_instances": [hexrow(it.td_in) for it, _ in rows],
                 "how": "env._get_reward(cat(batch_instances after reset), batch_actions)[position] is impl_reward"}
        if tag in CONCRETE:
            nc += 1
            ctx.failure(adapter.signature(fake, tag, c // 1000), fake.replay(dict(extra, what=CONCRETE[tag])), tag=adapter.name)
        else:
            nd += 1
            first = first or (fake, c, extra)
    if first:
        fake, c, extra = first
        path = ctx.write_replay(fake.replay(dict(extra, what="model/implementation disagreement: " + DISAGREE.get(c % 1000, "?"))),
                                tag="corr-" + adapter.name)
        ctx.broken.append("correspondence C03/%s (%s action lists): %d disagreement(s); first: code %d on a '%s' list, case file %s" % (
            adapter.name, prefix, nd, c, first[2]["solution_kind"], path))
    return {"c03_%s_calls" % prefix: n_calls, "c03_%s_raised" % prefix: n_raise, "c03_%s_rows" % prefix: len(cases),
            "c03_%s_disagreements" % prefix: nd, "c03_%s_concrete" % prefix: nc}


def reward_batches(rng, items, tier, one_column=True, cap=None):
    """hand-built action lists for `check_rewards` from the distinct solo instances of [items] (depot = node 0,
    customers 1..n): customers only (not closed), closed, closed + padding, via the depot; alone and as rows of one
    batch next to a stranger of the same shape; and one-column action tensors [[0]], [[j]], [[0],[j]], [[j],[k]]."""
    out = []
    seen = {}
    for it in items:
        if it.batch != "solo":
            continue
        key = str(sorted((k, it.td_in[k].reshape(-1).tolist()) for k in it.td_in.keys()))
        if key in seen:
            continue
        seen[key] = it
    insts = list(seen.values())
    rng.shuffle(insts)
    cap = cap or (6 if tier == "quick" else 60)
    by_shape = {}
    for it in insts:
        by_shape.setdefault((id(it.env), it.td_in["locs"].shape[1]), []).append(it)
    # spread over the shapes (the small ones are where the degenerate branches live)
    order = []
    depth = 0
    while len(order) < cap and any(len(v) > depth for v in by_shape.values()):
        for k in sorted(by_shape, key=lambda q: q[1]):
            if len(by_shape[k]) > depth and len(order) < cap:
                order.append(by_shape[k][depth])
        depth += 1
    for it in order:
        n = it.td_in["locs"].shape[1]
        perm = rng.sample(range(1, n + 1), n)
        k = rng.randint(1, n)
        mates = [m for m in by_shape[(id(it.env), n)] if m is not it]
        for kind, acts in (("all-customers-open", perm), ("all-customers-closed", perm + [0]), ("all-customers-padded", perm + [0, 0]),
                           ("prefix-open", perm[:k]), ("prefix-closed", perm[:k] + [0])):
            out.append((kind, [(it, acts)]))
        if n >= 2:
            out.append(("via-depot", [(it, perm[:1] + [0] + perm[1:])]))
        if mates:
            m = rng.choice(mates)
            pm = rng.sample(range(1, n + 1), n)
            out.append(("batch:open+closed", [(it, perm + [0]), (m, [0] + pm)]))
            out.append(("batch:open+open", [(m, pm), (it, perm)]))
        if one_column:
            j = rng.randint(1, n)
            out.append(("one-column:[0]", [(it, [0])]))
            out.append(("one-column:[j]", [(it, [j])]))
            if mates:
                m = rng.choice(mates)
                out.append(("one-column:[0],[j]", [(m, [0]), (it, [j])]))
                out.append(("one-column:[j],[0]", [(it, [j]), (m, [0])]))
                out.append(("one-column:[0],[0]", [(it, [0]), (m, [0])]))
                out.append(("one-column:[j],[k]", [(it, [j]), (m, [rng.randint(1, n)])]))
    return out
