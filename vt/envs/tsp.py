"""Adapter for TSPEnv (properties C01-C06)."""
from __future__ import annotations

import itertools
from fractions import Fraction

import torch
from tensordict import TensorDict

from vt import envh
from vt.envs._tour import TourAdapter


class TSPAdapter(TourAdapter):
    name = "tsp"
    header = ("From Coq Require Import List ZArith Bool.\nFrom RL4CO Require Import Base.Num Base.EnvSig Env.TSP Harness.HTSP.\n"
              "Import ListNotations.\nOpen Scope Z_scope.\n")
    case_type = "tsp_case"
    props = {"C01": "check_C01", "C02": "check_C02", "C03": "check_C03", "C04": "check_C04", "C05": "check_C05", "C06": "check_C06"}
    sol_type = "(tsp_inst * tsp_obs) * list nat * bool"
    sol_fn = "check_C06_sol"
    reward_td = "reset"
    shard = 150
    obs_keys = ("first_node", "current_node", "i")
    tiny = 5
    # the same keys after EVERY step in C02 / C04 (Harness/HTSP.v, HATSP.v book_obs), also against their definition
    book_keys = (("i", "int"), ("current_node", "int"), ("first_node", "int"))
    book_fn = "check_book"
    book_type = "tsp_book"

    def variants(self, tier):
        # DenseRewardTSPEnv duplicates TSPEnv._step (same bookkeeping, plus a stepwise reward that is not part of
        # these properties); it is tied to the same model as a variant
        dense = [{"num_loc": n, "dense": True} for n in ([4] if tier == "quick" else [3, 7])]
        return [{"num_loc": n} for n in ([1, 2, 3, 5, 8] if tier == "quick" else [1, 2, 3, 4, 6, 10, 20])] + dense

    def make_env(self, variant):
        if variant.get("dense"):
            from rl4co.envs.routing.tsp.env import DenseRewardTSPEnv
            return DenseRewardTSPEnv(generator_params={"num_loc": variant["num_loc"]})
        from rl4co.envs import TSPEnv
        return TSPEnv(generator_params={"num_loc": variant["num_loc"]}, check_solution=False)

    # witness of the repaired checker defect (fix 5d5f57a): 3 nodes, [1, 0] never visits node 2
    witnesses = (({"num_loc": 3, "dense": None}, [1, 0], "witness:n=3,[1,0]"),)

    # witness of the repaired reward defect (fix aa30e65): three one-city instances in one batch
    ONE_CITY = [[[0.1, 0.2]], [[0.7, 0.9]], [[0.3, 0.3]]]

    def extra_items(self, ctx, pid, tier):
        from vt.envprops import Item
        if self.name != "tsp":
            return []
        variant = {"num_loc": 1}
        env = self.make_env(variant)
        td_b = TensorDict({"locs": torch.tensor(self.ONE_CITY, dtype=torch.float32)}, batch_size=[3])
        eps, td_reset, td_fin, actions = envh.rollout(env, td_b, ctx.rng, choosers=["uniform"] * 3, pad_steps=0, max_steps=4)
        envh.rewards_and_verdicts(env, td_fin, td_reset, actions, eps, self.reward_td)
        self.route_reward_crash(eps)
        meta = {"kind": "witness/three-one-city-instances"}
        ctx.count("tsp/witness/three-one-city-instances")
        return [Item(self, variant, env, td_b[r:r + 1].clone(), self.row_reset(td_reset, r, td_fin, meta), eps[r], dict(meta, chooser="uniform"),
                     "batch3@%d" % r) for r in range(3)]

    # ---------------------------------------------------------------- instances
    def instances(self, env, variant, rng, tier):
        n = variant["num_loc"]
        out = []
        k = 3 if tier == "quick" else 8
        torch.manual_seed(rng.randrange(1 << 30))
        td = env.generator(batch_size=[k])
        for r in range(k):
            out.append((td[r:r + 1].clone(), {"kind": "generator"}))
        # exact stream: integral point sets / 128 (all pairwise distances and all partial sums exact in float32)
        for rep in range(k):
            kind = rng.choice(["exact", "exact", "exact/dup"])
            if kind == "exact/dup" and n >= 2:
                base = envh.integral_coords(rng, max(1, n // 2))
                pts = [rng.choice(base) for _ in range(n)]
            else:
                pts = envh.integral_coords(rng, n)
            out.append((TensorDict({"locs": torch.tensor([pts], dtype=torch.float32)}, batch_size=[1]), {"kind": kind}))
        return out

    # ---------------------------------------------------------------- Coq encoding
    def dist_matrix(self, td_reset):
        locs = td_reset["locs"][0]
        from rl4co.utils.ops import get_distance
        return get_distance(locs[:, None, :], locs[None, :, :])

    def coq_instance(self, env, td_reset, variant):
        return "(mk_tsp %s %s)" % (self.matrix_term(self.dist_matrix(td_reset)), self.obs_term(td_reset))

    def reward_tol(self, env, td_reset, n_steps):
        if self.is_exact(td_reset):
            return Fraction(0)
        return Fraction(1e-6) * (n_steps + 2) * 2

    # ---------------------------------------------------------------- spec-level enumeration (C05)
    def feasible_solutions(self, env, td_reset, variant):
        """every visiting order of the n cities (problem definition: each city exactly once; any start)"""
        n = td_reset["locs"].shape[-2]
        return [tuple(p) for p in itertools.permutations(range(n))]

    # ---------------------------------------------------------------- single-fault corruptions (C06)
    def corruptions(self, rng, acts, n):
        acts = list(acts)
        L = len(acts)
        out = []
        if L >= 2:
            i, j = rng.sample(range(L), 2)
            b = list(acts); b[i], b[j] = b[j], b[i]; out.append(("swap(still a tour)", b))
            b = list(acts); b[i] = acts[j]; out.append(("duplicate+missing", b))
            out.append(("rotate(still a tour)", acts[1:] + acts[:1]))
            out.append(("reverse(still a tour)", acts[::-1]))
            i = rng.randrange(L)
            out.append(("delete-one", acts[:i] + acts[i + 1:]))
            if (n - 1) in acts:
                i = acts.index(n - 1)
                out.append(("delete-highest-index-node", acts[:i] + acts[i + 1:]))
            out.append(("truncate-last", acts[:-1]))
        if L >= 1:
            i = rng.randrange(L)
            b = list(acts); b.insert(i, acts[i]); out.append(("duplicate", b))
            b = list(acts); b[rng.randrange(L)] = n; out.append(("out-of-range", b))
        return out


ADAPTER = TSPAdapter()
