"""Adapter for MDCPDPEnv (properties C01-C05; the env ships no solution checker, so no C06).

The model (coq/theories/Env/MDCPDP.v) is parameterised by the set of repairs applied to the code; Harness/HMDCPDP.v's
`current_code` says which one the running code is compared with (`repaired` since the fix: commits of 2026-10-01).
The seven mechanisms found on the old code keep their signature strings (SIG_* below, recorded as fixed in
known_findings.json): their minimal witnesses are replayed on every run, first in the stream, and any failure on a
witness is reported under the old signature, so a defect that returns is named.
"""
from __future__ import annotations

from fractions import Fraction

import torch
from tensordict import TensorDict

from vt import envh
from vt.common import clist, cz, cnat, cbool, cnatlist, coq_eval_shards
from vt.envs._base import RoutingAdapter

MODES = {"minsum": 0, "minmax": 1, "lateness": 2, "lateness_square": 3}

# mechanism signatures (stable strings; the integrator lists them in known_findings.json or repairs the code)
SIG_ND = "mdcpdp/capacity-one-column,num_depot>1: depot-count-inferred-from-capacity-columns"
SIG_SWITCH = "mdcpdp/num_depot>1: current_depot-never-switches"
SIG_ROW0 = "mdcpdp/batched: every-row-accumulates-step-lengths-of-batch-row-0"
SIG_RET = "mdcpdp/close: final-return-leg-only-added-by-a-padding-step"
SIG_SQUARE = "mdcpdp/lateness_square: reward-mode-unreachable-raises-NotImplementedError"
SIG_RANDOM = "mdcpdp/start_mode=random: crash-on-first-step-when-start-depot-exceeds-capacity-columns"
SIG_RANDOM2 = "mdcpdp/start_mode=random: vehicle-leaves-depot-0-but-is-booked-on-the-random-start-depot"


class MDCPDPAdapter(RoutingAdapter):
    name = "mdcpdp"
    header = ("From Coq Require Import List ZArith Bool.\nFrom RL4CO Require Import Base.Num Base.EnvSig Env.MDCPDP Harness.HMDCPDP.\n"
              "Import ListNotations.\nOpen Scope Z_scope.\n")
    case_type = "md_case"
    # check_Cxx = check_Cxx_with current_code (Harness/HMDCPDP.v; current_code = as_is: the code as it is).  To try a patched
    # rl4co before flipping current_code: VT_MDCPDP_CODE=repaired (or a Coq term of type mdfix) selects the model to compare with.
    _code = __import__("os").environ.get("VT_MDCPDP_CODE", "").strip()
    if _code:
        props = {"C01": "(check_C01_with (%s))" % _code, "C02": "(check_C02_with (%s))" % _code, "C03": "(check_C03_with (%s))" % _code,
                 "C04": "(check_C02_with (%s))" % _code, "C05": "(check_C05_with (%s))" % _code}
    else:
        props = {"C01": "check_C01", "C02": "check_C02", "C03": "check_C03", "C04": "check_C02", "C05": "check_C05"}
    reward_td = "final"
    shard = 60
    tiny = 4
    # keys of the step output compared with the row model after every step in C02 / C04 (Harness/HMDCPDP.v book_obs);
    # i and current_node also against their definition (step count, last action)
    book_keys = (("i", "int"), ("current_node", "int"), ("current_depot", "int"), ("current_carry", "int"), ("available", "bits"),
                 ("to_deliver", "bits"), ("current_length", "fvec"), ("arrivetime_record", "fvec"))
    book_fn = "check_book" if not _code else "(check_book_with (%s))" % _code
    book_type = "md_book"

    # ---------------------------------------------------------------- variants
    def variants(self, tier):
        V = []

        def v(nl, nd, cols, mode="minsum", pm="close", dm="L2", sm="order"):
            V.append({"num_loc": nl, "num_depot": nd, "capacity_columns": cols, "reward_mode": mode,
                      "problem_mode": pm, "dist_mode": dm, "start_mode": sm})
        # single depot
        v(4, 1, "one", "minsum"); v(6, 1, "one", "lateness_square", "open"); v(2, 1, "one", "minmax", "close", "L1")
        # several depots, one capacity column per depot
        v(4, 2, "per_depot", "minmax"); v(4, 3, "per_depot", "lateness"); v(6, 2, "per_depot", "minsum", "open")
        # several depots, generator format (one capacity column), random start depot
        v(6, 2, "one", "lateness_square", "close", "L2", "random"); v(4, 3, "one", "lateness", "close", "L2", "random")
        if tier == "thorough":
            v(8, 1, "one", "lateness"); v(10, 1, "one", "minmax", "open", "L1"); v(8, 2, "per_depot", "lateness_square", "close", "L1")
            v(6, 4, "per_depot", "minsum", "close", "L2", "random"); v(10, 3, "per_depot", "minmax", "open"); v(8, 4, "one", "minmax")
            v(10, 5, "one", "lateness_square", "open", "L2", "random"); v(20, 5, "per_depot", "lateness")
        return V

    def variant_tag(self, variant):
        return "depots=%d,capacity=%s,%s,%s,%s%s" % (variant["num_depot"], variant["capacity_columns"], variant["reward_mode"],
                                                     variant["problem_mode"], variant["dist_mode"],
                                                     ",start=random" if variant.get("start_mode") == "random" else "")

    def make_env(self, variant):
        from rl4co.envs import MDCPDPEnv
        return MDCPDPEnv(generator_params={"num_loc": variant["num_loc"], "num_depot": variant["num_depot"],
                                           "min_capacity": 1, "max_capacity": 3,
                                           "min_lateness_weight": 0.25, "max_lateness_weight": 1.0},
                         reward_mode=variant["reward_mode"], problem_mode=variant["problem_mode"],
                         dist_mode=variant["dist_mode"], start_mode=variant.get("start_mode", "order"), check_solution=False)

    def max_steps(self, variant):
        return 3 * (variant["num_loc"] + 2 * variant["num_depot"]) + 8

    # ---------------------------------------------------------------- instances
    def instances(self, env, variant, rng, tier):
        nl, nd = variant["num_loc"], variant["num_depot"]
        out = []
        k = 2 if tier == "quick" else 3
        torch.manual_seed(rng.randrange(1 << 30))
        td = env.generator(batch_size=[k])
        if variant["capacity_columns"] == "per_depot":
            td["capacity"] = torch.randint(1, 4, (k, nd))
        for r in range(k):
            out.append((td[r:r + 1].clone(), {"kind": "generator"}))
        # exact stream: integral point sets (all distances exact in float32, both norms), capacities at the
        # boundary of every comparison: 1 (carry >= cap right after each pickup), h - 1, h (never binding), dyadic weights
        h = nl // 2
        for rep in range(k + 1):
            pts = envh.integral_coords(rng, nd + nl)
            if rep == k:                         # degenerate: all customers at the same point as depot 0
                pts = [pts[0]] * (nd + nl)
            kind = rng.choice(["cap1", "cap_h-1", "cap_h", "mixed"])
            def cap():
                return {"cap1": 1, "cap_h-1": max(1, h - 1), "cap_h": max(1, h), "mixed": rng.randint(1, max(1, h))}[kind]
            caps = [cap() for _ in range(nd)] if variant["capacity_columns"] == "per_depot" else [cap()]
            w = rng.choice([0.25, 0.5, 0.75, 1.0, 0.0])
            out.append((TensorDict({"locs": torch.tensor([pts[nd:]], dtype=torch.float32),
                                    "depot": torch.tensor([pts[:nd]], dtype=torch.float32),
                                    "capacity": torch.tensor([caps], dtype=torch.int64),
                                    "lateness_weight": torch.tensor([[w]], dtype=torch.float32)}, batch_size=[1]),
                        {"kind": "exact/" + kind + ("/degenerate" if rep == k else "")}))
        return out

    # ---------------------------------------------------------------- episodes (own collect: batched rows need row 0's legs)
    def dist_matrix(self, env, td_reset_row):
        """M[a][b] = distance between nodes a and b by the env's DOCUMENTED `dist_mode` (L1: |dx| + |dy|, L2: sqrt(dx^2 + dy^2)),
        computed here from td["locs"] with explicit float32 operations -- NOT through env.get_distance, so that the model
        does not inherit an edit of that function.  `dist_crosscheck` compares the two bit for bit."""
        locs = td_reset_row["locs"][0]
        d = (locs[None, :, :] - locs[:, None, :]).abs()
        dx, dy = d[..., 0], d[..., 1]
        if env.dist_mode == "L1":
            return dx + dy
        if env.dist_mode == "L2":
            # torch's 2-norm reduction, the float32 operation the env documents ("L2 norm"); the hand-written
            # sqrt(dx*dx + dy*dy) differs from it in the last bit on about half of all random pairs
            return d.norm(p=2, dim=-1)
        raise ValueError("undocumented dist_mode %r" % (env.dist_mode,))

    def dist_crosscheck(self, ctx, items, pid):
        """counted cross-check: the env's own get_distance, in the two tensor shapes the env calls it with ([N,N,2] broadcast
        and [B,2] pairs as in _step / _get_reward), against the independent matrix handed to the model -- bit for bit.
        A difference is a concrete failure of C03 (the reward is then not the documented L1 / L2 route length)."""
        seen = set()
        n_ok = n_bad = 0
        for it in items:
            key = (id(it.env), str(it.td_reset["locs"].tolist()))
            if key in seen:
                continue
            seen.add(key)
            env = it.env
            locs = it.td_reset["locs"][0]
            M = self.dist_matrix(env, it.td_reset)
            n = locs.shape[0]
            idx = torch.arange(n)
            pa, pb = idx.repeat_interleave(n), idx.repeat(n)
            try:
                E = env.get_distance(locs[:, None, :], locs[None, :, :])
                P = env.get_distance(locs[pa], locs[pb]).reshape(n, n)
                same = torch.equal(E, M) and torch.equal(P, M)
            except Exception as e:           # noqa: BLE001
                same, E = False, None
            if same:
                n_ok += 1
                continue
            n_bad += 1
            if pid == "C03" and n_bad == 1:
                a, b = (0, 0)
                if E is not None:
                    nz = (E != M).nonzero()
                    a, b = (int(nz[0, 0]), int(nz[0, 1])) if len(nz) else (0, 0)
                ctx.failure("mdcpdp/dist_mode=%s: get_distance-is-not-the-documented-norm" % env.dist_mode,
                            it.replay({"what": "env.get_distance(locs[a], locs[b]) differs from the documented %s distance of the two points" % env.dist_mode,
                                       "node_a": a, "node_b": b, "loc_a": locs[a].tolist(), "loc_b": locs[b].tolist(),
                                       "env_get_distance": None if E is None else float(E[a, b]),
                                       "documented_distance": float(M[a, b])}), tag=self.name)
        ctx.count("%s/distance_crosscheck/instances_agreeing_bitwise" % self.name, n_ok)
        ctx.count("%s/distance_crosscheck/instances_differing" % self.name, n_bad)
        return {"distance_crosscheck": {"agree": n_ok, "differ": n_bad}}

    def _annotate(self, env, td_reset, actions, r):
        """td_reset row r + what the model needs to know about the batch: is the row alone / row 0, else row 0's raw legs"""
        row = td_reset[r:r + 1].clone()
        B = td_reset.batch_size[0]
        solo = (B == 1 or r == 0)
        row.set("vt_solo", torch.tensor([[1 if solo else 0]], dtype=torch.int64))
        if not solo:
            D0 = self.dist_matrix(env, td_reset[0:1])
            prev = 0
            legs = []
            for a in actions[0].tolist():
                legs.append(float(D0[prev, a]))
                prev = a
            row.set("vt_legs0", torch.tensor([legs], dtype=torch.float32))
        return row

    def collect(self, ctx, pid, tier, scale=1.0):
        from vt.envprops import Item
        rng = ctx.rng
        items = self.witness_items(ctx)          # the minimal replays of the known mechanisms come first
        for variant in self.variants(tier):
            env = self.make_env(variant)
            insts = self.instances(env, variant, rng, tier)
            vtag = self.variant_tag(variant)
            for td_in, meta in insts:
                for ch in self.choosers(tier):
                    eps, td_reset, td_fin, actions = envh.rollout(env, td_in, rng, choosers=[ch], pad_steps=rng.choice([0, 0, 1, 3]),
                                                                  max_steps=self.max_steps(variant))
                    envh.rewards_and_verdicts(env, td_fin, td_reset, actions, eps, self.reward_td)
                    items.append(Item(self, variant, env, td_in, self._annotate(env, td_reset, actions, 0), eps[0],
                                      dict(meta, chooser=ch), "solo"))
                    ctx.count("%s/%s/solo_episodes" % (self.name, vtag))
            for rep in range(2 if tier == "quick" else 4):
                k = min(len(insts), rng.choice([2, 3, 5]))
                sel = [rng.choice(insts) for _ in range(k)]
                td_b = torch.cat([t for t, _ in sel], 0)
                chs = [rng.choice(self.choosers(tier)) for _ in sel]
                eps, td_reset, td_fin, actions = envh.rollout(env, td_b, rng, choosers=chs, pad_steps=rng.choice([0, 2]),
                                                              max_steps=self.max_steps(variant))
                envh.rewards_and_verdicts(env, td_fin, td_reset, actions, eps, self.reward_td)
                for r, (t, meta) in enumerate(sel):
                    items.append(Item(self, variant, env, t, self._annotate(env, td_reset, actions, r), eps[r],
                                      dict(meta, chooser=chs[r], batch_instances=None), "batch%d@%d" % (k, r)))
                    ctx.count("%s/%s/batched_rows" % (self.name, vtag))
        return items

    def choosers(self, tier):
        return ["uniform", "depot_first", "depot_last", "high"] if tier == "thorough" else \
               ["uniform", "depot_first", "high"]

    # ---------------------------------------------------------------- Coq encoding
    def coq_instance(self, env, td_reset, variant):
        nd = env.generator.num_depot
        nl = env.generator.num_loc
        caps = [int(c) for c in td_reset["capacity"][0].tolist()]
        solo = True
        legs = []
        if "vt_solo" in td_reset.keys():
            solo = bool(int(td_reset["vt_solo"][0, 0]))
            if not solo:
                legs = td_reset["vt_legs0"][0].tolist()
        return "(mk_md %s %s %s %s %s %s %s %s %s %s %s)" % (
            cnat(nd), cnat(nl), clist(cz(c) for c in caps), envh.zmatrix(self.dist_matrix(env, td_reset)),
            cnat(int(td_reset["current_depot"][0, 0])), cbool(env.problem_mode == "open"), cnat(MODES[env.reward_mode]),
            cz(1 << envh.S64), cz(envh.zs(td_reset["lateness_weight"][0, 0])), cbool(solo), clist(cz(envh.zs(v)) for v in legs))

    def reward_close(self, a, b):
        if a is None or b is None:
            return a is None and b is None
        return abs(a - b) <= 1e-6 * (1.0 + abs(b))

    def reward_tol(self, env, td_reset, n_steps):
        return Fraction(1e-6) * (n_steps + 2) * (n_steps + 2)

    # ---------------------------------------------------------------- witnesses of the known mechanisms (run first, every time)
    @staticmethod
    def _line_td(nd, xs, caps, w=1.0):
        pts = [[x / 16.0, 0.25] for x in xs]
        return TensorDict({"locs": torch.tensor([pts[nd:]], dtype=torch.float32), "depot": torch.tensor([pts[:nd]], dtype=torch.float32),
                           "capacity": torch.tensor([caps], dtype=torch.int64),
                           "lateness_weight": torch.tensor([[w]], dtype=torch.float32)}, batch_size=[1])

    def witnesses(self):
        """(name, variant, td_in, actions, pad steps): the instances of the `_refuted` theorems of Env/MDCPDPRefuted.v"""
        V = lambda nl, nd, cols, mode="minsum": {"num_loc": nl, "num_depot": nd, "capacity_columns": cols, "reward_mode": mode,
                                                 "problem_mode": "close", "dist_mode": "L2"}
        return [
            ("depot_count", V(6, 2, "one"), self._line_td(2, [0, 10, 1, 2, 3, 4, 5, 6], [2]), [0, 2, 5, 3, 6, 4, 1, 7], 0),
            ("capacity_of_start_depot", V(4, 2, "per_depot"), self._line_td(2, [0, 10, 1, 2, 3, 4], [2, 1]), [0, 0, 1, 2, 3, 4, 5], 0),
            ("wrong_home_depot", V(2, 3, "per_depot"), self._line_td(3, [0, 5, 10, 1, 2], [1, 1, 1]), [0, 0, 1, 3, 4, 0, 2], 0),
            ("return_leg", V(2, 1, "one"), self._line_td(1, [0, 3, 7], [1]), [0, 1, 2], 0),
            ("minmax_on_start_depot", V(4, 2, "per_depot", "minmax"), self._line_td(2, [0, 10, 1, 9, 2, 8], [1, 1]), [0, 2, 4, 0, 1, 3, 5], 1),
        ]

    def witness_items(self, ctx):
        from vt.envprops import Item
        items = []
        for name, variant, td_in, acts, pads in self.witnesses():
            env = self.make_env(variant)
            eps, td_reset, td_fin, actions = envh.rollout(env, td_in, ctx.rng, choosers=["low"], forced=[acts], pad_steps=pads,
                                                          max_steps=len(acts) + pads)
            ok = len(eps[0].steps) >= len(acts) and all(m[a] for (m, a, _), _ in zip(eps[0].steps, acts)) and eps[0].actions[:len(acts)] == acts
            ctx.count("%s/witness/%s/%s" % (self.name, name, "admitted" if ok else "no-longer-admitted"))
            if not ok:
                continue
            envh.rewards_and_verdicts(env, td_fin, td_reset, actions, eps, self.reward_td)
            items.append(Item(self, variant, env, td_in, self._annotate(env, td_reset, actions, 0), eps[0], {"kind": "witness/" + name}, "solo"))
        # the batched witness: the return-leg instance as row 1 next to a far-away row 0 (one padding step, so only row 0's legs matter)
        name, variant, td_in, acts, _ = self.witnesses()[3]
        env = self.make_env(variant)
        far = self._line_td(1, [0, 15, 1], [1])
        td_b = torch.cat([far, td_in], 0)
        eps, td_reset, td_fin, actions = envh.rollout(env, td_b, ctx.rng, choosers=["low", "low"], forced=[acts, acts], pad_steps=1, max_steps=len(acts) + 1)
        if len(eps[1].steps) >= len(acts) and eps[1].actions[:len(acts)] == acts:
            envh.rewards_and_verdicts(env, td_fin, td_reset, actions, eps, self.reward_td)
            items.append(Item(self, variant, env, td_in, self._annotate(env, td_reset, actions, 1), eps[1], {"kind": "witness/row0_lengths"}, "batch2@1"))
            ctx.count("%s/witness/row0_lengths/admitted" % self.name)
        return items

    # ---------------------------------------------------------------- C01: start_mode="random" with one capacity column per depot
    def extra_c01(self, ctx, tier, items):
        from rl4co.envs import MDCPDPEnv
        from vt.envprops import Item
        out = dict(self._wf_counts(ctx, items))
        env = MDCPDPEnv(generator_params={"num_loc": 2, "num_depot": 2}, start_mode="random", check_solution=False)
        td_in = self._line_td(2, [0, 10, 1, 2], [1, 1])
        torch.manual_seed(ctx.rng.randrange(1 << 30))
        acts = [0, 2, 3, 1]
        for _ in range(20):
            eps, td_reset, td_fin, actions = envh.rollout(env, td_in, ctx.rng, choosers=["low"], forced=[acts], pad_steps=0, max_steps=len(acts))
            if int(td_reset["current_depot"][0, 0]) == 1:
                break
        else:
            return out
        ok = eps[0].actions == acts and all(m[a] for m, a, _ in eps[0].steps) and eps[0].complete
        out["random_start_witness_admitted"] = ok
        if not ok:
            return out
        envh.rewards_and_verdicts(env, td_fin, td_reset, actions, eps, self.reward_td)
        variant = {"num_loc": 2, "num_depot": 2, "capacity_columns": "per_depot", "reward_mode": "lateness", "problem_mode": "close",
                   "dist_mode": "L2", "start_mode": "random"}
        it = Item(self, variant, env, td_in, self._annotate(env, td_reset, actions, 0), eps[0], {"kind": "witness/random_start"}, "solo")
        from vt.envprops import case_of
        code = coq_eval_shards("cases_C01_%s_random" % self.name, self.header, self.case_type, self.props["C01"], [case_of(it)], shard=10)[0]
        out["random_start_witness_code"] = code
        if code % 1000 == 6:
            ctx.failure(SIG_RANDOM2, it.replay({"code": code, "start_depot": 1, "current_length": td_fin["current_length"].tolist(),
                                                "what": "admitted finished episode 0,2,3,1: the vehicle leaves depot 0, the length is booked on depot 1, "
                                                        "depot 1 is visited while vehicle 0 is on the road: not a set of depot-to-same-depot routes"}), tag=self.name)
        elif code:
            ctx.broken.append("correspondence C01/mdcpdp (start_mode=random witness): code %d" % code)
        return out

    # ---------------------------------------------------------------- C02: start_mode="random"
    def extra_c02(self, ctx, tier, items):
        from rl4co.envs import MDCPDPEnv
        out = {}
        env = MDCPDPEnv(generator_params={"num_loc": 4, "num_depot": 3}, start_mode="random", check_solution=False)
        torch.manual_seed(ctx.rng.randrange(1 << 30))
        crashes = tried = 0
        for _ in range(12):
            td = env.reset(batch_size=[1])
            r = int(td["current_depot"][0, 0])
            inst = {k: td[k] for k in ("locs", "capacity", "lateness_weight")}
            mask = td["action_mask"][0].tolist()
            tried += 1
            td.set("action", torch.tensor([0]))
            try:
                env.step(td)
            except Exception as e:
                crashes += 1
                ctx.failure(SIG_RANDOM, {"env": self.name, "kwargs": {"start_mode": "random", "num_loc": 4, "num_depot": 3},
                                         "start_depot": r, "mask_at_reset": mask, "action": 0, "capacity_shape": list(inst["capacity"].shape),
                                         "crash": "%s: %s" % (type(e).__name__, str(e)[:200]),
                                         "what": "the only offered action crashes: capacity.gather(-1, current_depot) with current_depot >= capacity columns"}, tag=self.name)
        out["random_start_resets"] = tried
        out["random_start_crashes"] = crashes
        out.update(self._wf_counts(ctx, items))
        return out

    def _wf_counts(self, ctx, items):
        cases, seen = [], set()
        for it in items:
            key = str(sorted((k, it.td_in[k].reshape(-1).tolist()) for k in it.td_in.keys()))
            if key in seen:
                continue
            seen.add(key)
            try:
                cases.append("(%s, [], [], (0, 0), false, false)" % self.coq_instance(it.env, it.td_reset, it.variant))
            except ValueError:
                pass
        if not cases:
            return {}
        codes = coq_eval_shards("cases_wf_%s" % self.name, self.header, self.case_type, "check_wf", cases, shard=200)
        res = {"instances": len(codes), "outside_wf": sum(1 for c in codes if c & 1), "not_solvable": sum(1 for c in codes if c & 2)}
        for k, v in res.items():
            ctx.count("%s/instance_classes/%s" % (self.name, k), v)
        return {"instance_classes": res}

    # ---------------------------------------------------------------- C03: the unreachable mode
    def extra_c03(self, ctx, tier, items):
        out = self.dist_crosscheck(ctx, items, "C03")
        out.update(self._extra_c03_square(ctx, tier, items) or {})
        return out

    def _extra_c03_square(self, ctx, tier, items):
        from rl4co.envs import MDCPDPEnv
        env = MDCPDPEnv(generator_params={"num_loc": 2, "num_depot": 1}, reward_mode="lateness_square", check_solution=False)
        td_in = self._line_td(1, [0, 3, 7], [1])
        eps, td_reset, td_fin, actions = envh.rollout(env, td_in, ctx.rng, choosers=["low"], forced=[[0, 1, 2]], pad_steps=1, max_steps=5)
        try:
            r = env.get_reward(td_fin, actions)
            return {"lateness_square": "returns %r" % (r.tolist(),)}
        except NotImplementedError as e:
            ctx.failure(SIG_SQUARE, {"env": self.name, "kwargs": {"reward_mode": "lateness_square", "num_loc": 2, "num_depot": 1},
                                     "actions": actions.tolist(), "raised": "NotImplementedError: " + str(e)[:200],
                                     "what": "documented reward mode accepted by the constructor; get_reward raises for every finished episode"}, tag=self.name)
            return {"lateness_square": "raises NotImplementedError"}

    # ---------------------------------------------------------------- C04: padding and batch differentials, one mechanism each
    def extra_c04(self, ctx, tier, items):
        rng = ctx.rng
        solo = [it for it in items if it.batch == "solo" and it.ep.complete]
        rng.shuffle(solo)
        solo.sort(key=lambda it: 0 if it.meta.get("kind") == "witness/return_leg" else 1)     # the minimal replay first
        n_pad = n_pad_bad = n_b = n_b_bad = n_other = 0
        for it in solo[: (40 if tier == "quick" else 200)]:
            env = it.env
            k_done = next(k for k, (_, _, d) in enumerate(it.ep.steps) if d) + 1
            base = it.ep.steps[:k_done]
            acts = [a for _, a, _ in base]

            def run(td_b, forced, pads):
                eps, td_reset, td_fin, actions = envh.rollout(env, td_b, rng, choosers=["depot_last"] * td_b.batch_size[0], forced=forced,
                                                              pad_steps=pads, max_steps=self.max_steps(it.variant))
                envh.rewards_and_verdicts(env, td_fin, td_reset, actions, eps, self.reward_td)
                return eps, actions
            # (a) padding: the same row, alone, with 0 / 1 / 3 steps after it finished
            e0, _ = run(it.td_in, [acts], 0)
            e1, _ = run(it.td_in, [acts], 1)
            e3, _ = run(it.td_in, [acts], 3)
            n_pad += 1
            ctx.count("%s/c04_padding_comparisons" % self.name)
            if not (e0[0].steps[:k_done] == base and e1[0].steps[:k_done] == base and e3[0].steps[:k_done] == base):
                n_other += 1
                ctx.failure(self.signature(it, 17, 0), it.replay({"what": "masks/done of a solo re-run differ from the first run"}), tag=self.name)
                continue
            if not all(d for _, _, d in e3[0].steps[k_done:]):
                n_other += 1
                ctx.failure(self.signature(it, 9, 0), it.replay({"what": "row became unfinished during padding"}), tag=self.name)
            if not (self.reward_close(e0[0].reward, e1[0].reward) and self.reward_close(e1[0].reward, e3[0].reward)):
                n_pad_bad += 1
                ctx.failure(SIG_RET, it.replay({"what": "reward depends on the number of steps taken after the row finished",
                                                "actions": acts, "reward_0_padding_steps": e0[0].reward, "reward_1_padding_step": e1[0].reward,
                                                "reward_3_padding_steps": e3[0].reward}), tag=self.name)
            # (b) batch: the row at positions 0 and 1 next to a stranger of the same shape, same actions, one padding step at least
            mates = [o for o in solo if o is not it and id(o.env) == id(env) and o.td_in["capacity"].shape == it.td_in["capacity"].shape]
            if not mates:
                continue
            mate = rng.choice(mates)
            for pos in (0, 1):
                rows = [it.td_in, mate.td_in] if pos == 0 else [mate.td_in, it.td_in]
                forced = [acts, []] if pos == 0 else [[], acts]
                eb, actions = run(torch.cat(rows, 0), forced, 1)
                e = eb[pos]
                n_b += 1
                ctx.count("%s/c04_batch_comparisons" % self.name)
                if e.steps[:k_done] != base:
                    n_other += 1
                    ctx.failure(self.signature(it, 17, 0), it.replay({"what": "masks/done in the batch differ from the solo run", "position": pos,
                                                                     "batch_actions": actions.tolist()}), tag=self.name)
                elif not self.reward_close(e.reward, e1[0].reward):
                    n_b_bad += 1
                    from vt.envprops import hexrow
                    ctx.failure(SIG_ROW0 if pos != 0 else self.signature(it, 17, 0),
                                it.replay({"what": "same instance, same actions, at least one padding step in both runs: reward in the batch differs from the solo reward",
                                           "position": pos, "solo_reward": e1[0].reward, "batch_reward": e.reward,
                                           "batch_instances": [hexrow(t) for t in rows], "batch_actions": actions.tolist()}), tag=self.name)
        out = {"c04_padding_comparisons": n_pad, "c04_padding_differences": n_pad_bad, "c04_batch_comparisons": n_b,
               "c04_batch_differences": n_b_bad, "c04_other_differences": n_other}
        out.update(self.dist_crosscheck(ctx, items, "C04"))
        return out

    # ---------------------------------------------------------------- C05: spec-level enumeration
    def feasible_solutions(self, env, td_reset, variant):
        """all solutions of a tiny instance from the PROBLEM DEFINITION, in the library's encoding with the documented
        conventions (the first vehicle is depot 0's; every vehicle drives exactly one, possibly empty, route; the return of the
        last vehicle is implied).  Independent of any mask."""
        import itertools
        nd, nl = env.generator.num_depot, env.generator.num_loc
        h = nl // 2
        caps = [int(c) for c in td_reset["capacity"][0].tolist()]
        vcap = (lambda e: caps[0]) if len(caps) == 1 else (lambda e: caps[e])
        picks = list(range(nd, nd + h))

        def routes_of(cset, cap):
            """all orders of the customers of the pairs in cset (pickup before delivery, load <= cap)"""
            out = []

            def rec(seq, pending, left, load):
                if not pending and not left:
                    out.append(tuple(seq))
                    return
                for q in sorted(left):
                    if load + 1 <= cap:
                        rec(seq + [q], pending | {q}, left - {q}, load + 1)
                for q in sorted(pending):
                    rec(seq + [q + h], pending - {q}, left, load - 1)
            rec([], frozenset(), frozenset(cset), 0)
            return out

        sols = []
        for order in itertools.permutations(range(1, nd)):
            depots = (0,) + order
            # assign each pair to a vehicle
            for assign in itertools.product(range(nd), repeat=h):
                per = [[picks[k] for k in range(h) if assign[k] == v] for v in range(nd)]
                choices = [routes_of(per[depots[v]], vcap(depots[v])) for v in range(nd)]
                if any(not c for c in choices):
                    continue
                for combo in itertools.product(*choices):
                    seq = []
                    for v, r in enumerate(combo):
                        seq += [depots[v]] + list(r)
                        if v < nd - 1:
                            seq += [depots[v]]
                    sols.append(tuple(seq))
        return sols

    def strip(self, seq):
        return tuple(seq)

    def extra_c05(self, ctx, tier, items):
        # one tiny instance of every variant before a second one of any (the base class stops after a fixed number of instances)
        by_variant = {}
        for it in items:
            if it.batch == "solo" and not it.meta.get("kind", "").startswith("witness"):
                by_variant.setdefault(self.variant_tag(it.variant), []).append(it)
        order = []
        depth = 0
        while any(len(v) > depth for v in by_variant.values()):
            for k in sorted(by_variant):
                if len(by_variant[k]) > depth:
                    order.append(by_variant[k][depth])
            depth += len(self.choosers(tier))     # items of one instance are consecutive (one per chooser): next instance
        return super().extra_c05(ctx, tier, order)

    # ---------------------------------------------------------------- signatures
    WITNESS_SIG = {"depot_count": SIG_ND, "capacity_of_start_depot": SIG_SWITCH, "wrong_home_depot": SIG_SWITCH,
                   "return_leg": SIG_RET, "minmax_on_start_depot": SIG_SWITCH, "row0_lengths": SIG_ROW0, "random_start": SIG_RANDOM2}

    def signature(self, item, tag, step):
        from vt.envprops import CONCRETE
        kind = (item.meta or {}).get("kind", "")
        if kind.startswith("witness/") and kind.split("/", 1)[1] in self.WITNESS_SIG:
            return self.WITNESS_SIG[kind.split("/", 1)[1]]       # a repaired defect is back: name it as before
        if tag == 6 and step == 1:
            return SIG_ND
        if tag == 6 and step == 2:
            return SIG_SWITCH
        if tag == 4 and step:
            if step & 4:
                return SIG_SWITCH
            if step & 2:
                return SIG_ROW0
            return SIG_RET
        return "%s/%s: %s" % (self.name, self.variant_tag(item.variant), CONCRETE.get(tag, "tag%d" % tag))


ADAPTER = MDCPDPAdapter()
