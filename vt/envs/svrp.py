"""Adapter for SVRPEnv (properties C01-C06).

Instance streams: generator output; exact-grid instances (integral point sets /128, skills k/64) in which customer
requirements meet technician skills with equality, one grid unit below and one above (the comparison site
`skills <= current_tech_skill` of get_action_mask and of check_solution_validity); degenerate ones (1 customer, all
technicians equal, lowest technician able to serve nothing / everything, all customers on one point).  All generated
instances are solvable (the last technician can serve everybody), which is what the generator guarantees.

Variants: the number of technicians m = len(tech_costs): 3 (the default [1, 2, 3], tag "default"), 1, 2, 4.

A raise inside env.step is recorded by vt/envh.py as Episode.crash; the Coq side is told through an empty final
mask (see Harness/HSVRP.v) so that the model's `stepok = false` can be compared with it."""
from __future__ import annotations

import itertools
from fractions import Fraction

import torch
from tensordict import TensorDict

from vt import envh
from vt.common import clist, cz
from vt.envs._base import RoutingAdapter


class SVRPAdapter(RoutingAdapter):
    name = "svrp"
    header = ("From Coq Require Import List ZArith Bool.\nFrom RL4CO Require Import Base.Num Base.EnvSig Env.SVRP Harness.HSVRP.\n"
              "Import ListNotations.\nOpen Scope Z_scope.\n")
    case_type = "svrp_case"
    props = {"C01": "check_C01", "C02": "check_C02", "C03": "check_C03", "C04": "check_C02", "C05": "check_C05", "C06": "check_C06"}
    sol_type = "svrp_inst * list nat * bool"
    sol_fn = "check_C06_sol"
    reward_td = "reset"
    shard = 150
    tiny = 3
    # keys of the step output compared with the row model after every step in C02 / C04 (Harness/HSVRP.v book_obs)
    book_keys = (("current_node", "int"), ("current_tech", "int"), ("visited", "bits"))
    book_fn = "check_book"
    book_type = "svrp_book"
    _defer_batches = True        # one batched-checker stage for the corrupted and the hand-built lists together (extra_c06)

    def variants(self, tier):
        if tier == "quick":
            return [{"num_loc": 1}, {"num_loc": 3}, {"num_loc": 6}, {"num_loc": 3, "m": 2}, {"num_loc": 4, "m": 1}, {"num_loc": 4, "m": 4}]
        return ([{"num_loc": n} for n in (1, 2, 3, 4, 6, 10, 20)] +
                [{"num_loc": n, "m": m} for m in (1, 2, 4) for n in (2, 4, 7)])

    @staticmethod
    def tech_costs(variant):
        m = variant.get("m", 3)
        return list(range(1, m + 1))

    def make_env(self, variant):
        from rl4co.envs import SVRPEnv
        gp = {"num_loc": variant["num_loc"]}
        if "m" in variant:
            gp["tech_costs"] = self.tech_costs(variant)
        return SVRPEnv(generator_params=gp, check_solution=False)

    def variant_tag(self, variant):
        # the number of technicians matters to the mechanisms only through "one" vs "several"
        return "m=1" if variant.get("m", 3) == 1 else "default"

    def max_steps(self, variant):
        return 2 * (variant["num_loc"] + variant.get("m", 3)) + 8

    def signature(self, item, tag, step):
        """mechanism names: the generic ones of vt/envprops.py, refined where the cause can be read off the failing input
        itself from the problem definition, so that a recorded finding cannot hide a different failure of the same kind"""
        # a raise inside env.step shows up in the C04 differential as a truncated / unfinished row: same mechanism
        if tag == 17 and getattr(item.ep, "crash", None):
            tag = 18
        sig = super().signature(item, tag, step)
        try:
            if tag == 16 and getattr(self, "_c05_mode", "") == "idle":
                sig += "(idle-technician)"
            elif tag in (14, 15):
                techs = [Fraction(float(v)) for v in item.td_reset["techs"][0].reshape(-1).tolist()]
                skills = [Fraction(float(v)) for v in item.td_reset["skills"][0].reshape(-1).tolist()]
                acts = list(item.ep.actions)
                n, m = len(skills), len(techs)
                zeros = sum(1 for a in acts if a == 0)
                if tag == 14 and zeros > m:
                    sig += "(more-depot-visits-than-technicians)"
                if tag == 15 and sorted(a for a in acts if a) == list(range(1, n + 1)):
                    k, bad = 0, set()
                    for a in acts:
                        if a == 0:
                            k += 1
                        elif k >= m or skills[a - 1] > techs[k]:
                            bad.add(k)
                    if bad == {zeros}:
                        sig += "(unchecked-last-route)"
                    elif bad and min(bad) >= m:
                        # every offending route comes after m depot visits: the checker clamps the technician index
                        # to the last technician instead of refusing a route that no technician is left to drive
                        sig += "(route-after-the-last-technician)"
        except Exception:
            pass
        return sig

    # ---------------------------------------------------------------- instances
    KINDS = ["eq", "eq", "eq+1", "eq-1", "equal_techs", "low_none", "low_all", "dup", "random64"]

    def instances(self, env, variant, rng, tier):
        n, m = variant["num_loc"], variant.get("m", 3)
        out = []
        k = 3 if tier == "quick" else 8
        torch.manual_seed(rng.randrange(1 << 30))
        td = env.generator(batch_size=[k])
        for r in range(k):
            out.append((td[r:r + 1].clone(), {"kind": "generator"}))
        kinds = list(self.KINDS)
        rng.shuffle(kinds)
        for kind in kinds[: (5 if tier == "quick" else len(kinds))]:
            out.append(self.exact_instance(rng, n, m, kind))
        return out

    def exact_instance(self, rng, n, m, kind):
        if kind == "dup":
            p0 = envh.integral_coords(rng, 2)
            pts = [p0[0]] + [p0[1]] * n
        else:
            pts = envh.integral_coords(rng, n + 1)
        # technician skills in 1/64 units, ascending (as the generator delivers them), between 1.0 and 10.0
        if kind == "equal_techs":
            techs = [rng.randint(64, 640)] * m
        else:
            techs = sorted(rng.randint(64, 640) for _ in range(m))
        top = techs[-1]
        delta = -1 if kind.endswith("-1") else (1 if kind.endswith("+1") else 0)
        skills = []
        for j in range(n):
            if kind.startswith("eq"):
                k = rng.randrange(m)
                s = techs[k] + (delta if rng.random() < 0.7 else 0)
                s = min(s, top)                      # stay solvable
            elif kind == "low_none":
                s = rng.randint(min(techs[0] + 1, top), top)
            elif kind == "low_all":
                s = rng.randint(1, techs[0])
            else:
                s = rng.randint(1, top)
            skills.append(max(1, s))
        td = TensorDict({"locs": torch.tensor([pts[1:]], dtype=torch.float32),
                         "depot": torch.tensor([pts[0]], dtype=torch.float32),
                         "techs": torch.tensor([[[v / 64.0] for v in techs]], dtype=torch.float32),
                         "skills": torch.tensor([[[v / 64.0] for v in skills]], dtype=torch.float32)}, batch_size=[1])
        return td, {"kind": "exact/" + kind}

    # ---------------------------------------------------------------- collection with raise bookkeeping
    def collect(self, ctx, pid, tier):
        from vt.envprops import collect
        self._pid = pid
        items = collect(self, ctx, tier)
        for it in items:
            self.mark_crash(ctx, it)
        return items

    def mark_crash(self, ctx, it):
        ep = it.ep
        if not ep.crash or ep.crash.startswith("reward:"):
            return
        if it.batch == "solo":
            ep.final_mask = []                 # the flag read by Harness/HSVRP.v: env.step raised inside the last recorded step
            ctx.count("%s/%s/solo_episodes_ending_in_a_raise" % (self.name, self.variant_tag(it.variant)))
        else:
            # which row of the batch caused the raise is not observable: Harness/HSVRP.v does not compare the last step
            ctx.count("%s/%s/batched_rows_stopped_by_a_raise" % (self.name, self.variant_tag(it.variant)))

    # ---------------------------------------------------------------- Coq encoding
    def dist_matrix(self, td_reset):
        locs = td_reset["locs"][0]
        from rl4co.utils.ops import get_distance
        return get_distance(locs[:, None, :], locs[None, :, :])

    def coq_instance(self, env, td_reset, variant):
        zl = lambda t: clist(cz(envh.zs(v)) for v in t.reshape(-1).tolist())
        costs = env.tech_costs.tolist()
        if any(int(c) != c for c in costs):
            raise ValueError("non-integral tech_costs")
        return "(mk_svrp %s %s %s %s)" % (
            zl(td_reset["techs"][0]), zl(td_reset["skills"][0]), clist(cz(int(c)) for c in costs),
            envh.zmatrix(self.dist_matrix(td_reset)) if getattr(self, "_pid", "C03") == "C03" else "[]")

    def reward_tol(self, env, td_reset, n_steps):
        return Fraction(1e-6) * (n_steps + 2) * 2 * max(1, int(env.tech_costs.max()))

    # ---------------------------------------------------------------- spec-level enumeration (C05)
    def feasible_solutions(self, env, td_reset, variant):
        """every SVRP solution of a tiny instance from the PROBLEM DEFINITION (exact rationals): each customer is
        assigned to one technician whose skill is at least the requirement, each technician's customers are ordered
        into one route (possibly empty: the technician stays at home).  Encoding: routes of technicians 0, 1, ...
        up to the last non-empty one, separated by one depot visit; a closing depot visit when only technician 0 drives.

        self._c05_mode selects a part of them: "canonical" = those respecting the pruning documented in
        get_action_mask (a technician stays at home only when none of the customers still waiting is within his
        skill), "idle" = the others, "all" = both."""
        techs = [Fraction(float(v)) for v in td_reset["techs"][0].reshape(-1).tolist()]
        skills = [Fraction(float(v)) for v in td_reset["skills"][0].reshape(-1).tolist()]
        n, m = len(skills), len(techs)
        mode = getattr(self, "_c05_mode", "all")
        sols = set()
        for assign in itertools.product(range(m), repeat=n):
            if any(skills[j] > techs[assign[j]] for j in range(n)):
                continue
            groups = [[j + 1 for j in range(n) if assign[j] == k] for k in range(m)]
            last = max(k for k in range(m) if groups[k])
            canonical = all(groups[k] or all(skills[j - 1] > techs[k] for q in range(k + 1, last + 1) for j in groups[q])
                            for k in range(last))
            if (mode == "canonical" and not canonical) or (mode == "idle" and canonical):
                continue
            for orders in itertools.product(*[list(itertools.permutations(g)) for g in groups[: last + 1]]):
                seq = []
                for k, r in enumerate(orders):
                    if k:
                        seq.append(0)
                    seq += list(r)
                if last == 0:
                    seq.append(0)
                sols.add(tuple(seq))
        return sorted(sols)

    def strip(self, seq):
        # trailing depot visits are padding / the closing visit; interior ones switch technicians and are kept
        return super().strip(seq)

    def extra_c05(self, ctx, tier, items):
        def rank(it):
            n = it.variant.get("num_loc", 99)
            kind = it.meta.get("kind", "")
            # instances whose requirements EQUAL a technician's skill first: they pin the `<=` of the mask
            return (0 if n >= 2 else 1, 0 if kind in ("exact/eq", "exact/equal_techs") else (1 if kind.startswith("exact/") else 2))
        order = sorted(range(len(items)), key=lambda k: (rank(items[k]), ctx.rng.random()))
        # one instance per call so that a raise inside the exhaustive expansion (env.step on an offered action)
        # loses that instance only; the raise itself is C02's business
        limit = self.tiny if tier == "quick" else self.tiny + 1
        budget = 6 if tier == "quick" else 20
        seen, total = set(), {}
        for k in order:
            it = items[k]
            if it.batch != "solo" or it.variant.get("num_loc", 99) > limit:
                continue
            key = (str(it.variant), str(sorted((q, it.td_in[q].reshape(-1).tolist()) for q in it.td_in.keys())))
            if key in seen:
                continue
            if len(seen) >= budget:
                break
            seen.add(key)
            for mode in ("canonical", "idle"):
                self._c05_mode = mode
                try:
                    res = super().extra_c05(ctx, tier, [it])
                except Exception as e:
                    ctx.count("%s/c05_expansion_raised" % self.name)
                    res = {"c05_expansion_raised": 1}
                finally:
                    self._c05_mode = "all"
                for q, v in (res or {}).items():
                    total["%s[%s]" % (q, mode)] = total.get("%s[%s]" % (q, mode), 0) + v
        return total

    # ---------------------------------------------------------------- C06: hand-built lists with ONE unmet skill, placed by route
    def extra_c06(self, ctx, tier, items):
        """the generic single-fault corruptions and batches (vt/envs/_base.py), then hand-built lists in which exactly one
        customer x is served by a technician k whose skill is too low -- `[0]*k + [x] + [0]*(m-1-k) + everybody else`
        (the others ride with the last technician, who can serve everybody), k = 0 .. m-2, open and closed -- alone and as
        rows (index 0, >= 1) of batches next to valid rows of other instances: the fault sits right after an early depot
        visit, i.e. where a checker loop that confuses batch row and position would not look"""
        from vt.envs import _handsol
        out = super().extra_c06(ctx, tier, items) or {}
        rng = ctx.rng
        triples, seen = [], set()
        for it in items:
            if it.batch != "solo" or not it.ep.complete:
                continue
            key = (str(it.variant), str(sorted((q, it.td_in[q].reshape(-1).tolist()) for q in it.td_in.keys())))
            if key in seen:
                continue
            seen.add(key)
            techs = [float(v) for v in it.td_reset["techs"][0].reshape(-1).tolist()]
            skills = [float(v) for v in it.td_reset["skills"][0].reshape(-1).tolist()]
            n, m = len(skills), len(techs)
            triples.append((it, "mask-made", list(it.ep.actions)))
            for k in range(m - 1):
                xs = [j for j in range(1, n + 1) if skills[j - 1] > techs[k]]
                if not xs:
                    continue
                x = rng.choice(xs)
                rest = [j for j in range(1, n + 1) if j != x]
                rng.shuffle(rest)
                base = [0] * k + [x] + [0] * (m - 1 - k) + rest
                triples.append((it, "one-unmet-skill-in-route-%d" % k, base))
                triples.append((it, "one-unmet-skill-in-route-%d+closed" % k, base + [0]))
            if len(triples) > (70 if tier == "quick" else 400):
                break
        out.update(_handsol.check_solutions(self, ctx, tier, triples, "handbuilt"))
        return out

    def batch_priority(self, row):
        """batched checker calls: the hand-built lists whose single unmet skill sits in a MIDDLE route (right after an early
        depot visit) first -- that is where a loop that confuses batch row and position does not look"""
        kind = row[1]
        if kind.startswith("one-unmet-skill-in-route-") and not kind.startswith("one-unmet-skill-in-route-0"):
            return 0
        return 1

    # ---------------------------------------------------------------- C06 corruptions
    def corruptions(self, rng, acts, n):
        out = super().corruptions(rng, acts, n)
        acts = list(acts)
        cust = [k for k, a in enumerate(acts) if a != 0]
        # move one customer to another route (unmet skill when it lands with a lower technician), also into the
        # segment after the last depot visit
        if len(cust) >= 1:
            k = rng.choice(cust)
            b = acts[:k] + acts[k + 1:]
            b.insert(0, acts[k]); out.append(("move-to-first-route", b))
            b = acts[:k] + acts[k + 1:] + [acts[k]]; out.append(("move-to-last-route", b))
        b = [a for a in acts if a != 0]
        out.append(("single-route+depot", b + [0]))
        out.append(("depot-first", [0] + b))
        out.append(("two-depots-first", [0, 0] + b))
        # every customer in a route that starts after more depot visits than there are technicians (m <= 4 here), closed
        out.append(("five-depots-first+closed", [0] * 5 + b + [0]))
        return out


ADAPTER = SVRPAdapter()
