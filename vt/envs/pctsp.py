"""Adapter for PCTSPEnv (properties C01-C06).  SPCTSPEnv is served by the subclass in vt/envs/spctsp.py.

Instance streams: generator output; exact-grid instances (integral point sets /128, prizes and penalties k/64)
built so that the prize comparison sites -- `cur_total_prize < 1.0` in get_action_mask and `p.sum() >= 1 - 1e-5`
in check_solution_validity -- are met with equality, one grid unit below and one above; degenerate ones
(1 customer, all customers on one point, total prize below the requirement so that every customer is needed).
Both prize vectors are always different, so reading the wrong one is visible."""
from __future__ import annotations

import itertools
from fractions import Fraction

import torch
from tensordict import TensorDict

from vt import envh
from vt.common import clist, cz, cbool
from vt.envs._base import RoutingAdapter


class PCTSPAdapter(RoutingAdapter):
    name = "pctsp"
    stochastic = False
    header = ("From Coq Require Import List ZArith Bool.\nFrom RL4CO Require Import Base.Num Base.EnvSig Env.PCTSP Harness.HPCTSP.\n"
              "Import ListNotations.\nOpen Scope Z_scope.\n")
    case_type = "pctsp_case"
    props = {"C01": "check_C01", "C02": "check_C02", "C03": "check_C03", "C04": "check_C02", "C05": "check_C05", "C06": "check_C06"}
    sol_type = "pctsp_inst * list nat * bool"
    sol_fn = "check_C06_sol"
    reward_td = "reset"
    shard = 150
    # keys of the step output compared with the row model after every step in C02 / C04 (Harness/HPCTSP.v book_obs)
    book_keys = (("i", "int"), ("current_node", "int"), ("cur_total_prize", "f"), ("visited", "bits"))
    book_fn = "check_book"
    book_type = "pctsp_book"

    def variants(self, tier):
        return [{"num_loc": n} for n in ([1, 3, 4, 7] if tier == "quick" else [1, 2, 3, 4, 6, 10, 20])]

    def make_env(self, variant):
        from rl4co.envs import PCTSPEnv
        return PCTSPEnv(generator_params={"num_loc": variant["num_loc"]}, check_solution=False)

    # ---------------------------------------------------------------- instances
    KINDS = ["equal", "equal", "equal-1", "equal+1", "subset", "subset-1", "subset+1", "total", "total-1", "short", "random64", "dup",
             "near-in", "near-out", "near-far"]

    def instances(self, env, variant, rng, tier):
        n = variant["num_loc"]
        out = []
        k = 3 if tier == "quick" else 6
        torch.manual_seed(rng.randrange(1 << 30))
        td = env.generator(batch_size=[k])
        for r in range(k):
            out.append((td[r:r + 1].clone(), {"kind": "generator"}))
        kinds = list(self.KINDS)
        rng.shuffle(kinds)
        for kind in kinds[: (6 if tier == "quick" else len(kinds))]:
            out.append(self.exact_instance(rng, n, kind))
        return out

    def exact_instance(self, rng, n, kind):
        """prizes/penalties on the k/64 grid; `real` is the vector the env must use, `other` the one it must not"""
        if kind == "dup":
            p0 = envh.integral_coords(rng, 2)
            pts = [p0[0]] + [p0[1]] * n
        else:
            pts = envh.integral_coords(rng, n + 1)
        real, order = self._prizes(rng, n, kind)
        # the other vector: clearly different behaviour (either everything is needed or one customer suffices)
        other = [rng.choice([1, 2]) for _ in range(n)] if rng.random() < 0.5 else [64 + rng.randint(0, 8) for _ in range(n)]
        if other == real:
            other = [v + 1 for v in other]
        pen = [rng.randint(0, 48) for _ in range(n)]
        det, sto = (other, real) if self.stochastic else (real, other)
        td = TensorDict({"locs": torch.tensor([pts[1:]], dtype=torch.float32),
                         "depot": torch.tensor([pts[0]], dtype=torch.float32),
                         "penalty": torch.tensor([[v / 64.0 for v in pen]], dtype=torch.float32),
                         "deterministic_prize": torch.tensor([[float(Fraction(v) / 64) for v in det]], dtype=torch.float32),
                         "stochastic_prize": torch.tensor([[float(Fraction(v) / 64) for v in sto]], dtype=torch.float32)}, batch_size=[1])
        return td, {"kind": "exact/" + kind, "tight_order": order}

    @staticmethod
    def _prizes(rng, n, kind):
        """returns (prizes in 1/64 units, an order of customers (1-based) after which the boundary is reached)"""
        delta = -1 if kind.endswith("-1") else (1 if kind.endswith("+1") else 0)
        base = kind.rstrip("+-1")
        if kind.startswith("near-"):
            # two customers whose prizes sum to 1 - 2^-19 (inside the checker's 1e-5 tolerance, below the mask's 1.0)
            # or to 1 - 2^-16 (outside both); exact in float32; everybody else carries no prize
            # near-far: 1 - 2^-14, more than three tolerances below the requirement
            gap = Fraction(64, 2 ** {"near-in": 19, "near-out": 16, "near-far": 14}[kind])
            order = rng.sample(range(1, n + 1), n)
            pr = [Fraction(0)] * n
            if n >= 2:
                pr[order[0] - 1], pr[order[1] - 1] = Fraction(32), Fraction(32) - gap
            else:
                pr[0] = Fraction(64) - gap
            return pr, order
        if base in ("random64", "dup"):
            pr = [rng.randint(0, 40) for _ in range(n)]
            return pr, rng.sample(range(1, n + 1), n)
        if base == "short":          # total below the requirement: every customer is needed
            pr = [rng.randint(0, max(0, 60 // n)) for _ in range(n)]
            return pr, rng.sample(range(1, n + 1), n)
        if base == "total":          # all customers together reach the requirement exactly (or miss it by one unit)
            cuts = sorted(rng.randint(0, 64) for _ in range(n - 1))
            pr = [b - a for a, b in zip([0] + cuts, cuts + [64])]
            if delta:
                j = max(range(n), key=lambda q: pr[q])
                pr[j] += delta
            return pr, rng.sample(range(1, n + 1), n)
        if base == "equal":          # any m customers reach the requirement exactly
            m = rng.choice([d for d in (1, 2, 4, 8, 16) if d <= max(1, n)])
            pr = [64 // m] * n
            order = rng.sample(range(1, n + 1), n)
            if delta:
                pr[order[0] - 1] += delta
            return pr, order
        # subset: m chosen customers reach the requirement exactly, the others carry small prizes
        m = rng.randint(1, min(n, 4))
        cuts = sorted(rng.sample(range(1, 64), m - 1)) if m > 1 else []
        parts = [b - a for a, b in zip([0] + cuts, cuts + [64])]
        parts[0] += delta
        idx = rng.sample(range(1, n + 1), n)
        pr = [0] * n
        for q, j in enumerate(idx):
            pr[j - 1] = parts[q] if q < m else rng.randint(0, 6)
        return pr, idx[:m] + idx[m:]

    def collect(self, ctx, pid, tier):
        """the generic collection; remembers which property is being served (only C03 needs the distance matrix in
        the Coq instance, and parsing its 2^64-scaled literals dominates the evaluation time otherwise)"""
        from vt.envprops import collect
        self._pid = pid
        return collect(self, ctx, tier)

    # forced walks that steer the row to the boundary: customers in `tight_order`, depot as soon as it is offered
    def extra_items(self, ctx, pid, tier):
        from vt.envprops import Item
        rng = ctx.rng
        items = []
        for variant in self.variants(tier):
            n = variant["num_loc"]
            env = self.make_env(variant)
            kinds = sorted(set(k for k in self.KINDS if k not in ("random64", "dup")))
            for kind in kinds:
                for rep in range(1 if tier == "quick" else 3):
                    td_in, meta = self.exact_instance(rng, n, kind)
                    order = meta["tight_order"]
                    for cut in sorted({len(order), rng.randint(1, len(order))}):
                        eps, td_reset, td_fin, actions = envh.rollout(env, td_in, rng, choosers=["depot_first"], forced=[order[:cut]],
                                                                      pad_steps=rng.choice([0, 1, 2]), max_steps=self.max_steps(variant))
                        envh.rewards_and_verdicts(env, td_fin, td_reset, actions, eps, self.reward_td)
                        items.append(Item(self, variant, env, td_in, td_reset, eps[0], dict(meta, chooser="forced+depot_first"), "solo"))
                        ctx.count("%s/boundary_walks/%s" % (self.name, kind))
        return items

    # ---------------------------------------------------------------- Coq encoding
    def dist_matrix(self, td_reset):
        locs = td_reset["locs"][0]                       # depot first
        from rl4co.utils.ops import get_distance
        return get_distance(locs[:, None, :], locs[None, :, :])

    def coq_instance(self, env, td_reset, variant):
        zl = lambda t: clist(cz(envh.zs(v)) for v in t.tolist())
        one = torch.tensor(1.0, dtype=torch.float32)
        thr = torch.tensor(1 - 1e-5, dtype=torch.float32)      # the scalar is compared in float32
        return "(mk_pctsp %s %s %s %s %s %s %s)" % (
            zl(td_reset["deterministic_prize"][0]), zl(td_reset["stochastic_prize"][0]), cbool(bool(env.stochastic)),
            zl(td_reset["penalty"][0, 1:]),
            envh.zmatrix(self.dist_matrix(td_reset)) if getattr(self, "_pid", "C03") == "C03" else "[]", cz(envh.zs(one)), cz(envh.zs(thr)))

    def reward_tol(self, env, td_reset, n_steps):
        n = td_reset["locs"].shape[-2]
        return Fraction(1e-6) * (2 * n_steps + 2 * n + 4)

    # ---------------------------------------------------------------- spec-level enumeration (C05)
    def real_prize(self, env, td_reset):
        key = "stochastic_prize" if self.stochastic else "deterministic_prize"      # by the PROBLEM definition
        return [Fraction(float(v)) for v in td_reset[key][0].tolist()]

    def feasible_solutions(self, env, td_reset, variant):
        """every PCTSP solution of a tiny instance from the problem definition (exact rationals): a sequence of distinct
        customers whose collected prize is >= 1, or which contains every customer; encoded as customers + [0]."""
        pr = self.real_prize(env, td_reset)
        n = len(pr)
        sols = []
        for k in range(1, n + 1):
            for cs in itertools.permutations(range(1, n + 1), k):
                if k == n or sum(pr[j - 1] for j in cs) >= 1:
                    sols.append(tuple(cs) + (0,))
        return sols

    def extra_c05(self, ctx, tier, items):
        """the base class enumerates the first few distinct tiny instances: put boundary-tight ones with 3-4 customers first"""
        def rank(it):
            n = it.variant.get("num_loc", 99)
            kind = it.meta.get("kind", "")
            return (0 if n >= 3 else 1, 0 if kind.startswith("exact/") and kind not in ("exact/random64", "exact/dup") else 1)
        order = sorted(range(len(items)), key=lambda k: (rank(items[k]), ctx.rng.random()))
        return super().extra_c05(ctx, tier, [items[k] for k in order])

    def extra_c03(self, ctx, tier, items):
        """get_reward on hand-built action lists that the checker accepts but no mask-made rollout produces
        (vt/envs/_handsol.py): all customers WITHOUT the closing depot visit ([[1,2,3]]: the tour still starts and ends at
        the depot), prefixes, interior depot visits, batches of differently shaped lists, one-column action tensors"""
        from vt.envs import _handsol
        return _handsol.check_rewards(self, ctx, tier, _handsol.reward_batches(ctx.rng, items, tier))

    def extra_c06(self, ctx, tier, items):
        """the base class corrupts up to 60 completed episodes drawn at random: make sure the ones on the
        near-tolerance instances (which pin the checker's 1e-5 from both sides) are among them"""
        done = [it for it in items if it.ep.complete]
        near = [it for it in done if str(it.meta.get("kind", "")).startswith("exact/near")]
        rest = [it for it in done if not str(it.meta.get("kind", "")).startswith("exact/near")]
        ctx.rng.shuffle(rest)
        cap = 45 if tier == "quick" else 250
        return super().extra_c06(ctx, tier, near[:15] + rest[: max(0, cap - len(near[:15]))])

    # ---------------------------------------------------------------- C06 corruptions
    def corruptions(self, rng, acts, n):
        out = super().corruptions(rng, acts, n)
        cust = [a for a in acts if a != 0]
        # prize shortfall: keep only a prefix of the customers (with and without the closing depot visit)
        for k in sorted(set(range(1, min(len(cust), 4))) | {len(cust) - 1}):
            if k >= 1:
                out.append(("prefix", cust[:k] + [0]))
                if k == len(cust) - 1:
                    out.append(("prefix-open", cust[:k]))
        if len(cust) >= 2:
            out.append(("interior-depot", cust[:1] + [0] + cust[1:] + [0]))
        missing = [j for j in range(1, n + 1) if j not in cust]
        if missing:
            out.append(("extended", cust + [rng.choice(missing), 0]))
        return out


ADAPTER = PCTSPAdapter()
