"""Adapter for CVRPEnv (properties C01-C06). Template for the other routing adapters."""
from __future__ import annotations

from fractions import Fraction

import torch
from tensordict import TensorDict

from vt import envh
from vt.common import clist, cz, cnatlist, cbool, coq_eval_shards
from vt.envs._base import RoutingAdapter


class CVRPAdapter(RoutingAdapter):
    name = "cvrp"
    header = ("From Coq Require Import List ZArith Bool.\nFrom RL4CO Require Import Base.Num Base.EnvSig Env.CVRP Harness.HCVRP.\n"
              "Import ListNotations.\nOpen Scope Z_scope.\n")
    case_type = "cvrp_case"
    props = {"C01": "check_C01", "C02": "check_C02", "C03": "check_C03", "C04": "check_C02", "C05": "check_C05", "C06": "check_C06"}
    sol_type = "cvrp_inst * list nat * bool"
    sol_fn = "check_C06_sol"
    reward_td = "reset"
    shard = 150
    # keys of the step output compared with the row model after every step in C02 / C04 (Harness/HCVRP.v book_obs)
    book_keys = (("current_node", "int"), ("used_capacity", "f"), ("visited", "bits"))
    book_fn = "check_book"
    book_type = "cvrp_book"

    def variants(self, tier):
        # num_loc = 1 and 2: degenerate but legal sizes (one-column demand tensors: `td["demand"][:, 0]` vs `[:, 1]`)
        # (listed last: the C05 enumeration budget goes to the first tiny instances met, which should stay the n = 3 ones)
        return [{"num_loc": n} for n in ([3, 5, 8, 1, 2] if tier == "quick" else [3, 4, 6, 10, 20, 1, 2])]

    def make_env(self, variant):
        from rl4co.envs import CVRPEnv
        return CVRPEnv(generator_params={"num_loc": variant["num_loc"]}, check_solution=False)

    # ---------------------------------------------------------------- instances
    def instances(self, env, variant, rng, tier):
        n = variant["num_loc"]
        out = []
        k = 3 if tier == "quick" else 10
        # generator stream
        torch.manual_seed(rng.randrange(1 << 30))
        td = env.generator(batch_size=[k])
        for r in range(k):
            out.append((td[r:r + 1].clone(), {"kind": "generator"}))
        # exact stream with boundary-tight loads: demands k/64, capacity 1.0
        for rep in range(k):
            pts = envh.integral_coords(rng, n + 1)
            kind = rng.choice(["tight", "tight", "tight+1", "tight-1", "all_cap", "random64"])
            dem = self._demands(rng, n, kind)
            out.append((TensorDict({"locs": torch.tensor([pts[1:]], dtype=torch.float32),
                                    "depot": torch.tensor([pts[0]], dtype=torch.float32),
                                    "demand": torch.tensor([dem], dtype=torch.float32)}, batch_size=[1]),
                        {"kind": "exact/" + kind}))
        return out

    @staticmethod
    def _demands(rng, n, kind):
        if kind == "all_cap":
            return [1.0] * n
        if kind == "random64":
            return [rng.randint(1, 64) / 64.0 for _ in range(n)]
        # some subset of customers fills the vehicle exactly (or misses/exceeds by one grid unit)
        m = rng.randint(1, min(n, 4))
        cuts = sorted(rng.sample(range(1, 64), m - 1)) if m > 1 else []
        parts = [b - a for a, b in zip([0] + cuts, cuts + [64])]
        if kind == "tight+1":
            parts[0] += 1
        if kind == "tight-1" and parts[0] > 1:
            parts[0] -= 1
        rest = [rng.randint(1, 64) for _ in range(n - m)]
        dem = parts + rest
        rng.shuffle(dem)
        return [min(d, 64) / 64.0 for d in dem]

    # ---------------------------------------------------------------- Coq encoding
    def dist_matrix(self, td_reset):
        locs = td_reset["locs"][0]                       # depot first
        from rl4co.utils.ops import get_distance
        return get_distance(locs[:, None, :], locs[None, :, :])

    def coq_instance(self, env, td_reset, variant):
        dem = td_reset["demand"][0]
        cap = td_reset["vehicle_capacity"][0, 0]
        tol = torch.tensor(1e-5, dtype=torch.float32)
        return "(mk_cvrp %s %s %s %s)" % (clist(cz(envh.zs(v)) for v in dem.tolist()), cz(envh.zs(cap)),
                                          envh.zmatrix(self.dist_matrix(td_reset)), cz(envh.zs(tol)))

    def reward_tol(self, env, td_reset, n_steps):
        # float32 sum of n_steps+1 distances of size <= sqrt(2) each
        return Fraction(1e-6) * (n_steps + 2) * 2

    # ---------------------------------------------------------------- spec-level enumeration (C05)
    def feasible_solutions(self, env, td_reset, variant):
        """all feasible route sets of a tiny instance, from the PROBLEM DEFINITION (exact rationals), each
        encoded canonically (routes separated by one depot visit, trailing depot). Independent of any mask."""
        import itertools
        dem = [Fraction(float(v)) for v in td_reset["demand"][0].tolist()]
        cap = Fraction(float(td_reset["vehicle_capacity"][0, 0]))
        n = len(dem)
        sols = []
        for perm in itertools.permutations(range(1, n + 1)):
            # all ways to cut the permutation into consecutive routes
            for cuts in range(1 << (n - 1)):
                routes, cur = [], [perm[0]]
                for k in range(1, n):
                    if cuts >> (k - 1) & 1:
                        routes.append(cur)
                        cur = []
                    cur.append(perm[k])
                routes.append(cur)
                if all(sum(dem[j - 1] for j in r) <= cap for r in routes):
                    seq = []
                    for r in routes:
                        seq += r + [0]
                    sols.append(tuple(seq))
        return sols


ADAPTER = CVRPAdapter()
