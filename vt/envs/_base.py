"""Base class of routing-environment adapters: defaults + the generic C04/C05/C06 extras."""
from __future__ import annotations

import torch

from vt import envh
from vt.common import clist, cnatlist, cbool, coq_eval_shards


class RoutingAdapter:
    name = "?"
    header = ""
    case_type = ""
    props = {}
    shard = 150
    reward_td = "reset"          # which TensorDict _get_reward / the checker are given: "reset" or "final"
    sol_type = None              # Coq type of (instance, actions, verdict) cases for C06 corruptions
    sol_fn = None
    tiny = 4                     # largest number of customers for exhaustive expansion (quick tier)

    def choosers(self, tier):
        return ["uniform", "uniform", "depot_first", "depot_last", "low", "high"] if tier == "thorough" else \
               ["uniform", "depot_first", "depot_last", "high"]

    def max_steps(self, variant):
        # generous cap on the length of a rollout (twice the proven bound + padding); hitting it is reported
        return 4 * variant.get("num_loc", 20) + 12

    def variant_tag(self, variant):
        return ",".join("%s=%s" % (k, v) for k, v in sorted(variant.items()) if k != "num_loc") or "default"

    def signature(self, item, tag, step):
        from vt.envprops import CONCRETE
        return "%s/%s: %s" % (self.name, self.variant_tag(item.variant), CONCRETE.get(tag, "tag%d" % tag))

    def reward_close(self, a, b):
        return abs(a - b) <= 1e-6 * (1.0 + abs(b))

    # ------------------------------------------------------------------ C04: solo vs batched vs padded
    def extra_c04(self, ctx, tier, items):
        from vt.envprops import Item
        rng = ctx.rng
        solo = [it for it in items if it.batch == "solo" and it.ep.complete]
        n_cmp = n_bad = 0
        by_shape = {}
        for it in solo:
            key = (id(it.env), tuple((k, tuple(it.td_in[k].shape[1:])) for k in sorted(it.td_in.keys())))
            by_shape.setdefault(key, []).append(it)
        for key, grp in by_shape.items():
            reps = 6 if tier == "quick" else 20
            for rep in range(reps):
                it = rng.choice(grp)
                env = it.env
                # the episode proper: up to the first done
                k_done = next(k for k, (_, _, d) in enumerate(it.ep.steps) if d) + 1
                base_steps = it.ep.steps[:k_done]
                forced_actions = [a for _, a, _ in base_steps]
                # composition: the row under test at a random position, next to copies of itself and strangers
                size = rng.choice([1, 2, 3, 4, 6])
                pos = rng.randrange(size)
                mates = []
                for q in range(size):
                    if q == pos:
                        mates.append(it)
                    else:
                        mates.append(it if rng.random() < 0.3 else rng.choice(grp))
                td_b = torch.cat([m.td_in for m in mates], 0)
                forced = [forced_actions if q == pos else [] for q in range(size)]
                chs = [rng.choice(["uniform", "depot_last", "depot_first"]) for _ in range(size)]
                eps, td_reset, td_fin, actions = envh.rollout(env, td_b, rng, choosers=chs, forced=forced,
                                                              pad_steps=rng.choice([0, 1, 4]), max_steps=self.max_steps(it.variant))
                envh.rewards_and_verdicts(env, td_fin, td_reset, actions, eps, self.reward_td)
                e = eps[pos]
                if len(e.steps) < k_done:
                    continue
                n_cmp += 1
                ctx.count("%s/c04_compositions" % self.name)
                ctx.count("%s/c04_padding_steps" % self.name, max(0, len(e.steps) - k_done))
                bad = None
                if e.steps[:k_done] != base_steps:
                    kk = next(k for k in range(k_done) if k >= len(e.steps) or e.steps[k] != base_steps[k])
                    bad = "masks/done differ from the solo run at step %d" % (kk + 1)
                elif not all(d for _, _, d in e.steps[k_done:]):
                    bad = "row became unfinished during padding"
                elif it.ep.reward is not None and e.reward is not None and not self.reward_close(e.reward, it.ep.reward):
                    bad = "reward %r in the batch vs %r solo" % (e.reward, it.ep.reward)
                if bad:
                    n_bad += 1
                    from vt.envprops import hexrow
                    fake = Item(self, it.variant, env, it.td_in, it.td_reset, e, it.meta, "batch%d@%d" % (size, pos))
                    ctx.failure(self.signature(fake, 17, 0),
                                fake.replay({"what": bad, "solo_reward": it.ep.reward, "solo_actions": forced_actions,
                                             "batch_instances": [hexrow(m.td_in) for m in mates],
                                             "batch_actions": actions.tolist(), "position": pos}), tag=self.name)
        return {"c04_compositions": n_cmp, "c04_differences": n_bad}

    # ------------------------------------------------------------------ C05: spec enumeration vs mask expansion
    def feasible_solutions(self, env, td_reset, variant):
        return None

    def strip(self, seq):
        seq = list(seq)
        while seq and seq[-1] == 0:
            seq.pop()
        return tuple(seq)

    def extra_c05(self, ctx, tier, items):
        from vt.envprops import Item
        n_inst = n_sol = n_missing = n_extra = 0
        seen = set()
        limit = self.tiny if tier == "quick" else self.tiny + 1
        budget = 6 if tier == "quick" else 20
        for it in items:
            n = it.variant.get("num_loc", 99)
            if n > limit or it.batch != "solo":
                continue
            key = str(sorted((k, it.td_in[k].reshape(-1).tolist()) for k in it.td_in.keys()))
            if key in seen:
                continue
            seen.add(key)
            if len(seen) > budget:
                break
            sols = self.feasible_solutions(it.env, it.td_reset, it.variant)
            if sols is None:
                continue
            reach, trunc = envh.expand_all(it.env, it.td_in, max_depth=self.max_steps(it.variant))
            if trunc:
                ctx.count("%s/c05_truncated" % self.name)
                continue
            R = {self.strip(s) for s in reach}
            S = {self.strip(s) for s in sols}
            n_inst += 1
            n_sol += len(S)
            ctx.count("%s/c05_enumerated_instances" % self.name)
            ctx.count("%s/c05_feasible_solutions" % self.name, len(S))
            ctx.count("%s/c05_mask_reachable" % self.name, len(R))
            missing = S - R
            if missing:
                n_missing += len(missing)
                s = sorted(missing)[0]
                ep = envh.Episode()
                ep.steps = [([], a, False) for a in s]
                fake = Item(self, it.variant, it.env, it.td_in, it.td_reset, ep, it.meta, "solo")
                ctx.failure(self.signature(fake, 16, 0),
                            fake.replay({"what": "a solution feasible by the problem definition is not reachable through the mask",
                                         "hidden_solution": list(s), "n_hidden": len(missing), "n_feasible": len(S), "n_reachable": len(R)}),
                            tag=self.name)
            n_extra += len(R - S)     # reachable but not feasible = C01's business, counted only
        return {"c05_instances": n_inst, "c05_solutions": n_sol, "c05_hidden": n_missing, "c05_reachable_not_in_spec": n_extra}

    # ------------------------------------------------------------------ C06: corruptions of complete solutions
    def corruptions(self, rng, acts, n):
        """single-fault corruptions of a complete action list (n customers)"""
        out = []
        acts = list(acts)
        cust = [k for k, a in enumerate(acts) if a != 0]
        zeros = [k for k, a in enumerate(acts) if a == 0]
        if len(cust) >= 2:
            i, j = rng.sample(cust, 2)
            b = list(acts); b[i] = acts[j]; out.append(("duplicate+missing", b))
            b = list(acts); b[i], b[j] = b[j], b[i]; out.append(("swap", b))
        if cust:
            i = rng.choice(cust)
            b = list(acts); b[i] = 0; out.append(("missing", b))
            b = list(acts); b.insert(i, acts[i]); out.append(("duplicate", b))
        if zeros:
            i = rng.choice(zeros)
            b = acts[:i] + acts[i + 1:]; out.append(("merge-routes", b))
        b = [a for a in acts if a != 0]; out.append(("never-return", b))
        b = list(acts) + [0, 0]; out.append(("extra-depot", b))
        if n >= 1:
            b = list(acts); b[rng.randrange(len(b))] = n + 1 if rng.random() < 0.3 else rng.randint(1, n); out.append(("overwrite", b))
        return out

    def extra_c06(self, ctx, tier, items):
        if not self.sol_fn:
            return {}
        rng = ctx.rng
        cases, meta = [], []
        done_items = [it for it in items if it.ep.complete]
        rng.shuffle(done_items)
        for it in done_items[: (60 if tier == "quick" else 300)]:
            n = it.variant.get("num_loc", 0)
            for kind, acts in self.corruptions(rng, it.ep.actions, n):
                if not acts or max(acts) > n:
                    # out-of-range indices make torch.gather raise: a rejection
                    v = envh.verdict(it.env, it.td_reset if self.reward_td == "reset" else it.td_reset,
                                     torch.tensor([acts], dtype=torch.int64)) if acts else None
                    if v is None:
                        continue
                else:
                    v = envh.verdict(it.env, it.td_reset, torch.tensor([acts], dtype=torch.int64))
                if v is None:
                    continue
                try:
                    inst = self.coq_instance(it.env, it.td_reset, it.variant)
                except ValueError:
                    continue
                cases.append("(%s, %s, %s)" % (inst, cnatlist(acts), cbool(v)))
                meta.append((it, kind, acts, v))
                ctx.count("%s/c06_corruption/%s/%s" % (self.name, kind, "accepted" if v else "rejected"))
        if not cases:
            return {}
        codes = coq_eval_shards("cases_C06_%s_sol" % self.name, self.header, self.sol_type, self.sol_fn, cases, shard=self.shard)
        from vt.envprops import Item, CONCRETE, DISAGREE
        nd = nc = 0
        first = None
        for (it, kind, acts, v), c in zip(meta, codes):
            ctx.seen({"e": self.name, "sol": acts, "k": kind, "i": str(it.td_in["demand"].tolist()) if "demand" in it.td_in.keys() else ""})
            if c == 0:
                continue
            ep = envh.Episode()
            ep.steps = [([], a, False) for a in acts]
            ep.checker = v
            fake = Item(self, it.variant, it.env, it.td_in, it.td_reset, ep, dict(it.meta, corruption=kind), "solo")
            if c in CONCRETE:
                nc += 1
                ctx.failure(self.signature(fake, c, 0), fake.replay({"what": CONCRETE[c], "corruption": kind}), tag=self.name)
            else:
                nd += 1
                first = first or (fake, c, kind)
        if first:
            fake, c, kind = first
            path = ctx.write_replay(fake.replay({"code": c, "what": "checker model verdict differs from the implementation", "corruption": kind}),
                                    tag="corr-" + self.name)
            ctx.broken.append("correspondence C06/%s (hand-built and corrupted solutions): %d disagreement(s); first: code %d on a '%s' corruption, case file %s" % (
                self.name, nd, c, kind, path))
        return {"c06_solutions": len(cases), "c06_disagreements": nd, "c06_concrete": nc}
