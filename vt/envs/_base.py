"""Base class of routing-environment adapters: defaults + the generic C04/C05/C06 extras.

C06 (`extra_c06`): single-fault corruptions of complete mask-made solutions, one row at a time, and then
(`batched_checker`) the same lists as rows of BATCHES of 2-4 different instances handed to the real checker in one
call -- valid rows with one rejected row at index 0 / >= 1 / last, two rejected rows, valid rows only; the batch verdict is
judged with the per-row Coq model / specification.
C02 / C04: `book_keys` / `book_fn` / `book_type` declare the bookkeeping keys of the env's step output that are compared
with the row model after every step (vt/envprops.book_stage, Harness/HBook.v)."""
from __future__ import annotations

import torch

from vt import envh
from vt.common import clist, cnatlist, cbool, coq_eval_shards


class RoutingAdapter:
    name = "?"
    header = ""
    case_type = ""
    props = {}
    shard = 150
    reward_td = "reset"          # which TensorDict _get_reward / the checker are given: "reset" or "final"
    sol_type = None              # Coq type of (instance, actions, verdict) cases for C06 corruptions
    sol_fn = None
    tiny = 4                     # largest number of customers for exhaustive expansion (quick tier)
    batch_pad = True             # C06 batched checker calls: shorter action lists are padded with trailing depot visits
    # Bookkeeping comparison (C02 / C04; Harness/HBook.v + `check_book` of the adapter's H<ENV>.v): the keys of the env's step
    # output that the row model has a counterpart for, in the order of the harness' `book_obs`; kinds: "int" (integer scalar),
    # "f" (float32 scalar, scaled exactly by 2^64), "bits" (bool / uint8 vector as a number, bit j = entry j),
    # "fvec" (float32 vector, one entry per element).  Empty = nothing compared.
    book_keys = ()
    book_fn = None               # Gallina function (book case -> Z)
    book_type = None             # Coq type of a book case: (instance, tolerances, entries after reset, [(action, entries)])

    def book_values(self, td):
        """per batch row: the flattened list of the raw values of `book_keys` in td (python ints / floats; called after
        every step of every rollout, so nothing is converted here -- `book_encode` does that for the episodes compared)"""
        B = td.batch_size[0]
        cols = []
        for key, kind in self.book_keys:
            v = td[key].reshape(B, -1)
            if kind in ("int", "f"):
                cols.append([[x] for x in v[:, 0].tolist()])
            elif kind == "bits":
                cols.append([[sum((1 << j) for j, b in enumerate(row) if b)] for row in v.tolist()])
            elif kind == "fvec":
                cols.append(v.tolist())
            else:
                raise KeyError(kind)
        return [[x for c in cols for x in c[r]] for r in range(B)]

    @staticmethod
    def book_encode(raw_row, is_float):
        """integers as they are, float32 values scaled exactly by 2^64 (ValueError if not on that grid)"""
        return [envh.zs(x) if fl else int(x) for x, fl in zip(raw_row, is_float)]

    def book_names(self, td_row):
        """names of the flattened entries (for reports), and which of them are floats"""
        names, is_float = [], []
        for key, kind in self.book_keys:
            if kind == "fvec":
                k = td_row[key].reshape(1, -1).shape[1]
                names += ["%s[%d]" % (key, j) for j in range(k)]
                is_float += [True] * k
            else:
                names.append(key)
                is_float.append(kind == "f")
        return names, is_float

    def book_exact(self, item):
        """every float32 operation of the env is exact on this instance (exact-grid stream): float entries are compared with
        tolerance 0; otherwise relative 2^-17 of the largest value the entry takes in the episode"""
        return str((item.meta or {}).get("kind", "")).startswith("exact")

    def choosers(self, tier):
        return ["uniform", "uniform", "depot_first", "depot_last", "low", "high"] if tier == "thorough" else \
               ["uniform", "depot_first", "depot_last", "high"]

    def max_steps(self, variant):
        # generous cap on the length of a rollout (twice the proven bound + padding); hitting it is reported
        return 4 * variant.get("num_loc", 20) + 12

    def variant_tag(self, variant):
        return ",".join("%s=%s" % (k, v) for k, v in sorted(variant.items()) if k != "num_loc") or "default"

    def signature(self, item, tag, step):
        from vt.envprops import CONCRETE
        return "%s/%s: %s" % (self.name, self.variant_tag(item.variant), CONCRETE.get(tag, "tag%d" % tag))

    def reward_close(self, a, b):
        return abs(a - b) <= 1e-6 * (1.0 + abs(b))

    # ------------------------------------------------------------------ C04: solo vs batched vs padded
    def extra_c04(self, ctx, tier, items):
        from vt.envprops import Item
        rng = ctx.rng
        solo = [it for it in items if it.batch == "solo" and it.ep.complete]
        n_cmp = n_bad = 0
        by_shape = {}
        for it in solo:
            key = (id(it.env), tuple((k, tuple(it.td_in[k].shape[1:])) for k in sorted(it.td_in.keys())))
            by_shape.setdefault(key, []).append(it)
        for key, grp in by_shape.items():
            reps = 6 if tier == "quick" else 20
            for rep in range(reps):
                it = rng.choice(grp)
                env = it.env
                # the episode proper: up to the first done
                k_done = next(k for k, (_, _, d) in enumerate(it.ep.steps) if d) + 1
                base_steps = it.ep.steps[:k_done]
                forced_actions = [a for _, a, _ in base_steps]
                # composition: the row under test at a random position, next to copies of itself and strangers
                size = rng.choice([1, 2, 3, 4, 6])
                pos = rng.randrange(size)
                mates = []
                for q in range(size):
                    if q == pos:
                        mates.append(it)
                    else:
                        mates.append(it if rng.random() < 0.3 else rng.choice(grp))
                td_b = torch.cat([m.td_in for m in mates], 0)
                forced = [forced_actions if q == pos else [] for q in range(size)]
                chs = [rng.choice(["uniform", "depot_last", "depot_first"]) for _ in range(size)]
                eps, td_reset, td_fin, actions = envh.rollout(env, td_b, rng, choosers=chs, forced=forced,
                                                              pad_steps=rng.choice([0, 1, 4]), max_steps=self.max_steps(it.variant))
                envh.rewards_and_verdicts(env, td_fin, td_reset, actions, eps, self.reward_td)
                e = eps[pos]
                if len(e.steps) < k_done:
                    continue
                n_cmp += 1
                ctx.count("%s/c04_compositions" % self.name)
                ctx.count("%s/c04_padding_steps" % self.name, max(0, len(e.steps) - k_done))
                bad = None
                if e.steps[:k_done] != base_steps:
                    kk = next(k for k in range(k_done) if k >= len(e.steps) or e.steps[k] != base_steps[k])
                    bad = "masks/done differ from the solo run at step %d" % (kk + 1)
                elif not all(d for _, _, d in e.steps[k_done:]):
                    bad = "row became unfinished during padding"
                elif it.ep.reward is not None and e.reward is not None and not self.reward_close(e.reward, it.ep.reward):
                    bad = "reward %r in the batch vs %r solo" % (e.reward, it.ep.reward)
                if bad:
                    n_bad += 1
                    from vt.envprops import hexrow
                    fake = Item(self, it.variant, env, it.td_in, it.td_reset, e, it.meta, "batch%d@%d" % (size, pos))
                    ctx.failure(self.signature(fake, 17, 0),
                                fake.replay({"what": bad, "solo_reward": it.ep.reward, "solo_actions": forced_actions,
                                             "batch_instances": [hexrow(m.td_in) for m in mates],
                                             "batch_actions": actions.tolist(), "position": pos}), tag=self.name)
        return {"c04_compositions": n_cmp, "c04_differences": n_bad}

    # ------------------------------------------------------------------ C05: spec enumeration vs mask expansion
    def feasible_solutions(self, env, td_reset, variant):
        return None

    def strip(self, seq):
        seq = list(seq)
        while seq and seq[-1] == 0:
            seq.pop()
        return tuple(seq)

    def extra_c05(self, ctx, tier, items):
        from vt.envprops import Item
        n_inst = n_sol = n_missing = n_extra = 0
        seen = set()
        limit = self.tiny if tier == "quick" else self.tiny + 1
        budget = 6 if tier == "quick" else 20
        for it in items:
            n = it.variant.get("num_loc", 99)
            if n > limit or it.batch != "solo":
                continue
            key = str(sorted((k, it.td_in[k].reshape(-1).tolist()) for k in it.td_in.keys()))
            if key in seen:
                continue
            seen.add(key)
            if len(seen) > budget:
                break
            sols = self.feasible_solutions(it.env, it.td_reset, it.variant)
            if sols is None:
                continue
            reach, trunc = envh.expand_all(it.env, it.td_in, max_depth=self.max_steps(it.variant))
            if trunc:
                ctx.count("%s/c05_truncated" % self.name)
                continue
            R = {self.strip(s) for s in reach}
            S = {self.strip(s) for s in sols}
            n_inst += 1
            n_sol += len(S)
            ctx.count("%s/c05_enumerated_instances" % self.name)
            ctx.count("%s/c05_feasible_solutions" % self.name, len(S))
            ctx.count("%s/c05_mask_reachable" % self.name, len(R))
            missing = S - R
            if missing:
                n_missing += len(missing)
                s = sorted(missing)[0]
                ep = envh.Episode()
                ep.steps = [([], a, False) for a in s]
                fake = Item(self, it.variant, it.env, it.td_in, it.td_reset, ep, it.meta, "solo")
                ctx.failure(self.signature(fake, 16, 0),
                            fake.replay({"what": "a solution feasible by the problem definition is not reachable through the mask",
                                         "hidden_solution": list(s), "n_hidden": len(missing), "n_feasible": len(S), "n_reachable": len(R)}),
                            tag=self.name)
            n_extra += len(R - S)     # reachable but not feasible = C01's business, counted only
        return {"c05_instances": n_inst, "c05_solutions": n_sol, "c05_hidden": n_missing, "c05_reachable_not_in_spec": n_extra}

    # ------------------------------------------------------------------ C06: corruptions of complete solutions
    def corruptions(self, rng, acts, n):
        """single-fault corruptions of a complete action list (n customers)"""
        out = []
        acts = list(acts)
        cust = [k for k, a in enumerate(acts) if a != 0]
        zeros = [k for k, a in enumerate(acts) if a == 0]
        if len(cust) >= 2:
            i, j = rng.sample(cust, 2)
            b = list(acts); b[i] = acts[j]; out.append(("duplicate+missing", b))
            b = list(acts); b[i], b[j] = b[j], b[i]; out.append(("swap", b))
        if cust:
            i = rng.choice(cust)
            b = list(acts); b[i] = 0; out.append(("missing", b))
            b = list(acts); b.insert(i, acts[i]); out.append(("duplicate", b))
        if zeros:
            i = rng.choice(zeros)
            b = acts[:i] + acts[i + 1:]; out.append(("merge-routes", b))
        b = [a for a in acts if a != 0]; out.append(("never-return", b))
        b = list(acts) + [0, 0]; out.append(("extra-depot", b))
        if n >= 1:
            b = list(acts); b[rng.randrange(len(b))] = n + 1 if rng.random() < 0.3 else rng.randint(1, n); out.append(("overwrite", b))
        return out

    def extra_c06(self, ctx, tier, items):
        if not self.sol_fn:
            return {}
        rng = ctx.rng
        cases, meta = [], []
        done_items = [it for it in items if it.ep.complete]
        rng.shuffle(done_items)
        for it in done_items[: (60 if tier == "quick" else 300)]:
            n = it.variant.get("num_loc", 0)
            for kind, acts in self.corruptions(rng, it.ep.actions, n):
                if not acts or max(acts) > n:
                    # out-of-range indices make torch.gather raise: a rejection
                    v = envh.verdict(it.env, it.td_reset if self.reward_td == "reset" else it.td_reset,
                                     torch.tensor([acts], dtype=torch.int64)) if acts else None
                    if v is None:
                        continue
                else:
                    v = envh.verdict(it.env, it.td_reset, torch.tensor([acts], dtype=torch.int64))
                if v is None:
                    continue
                try:
                    inst = self.coq_instance(it.env, it.td_reset, it.variant)
                except ValueError:
                    continue
                cases.append("(%s, %s, %s)" % (inst, cnatlist(acts), cbool(v)))
                meta.append((it, kind, acts, v))
                ctx.count("%s/c06_corruption/%s/%s" % (self.name, kind, "accepted" if v else "rejected"))
        if not cases:
            return {}
        codes = coq_eval_shards("cases_C06_%s_sol" % self.name, self.header, self.sol_type, self.sol_fn, cases, shard=self.shard)
        from vt.envprops import Item, CONCRETE, DISAGREE
        nd = nc = 0
        first = None
        for (it, kind, acts, v), c in zip(meta, codes):
            ctx.seen({"e": self.name, "sol": acts, "k": kind, "i": str(it.td_in["demand"].tolist()) if "demand" in it.td_in.keys() else ""})
            if c == 0:
                continue
            ep = envh.Episode()
            ep.steps = [([], a, False) for a in acts]
            ep.checker = v
            fake = Item(self, it.variant, it.env, it.td_in, it.td_reset, ep, dict(it.meta, corruption=kind), "solo")
            if c in CONCRETE:
                nc += 1
                ctx.failure(self.signature(fake, c, 0), fake.replay({"what": CONCRETE[c], "corruption": kind}), tag=self.name)
            else:
                nd += 1
                first = first or (fake, c, kind)
        if first:
            fake, c, kind = first
            path = ctx.write_replay(fake.replay({"code": c, "what": "checker model verdict differs from the implementation", "corruption": kind}),
                                    tag="corr-" + self.name)
            ctx.broken.append("correspondence C06/%s (hand-built and corrupted solutions): %d disagreement(s); first: code %d on a '%s' corruption, case file %s" % (
                self.name, nd, c, kind, path))
        out = {"c06_solutions": len(cases), "c06_disagreements": nd, "c06_concrete": nc}
        rows = [(it, kind, acts, v) for it, kind, acts, v in meta]
        rows += [(it, "original", list(it.ep.actions), bool(it.ep.checker)) for it in done_items[: (60 if tier == "quick" else 300)]
                 if it.ep.checker is not None and it.ep.actions]
        if getattr(self, "_defer_batches", False):
            self._c06_rows = rows          # the adapter adds its hand-built lists and runs ONE batched stage (vt/envs/_handsol.py)
        else:
            out.update(self.batched_checker(ctx, tier, rows))
        return out

    # ------------------------------------------------------------------ C06: the checker on BATCHES of solutions
    def batch_priority(self, row):
        """rejected rows with a smaller value are put into batches first (adapters: the faults only their checker knows)"""
        return 0

    def batched_checker(self, ctx, tier, rows, prefix="batched", cap=None):
        """The shipped checkers assert over the whole batch (`.all()` over [B, ...] tensors, loops over `nonzero` of the
        whole action tensor): one row at a time cannot tell `.all()` from `.any()` nor a row index from a position.
        rows: (item, kind, action list, verdict of the real checker on that row ALONE).  Composes batches of 2-4 rows of
        the same env and shape -- valid rows of DIFFERENT instances with one rejected row at index 0 / >= 1 / last, two
        rejected rows, valid rows only -- pads shorter lists with trailing depot visits (`batch_pad`), calls the REAL
        checker once per batch, and judges the batch verdict V with the per-row Coq model / specification (`sol_fn`):
          V = accepted: every row is evaluated as (instance, list, accepted): 15 = an infeasible row was accepted (concrete),
                        13 = the row model rejects it;
          V = rejected: every row is evaluated as (instance, list, rejected): a row with code 0 explains the rejection; if no
                        row does, the batch of solutions that are ALL feasible by the definition was rejected (14, concrete,
                        when every row says so; a disagreement otherwise).
        When a batch disagrees with the row models and nothing concrete was found (e.g. the wrongly accepted row belongs
        to an instance outside the theorems' hypotheses, where the specification does not speak), the SEARCH pairs every
        other rejected row with a valid row of another instance and looks for concrete failures only."""
        from vt.envprops import Item, CONCRETE, hexrow
        import time as _t
        if not self.sol_fn or not rows:
            return {}
        _t00 = _t.time()
        rng = ctx.rng
        groups = {}
        for row in rows:
            it, kind, acts, v = row
            if not acts or v is None:
                continue
            key = (id(it.env), tuple((k, tuple(it.td_reset[k].shape[1:])) for k in sorted(it.td_reset.keys())))
            groups.setdefault(key, []).append(row)
        cap = cap or (10 if tier == "quick" else 60)
        keys = list(groups)
        rng.shuffle(keys)
        per = max(2, cap // max(1, len(keys)) + 1)
        split = {}
        for key in keys:
            good = [r for r in groups[key] if r[3]]
            bad = [r for r in groups[key] if not r[3]]
            rng.shuffle(good)
            rng.shuffle(bad)
            bad.sort(key=self.batch_priority)          # stable: random order within one priority
            split[key] = (good, bad)

        def others(key, b, k):
            """k valid rows of the group, of instances other than b's (and pairwise different) where the group has them"""
            good = split[key][0]
            pool = [g for g in good if b is None or g[0].td_in is not b[0].td_in]
            out_, seen_ = [], set()
            for g in pool:
                if id(g[0].td_in) not in seen_:
                    out_.append(g)
                    seen_.add(id(g[0].td_in))
                if len(out_) == k:
                    break
            for g in good:
                if len(out_) == k:
                    break
                if g not in out_:
                    out_.append(g)
            return out_

        plans, used = [], set()
        for key in keys:
            good, bad = split[key]
            for q, b in enumerate(bad[: per]):
                size = [2, 3, 4, 4][q % 4]
                mates = others(key, b, size - 1)
                if not mates:
                    continue
                pos = min([len(mates), 0, 1, len(mates)][q % 4], len(mates))           # last, first, second, last
                plans.append(("one-rejected-row@%s" % ("0" if pos == 0 else ">=1"), mates[:pos] + [b] + mates[pos:]))
                used.add(id(b))
            if len(bad) >= 2 and good:
                plans.append(("two-rejected-rows", [bad[0]] + others(key, None, 1) + [bad[1]]))
            g2 = others(key, None, 3)
            if len(g2) >= 2:
                plans.append(("valid-rows-only", g2))
        rng.shuffle(plans)
        # batches whose rejected row has the adapter's priority first, then "one rejected row at index >= 1" first
        plans.sort(key=lambda p_: (min([self.batch_priority(r) for r in p_[1] if not r[3]] or [9]),
                                   0 if p_[0].startswith("one-rejected-row@>=1") else 1))
        tot = {"batches": 0, "rows": 0, "nd": 0, "nc": 0, "coq_s": 0.0}
        state = {"first": None}

        def fake_of(m):
            _, r_idx, r, acts, V, comp_kind, comp, lists = m
            it = r[0]
            ep = envh.Episode()
            ep.steps = [([], a, False) for a in acts]
            ep.checker = V
            fake = Item(self, it.variant, it.env, it.td_in, it.td_reset, ep, dict(it.meta, corruption=r[1], solution_kind=r[1]),
                        "batch%d@%d" % (len(comp), r_idx))
            extra = {"batch_composition": comp_kind, "position": r_idx, "batch_verdict": V,
                     "row_alone_verdicts": [bool(x[3]) for x in comp], "row_kinds": [x[1] for x in comp],
                     "batch_instances": [hexrow(x[0].td_in) for x in comp], "batch_actions": lists,
                     "how": "env.check_solution_validity(cat(batch_instances after reset), batch_actions) raises <=> batch_verdict is false"}
            return fake, extra

        def evaluate(plans_, cap_, tag_, searching=False):
            cases, meta = [], []
            n_b = 0
            for comp_kind, comp in plans_:
                if n_b >= cap_:
                    break
                L = max(len(r[2]) for r in comp)
                if not self.batch_pad and any(len(r[2]) != L for r in comp):
                    comp = [r for r in comp if len(r[2]) == L]
                    if len(comp) < 2:
                        continue
                lists = [list(r[2]) + [0] * (L - len(r[2])) for r in comp]
                try:
                    td_b = torch.cat([r[0].td_reset for r in comp], 0)
                except Exception:          # noqa: BLE001
                    continue
                V = envh.verdict(comp[0][0].env, td_b, torch.tensor(lists, dtype=torch.int64))
                if V is None:
                    continue
                if searching and not V:
                    continue               # the search looks for wrongly ACCEPTED rows only
                try:
                    insts = [self.coq_instance(r[0].env, r[0].td_reset, r[0].variant) for r in comp]
                except ValueError:
                    continue
                n_b += 1
                ctx.count("%s/c06_%s/%s/%s" % (self.name, prefix, comp_kind, "accepted" if V else "rejected"))
                ctx.count("%s/c06_%s/distinct_instances_in_batch/%d" % (self.name, prefix, len({id(r[0].td_in) for r in comp})))
                for r_idx, (r, inst, acts) in enumerate(zip(comp, insts, lists)):
                    cases.append("(%s, %s, %s)" % (inst, cnatlist(acts), cbool(V)))
                    meta.append((n_b, r_idx, r, acts, V, comp_kind, comp, lists))
            if not cases:
                return
            _t0 = _t.time()
            # few, large cases (every row carries its instance): four shards evaluated in parallel
            codes = coq_eval_shards("cases_C06_%s_%s%s" % (self.name, prefix.replace("-", "_"), tag_), self.header, self.sol_type, self.sol_fn,
                                    cases, shard=max(6, min(self.shard, (len(cases) + 3) // 4)))
            tot["coq_s"] += _t.time() - _t0
            tot["batches"] += n_b
            tot["rows"] += len(cases)
            by_batch = {}
            for m, c in zip(meta, codes):
                by_batch.setdefault(m[0], []).append((m, c))
            for b, lst in sorted(by_batch.items()):
                V = lst[0][0][4]
                ctx.seen({"e": self.name, "c06batch": lst[0][0][7], "k": lst[0][0][5], "v": V,
                          "i": [str(sorted((k, x[0].td_in[k].reshape(-1).tolist()) for k in x[0].td_in.keys())) for x in lst[0][0][6]]},
                         nontrivial=True)
                if V:
                    for m, c in lst:
                        if c == 0:
                            continue
                        tag, step = c % 1000, c // 1000
                        fake, extra = fake_of(m)
                        if tag in CONCRETE:
                            tot["nc"] += 1
                            ctx.failure(self.signature(fake, tag, step),
                                        fake.replay(dict(extra, code=c, what=CONCRETE[tag] + " (as a row of an accepted batch)")), tag=self.name)
                        elif not searching:
                            tot["nd"] += 1
                            state["first"] = state["first"] or (fake, c, extra)
                else:
                    if any(c == 0 for _, c in lst):
                        continue           # some row is rejected by the row model / not required to be accepted: explains the verdict
                    m, c = lst[0]
                    fake, extra = fake_of(m)
                    if all(c_ % 1000 == 14 for _, c_ in lst):
                        tot["nc"] += 1
                        ctx.failure(self.signature(fake, 14, c // 1000),
                                    fake.replay(dict(extra, code=c, what="every row of the batch is feasible by the problem definition, the batch is rejected")),
                                    tag=self.name)
                    else:
                        tot["nd"] += 1
                        state["first"] = state["first"] or (fake, c, extra)

        evaluate(plans, cap, "")
        if tot["nd"] and not tot["nc"]:
            more = []
            for key in keys:
                for b in split[key][1]:
                    if id(b) in used:
                        continue
                    mates = others(key, b, 1)
                    if mates:
                        more.append(("search:one-rejected-row@>=1", mates + [b]))
            rng.shuffle(more)
            evaluate(more, 40 if tier == "quick" else 200, "_search", searching=True)
            ctx.count("%s/c06_%s/search_batches" % (self.name, prefix), min(len(more), 40 if tier == "quick" else 200))
        if state["first"]:
            fake, c, extra = state["first"]
            path = ctx.write_replay(fake.replay(dict(extra, code=c, what="batched checker verdict differs from what the row models say")),
                                    tag="corr-" + self.name)
            ctx.broken.append("correspondence C06/%s (checker on batches of solutions): %d disagreement(s); first: code %d, composition '%s', case file %s" % (
                self.name, tot["nd"], c, extra["batch_composition"], path))
        if not tot["rows"]:
            return {}
        return {"c06_%s_batches" % prefix: tot["batches"], "c06_%s_rows" % prefix: tot["rows"], "c06_%s_disagreements" % prefix: tot["nd"],
                "c06_%s_concrete" % prefix: tot["nc"], "c06_%s_coq_s" % prefix: round(tot["coq_s"], 1),
                "c06_%s_wall_s" % prefix: round(_t.time() - _t00, 1)}
