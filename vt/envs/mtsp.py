"""Adapter for MTSPEnv (properties C01-C05; the env ships no real checker, so no C06), both cost types.

Model: coq/theories/Env/MTSP.v, theorems Env/MTSPProofs.v, harness Harness/HMTSP.v, spec Spec/MultiTour.v.

The real class is used through a thin subclass that only (a) reshapes the reward to [B] (the code returns a 0-dim
tensor for B = 1 with cost_type minmax: `td["reward"].squeeze(-1)`) and (b) turns an exception raised by `_get_reward`
into the sentinel reward +1.0 for every row (a real reward is never positive), so that "get_reward raises" travels
through the generic case format (vt/envprops.case_of) as an observable and is compared with the model's `None`.
"""
from __future__ import annotations

import itertools
import math
from fractions import Fraction

import torch
from tensordict import TensorDict

from vt import envh
from vt.common import cz
from vt.envs._base import RoutingAdapter

RAISED = 1.0       # sentinel: _get_reward raised
BADSHAPE = 2.0     # sentinel: _get_reward returned something that is not one number per row


def _dist(td_row):
    locs = td_row["locs"][0].double()
    return (locs[:, None, :] - locs[None, :, :]).norm(p=2, dim=-1).tolist()


def _routes(acts):
    rs, cur = [], []
    for a in acts:
        if a == 0:
            rs.append(cur)
            cur = []
        else:
            cur.append(a)
    rs.append(cur)
    return rs


def _rlen(D, r):
    if not r:
        return 0.0
    return D[0][r[0]] + sum(D[x][y] for x, y in zip(r, r[1:])) + D[r[-1]][0]


class MTSPAdapter(RoutingAdapter):
    name = "mtsp"
    header = ("From Coq Require Import List ZArith Bool.\nFrom RL4CO Require Import Base.Num Base.EnvSig Env.MTSP Harness.HMTSP.\n"
              "Import ListNotations.\nOpen Scope Z_scope.\n")
    case_type = "mtsp_case"
    props = {"C01": "check_C01", "C02": "check_C02", "C03": "check_C03", "C04": "check_C04", "C05": "check_C05"}
    reward_td = "final"          # minmax reads td["reward"] of the last step
    shard = 120
    # keys of the step output compared with the row model after every step in C02 / C04 (Harness/HMTSP.v book_obs);
    # i, current_node and first_node also against their definition (step count, last action, first action)
    book_keys = (("i", "int"), ("current_node", "int"), ("first_node", "int"), ("agent_idx", "int"), ("current_length", "f"),
                 ("max_subtour_length", "f"))
    book_fn = "check_book"
    book_type = "mtsp_book"
    tiny = 5                     # num_loc <= 5 (4 cities) is expanded exhaustively in the quick tier

    # ---------------------------------------------------------------- variants / env
    def variants(self, tier):
        if tier == "quick":
            return ([{"num_loc": n, "cost_type": "minmax"} for n in (2, 4, 5, 9)] +
                    [{"num_loc": n, "cost_type": "sum"} for n in (2, 4, 6)])
        return ([{"num_loc": n, "cost_type": "minmax"} for n in (2, 3, 5, 7, 11, 21)] +
                [{"num_loc": n, "cost_type": "sum"} for n in (2, 4, 5, 8, 12)])

    def variant_tag(self, variant):
        return variant["cost_type"]

    def make_env(self, variant):
        from rl4co.envs import MTSPEnv
        adapter = self

        class _MTSP(MTSPEnv):
            def _get_reward(self, td, actions=None):
                B = actions.shape[0]
                try:
                    r = super()._get_reward(td, actions)
                except (RuntimeError, IndexError, ValueError) as e:
                    self._vt_reward_error = "%s: %s" % (type(e).__name__, str(e)[:200])
                    return torch.full((B,), RAISED)
                if r.dim() == 0:
                    adapter.zero_dim_rewards += 1
                if r.numel() != B:
                    self._vt_reward_error = "reward of shape %s for batch size %d" % (tuple(r.shape), B)
                    return torch.full((B,), BADSHAPE)
                return r.reshape(B)

        n = variant["num_loc"]
        return _MTSP(generator_params={"num_loc": n, "min_num_agents": 1, "max_num_agents": max(1, n)},
                     cost_type=variant["cost_type"], check_solution=False)

    zero_dim_rewards = 0

    # ---------------------------------------------------------------- instances
    def instances(self, env, variant, rng, tier):
        N = variant["num_loc"]
        n = N - 1
        out = []
        k = 3 if tier == "quick" else 6
        # generator stream (num_agents uniform in 1..num_loc)
        torch.manual_seed(rng.randrange(1 << 30))
        td = env.generator(batch_size=[k])
        for r in range(k):
            out.append((td[r:r + 1].clone(), {"kind": "generator"}))
        # exact stream: integral point sets / 128 (all float32 sums exact), num_agents at the boundaries of the only
        # data-dependent comparison of the mask, `agent_idx < num_agents - 1`: m = 1 (depot never offered), 2,
        # n - 1, n (one agent per city), n + 1 and more (more agents than cities)
        ms = [1, 2, max(1, n - 1), max(1, n), n + 1, n + 3]
        for rep in range(k + 2):
            pts = envh.integral_coords(rng, N)
            kind = "exact"
            if rep == 0 and N >= 3:
                pts[2] = list(pts[1])          # duplicate city
                kind = "exact/duplicate"
            if rep == 1 and N >= 2:
                pts[1] = list(pts[0])          # a city on the depot
                kind = "exact/city_on_depot"
            m = ms[rep % len(ms)] if rep < len(ms) else rng.choice(ms)
            out.append((TensorDict({"locs": torch.tensor([pts], dtype=torch.float32),
                                    "num_agents": torch.tensor([m], dtype=torch.int64)}, batch_size=[1]),
                        {"kind": "%s/m=%d" % (kind, m)}))
        return out

    def choosers(self, tier):
        return ["uniform", "uniform", "depot_first", "depot_last", "low", "high"] if tier == "thorough" else \
               ["uniform", "depot_first", "depot_last", "high"]

    # ---------------------------------------------------------------- Coq encoding
    def dist_matrix(self, td_reset):
        locs = td_reset["locs"][0]                       # depot first
        from rl4co.utils.ops import get_distance
        return get_distance(locs[:, None, :], locs[None, :, :])

    def coq_instance(self, env, td_reset, variant):
        m = int(td_reset["num_agents"].reshape(-1)[0])
        return "(mk_mtsp %s %s %s)" % (cz(m), envh.zmatrix(self.dist_matrix(td_reset)),
                                        "true" if variant["cost_type"] == "sum" else "false")

    def reward_tol(self, env, td_reset, n_steps):
        # float32 accumulation of n_steps+1 distances of size <= sqrt(2) each (used for the exact-arithmetic objective
        # and for the `sum` reward; the minmax model reward is compared bit-exactly)
        return Fraction(1e-6) * (n_steps + 2) * 2

    # ---------------------------------------------------------------- signatures: name the mechanism precisely
    def _episode(self, item):
        acts = item.ep.actions
        flags = [d for _, _, d in item.ep.steps]
        k = (flags.index(True) + 1) if True in flags else len(acts)
        return acts[:k], len(acts) - k

    def signature(self, item, tag, step):
        """<env>/<cost type>: <mechanism>.  The three known defect mechanisms get their own name only when the observed
        reward is exactly what that mechanism predicts; anything else keeps the generic name of the failed check."""
        from vt.envprops import CONCRETE
        ct = item.variant["cost_type"]
        mech = CONCRETE.get(tag, "tag%d" % tag)
        try:
            rew = item.ep.reward
            ep, npad = self._episode(item)
            acts = item.ep.actions
            if tag in (4, 17) and rew is not None and item.ep.complete and ep:
                D = _dist(item.td_in)
                N = len(D)
                close = lambda x, y: abs(x - y) <= 1e-5 * (1 + abs(y))
                if ct == "minmax" and npad >= 1:
                    rs = _routes(ep)
                    true = max(_rlen(D, r) for r in rs)
                    defect = max(true, _rlen(D, rs[-1]) + D[ep[-1]][0])     # the last leg home is added once more
                    if close(-rew, defect) and not close(defect, true):
                        mech = "reward-changes-under-post-finish-padding"
                if ct == "sum":
                    cyc = lambda a: sum(D[x][y] for x, y in zip(a, a[1:] + a[:1]))
                    # what `locs.gather(1, actions.unsqueeze(-1).expand_as(locs))` does: exactly N actions -> the tour
                    # through the actions; ONE action -> broadcast, tour of N identical points = 0; otherwise raises
                    pred = (lambda a: -cyc(a) if len(a) == N else (0.0 if len(a) == 1 else RAISED))
                    consistent = (rew == RAISED) == (pred(acts) == RAISED) and (rew == RAISED or close(rew, pred(acts)))
                    sides = [acts] + ([ep] if tag == 17 else [])      # C04 compares with the unpadded solo run
                    if consistent and any(len(a) == 1 and N != 1 for a in sides):
                        mech = "single-action-broadcast-gives-zero-reward"
                    elif consistent and any(len(a) != N for a in sides):
                        mech = "get_reward-raises-unless-exactly-num_loc-actions"
                    elif consistent and any(a[-1] != 0 for a in sides):
                        mech = "reward-tour-not-anchored-at-depot"
        except Exception:
            pass
        return "%s/%s: %s" % (self.name, ct, mech)

    # ---------------------------------------------------------------- collection
    def collect(self, ctx, pid, tier):
        """C04's differential takes the solo run as the reference: keep it free of padding there, so that a
        difference shows up on the batched (padded) side and is named after its mechanism"""
        from vt.envprops import collect
        return collect(self, ctx, tier, pad=(pid != "C04"))

    def extra_items(self, ctx, pid, tier):
        """systematic grid the random streams only hit by chance: generator instances x num_agents in {1, 2, 3, n} x
        chooser in {depot_first (as many sub-tours as allowed), depot_last (one sub-tour)} x 0 / 1 / 2 padding steps"""
        from vt.envprops import Item
        rng = ctx.rng
        out = []
        if pid == "C05":
            return out
        for variant in self.variants(tier):
            N = variant["num_loc"]
            if N < 3 or N > 8:
                continue
            env = self.make_env(variant)
            torch.manual_seed(rng.randrange(1 << 30))
            base = env.generator(batch_size=[1])
            for m in sorted({1, 2, 3, N - 1}):
                td_in = base.clone()
                td_in["num_agents"] = torch.tensor([m], dtype=torch.int64)
                for ch in ("depot_first", "depot_last"):
                    for pad in ((0,) if pid == "C04" else (0, 1, 2)):
                        eps, td_reset, td_fin, actions = envh.rollout(env, td_in, rng, choosers=[ch], pad_steps=pad,
                                                                      max_steps=self.max_steps(variant))
                        envh.rewards_and_verdicts(env, td_fin, td_reset, actions, eps, self.reward_td)
                        out.append(Item(self, variant, env, td_in, td_reset, eps[0],
                                        {"kind": "grid/m=%d/pad=%d" % (m, pad), "chooser": ch}, "solo"))
                        ctx.count("%s/%s/grid_episodes" % (self.name, self.variant_tag(variant)))
        return out

    def extra_c05(self, ctx, tier, items):
        """largest enumerable instances first, numbers of agents interleaved (the base class takes the first few)"""
        limit = self.tiny if tier == "quick" else self.tiny + 1
        uniq, seen = [], set()
        for it in items:
            if it.batch != "solo" or it.variant.get("num_loc", 99) > limit:
                continue
            key = str(sorted((k, it.td_in[k].reshape(-1).tolist()) for k in it.td_in.keys()))
            if key not in seen:
                seen.add(key)
                uniq.append(it)
        groups = {}
        for it in uniq:
            groups.setdefault((-it.variant["num_loc"], int(it.td_in["num_agents"][0])), []).append(it)
        order = []
        keys = sorted(groups)
        while any(groups[k] for k in keys):
            for k in keys:
                if groups[k]:
                    order.append(groups[k].pop(0))
        order.sort(key=lambda it: -it.variant["num_loc"])       # stable: keeps the interleaving inside one size
        return super().extra_c05(ctx, tier, order)

    # ---------------------------------------------------------------- spec-level enumeration (C05)
    def feasible_solutions(self, env, td_reset, variant):
        """every solution of the PROBLEM on a tiny instance: an ordered choice of at most m non-empty sub-tours that
        together visit every city once, in any order (empty sub-tours = unemployed agents are dropped: the canonical
        form), encoded with one depot visit between sub-tours and none at the end. Independent of any mask."""
        N = td_reset["locs"].shape[1]
        n = N - 1
        m = int(td_reset["num_agents"].reshape(-1)[0])
        sols = []
        for perm in itertools.permutations(range(1, n + 1)):
            for cuts in range(1 << max(0, n - 1)):
                if bin(cuts).count("1") + 1 > m:
                    continue
                seq = [perm[0]]
                for k in range(1, n):
                    if cuts >> (k - 1) & 1:
                        seq.append(0)
                    seq.append(perm[k])
                sols.append(tuple(seq))
        return sols

    def extra_c03(self, ctx, tier, items):
        ctx.count("mtsp/reward_returned_0dim_at_batch_size_1", self.zero_dim_rewards)
        raised = sum(1 for it in items if it.ep.reward == RAISED)
        ctx.count("mtsp/get_reward_raised", raised)
        return {"get_reward_raised": raised, "zero_dim_rewards": self.zero_dim_rewards}


ADAPTER = MTSPAdapter()
