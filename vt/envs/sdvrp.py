"""Adapter for SDVRPEnv (properties C01-C06).

Model: coq/theories/Env/SDVRP.v (instance record and reward re-used from Env/CVRP.v: SDVRPEnv subclasses CVRPEnv),
specification Spec/SplitDelivery.v, theorems Env/SDVRPProofs.v, harness Harness/HSDVRP.v.
Numeric comparison sites (DESIGN Appendix A) and the instance kinds that pin them (demands k/64, capacity 1.0, so
every float32 min / subtraction / addition of the env is exact):
  mask   demand_with_depot == 0          exact/tight   a subset of customers fills the vehicle exactly: the last one is
         used_capacity >= capacity                     exhausted (== 0) in the same step in which the vehicle gets full (>=)
  step   min(demand, capacity - used)    exact/tight+1 one grid unit too much: the customer keeps 1/64 and must be revisited
                                         exact/tight-1 one grid unit of room is left: customers stay offered
                                         exact/big     single demands above the capacity (split over several routes)
  done   ~(demand_with_depot > 0).any    all of them; exact/withzero and exact/allzero for the degenerate ends
"""
from __future__ import annotations

from fractions import Fraction

import torch
from tensordict import TensorDict

from vt import envh
from vt.common import clist, cz
from vt.envs._base import RoutingAdapter
from vt.envs import _handsol

TOL32 = torch.tensor(1e-5, dtype=torch.float32)


def on_grid(x, grid=64):
    return (Fraction(float(x)) * grid).denominator == 1


class SDVRPAdapter(RoutingAdapter):
    name = "sdvrp"
    header = ("From Coq Require Import List ZArith Bool.\nFrom RL4CO Require Import Base.Num Base.EnvSig Env.CVRP Env.SDVRP Harness.HSDVRP.\n"
              "Import ListNotations.\nOpen Scope Z_scope.\n")
    case_type = "sd_case"
    props = {"C01": "check_C01", "C02": "check_C02", "C03": "check_C03", "C04": "check_C02", "C05": "check_C05", "C06": "check_C06"}
    sol_type = "(cvrp_inst * Z) * list nat * bool"
    sol_fn = "check_C06_sol"
    reward_td = "reset"
    shard = 60
    tiny = 3
    # keys of the step output compared with the row model after every step in C02 / C04 (Harness/HSDVRP.v book_obs)
    book_keys = (("current_node", "int"), ("used_capacity", "f"), ("demand_with_depot", "fvec"))
    book_fn = "check_book"
    book_type = "sd_book"
    _defer_batches = True        # one batched-checker stage for the corrupted and the hand-built lists together (extra_c06)

    def variants(self, tier):
        if tier == "quick":
            # num_loc 1 and 2 (degenerate but legal sizes) come last: the C05 enumeration budget goes to the first tiny
            # instances met, which should stay the n = 3 ones
            return [{"num_loc": 3}, {"num_loc": 5, "capacity": 8.0}, {"num_loc": 8, "capacity": 12.0}, {"num_loc": 1}, {"num_loc": 2, "capacity": 4.0}]
        return [{"num_loc": 3}, {"num_loc": 4, "capacity": 6.0}, {"num_loc": 6, "capacity": 10.0}, {"num_loc": 10}, {"num_loc": 20},
                {"num_loc": 1}, {"num_loc": 2, "capacity": 4.0}]

    def variant_tag(self, variant):
        return "default"          # the generator's capacity only rescales the demands: instance data, not a mode

    def choosers(self, tier):
        return ["uniform", "uniform", "depot_first", "depot_last", "low", "high"] if tier == "thorough" else \
               ["uniform", "depot_first", "depot_last", "high", "low"]

    def max_steps(self, variant):
        # the proven bound is 2 (n + ceil(total demand / capacity)) - 3; demands here are at most 3 capacities each
        return 8 * variant.get("num_loc", 20) + 40

    def make_env(self, variant):
        from rl4co.envs import SDVRPEnv
        gp = {"num_loc": variant["num_loc"]}
        if "capacity" in variant:
            gp["capacity"] = variant["capacity"]
        return SDVRPEnv(generator_params=gp, check_solution=False)

    def signature(self, item, tag, step):
        # both defects are recorded as fixed (8311630, 56d7d8e) in known_findings.json; the signatures are kept so that a
        # defect that returns is named again
        acts = item.ep.actions
        if tag == 18 and item.ep.crash and item.ep.crash.startswith("reward:"):
            return "sdvrp/default: get_reward-crashes-on-one-column-action-tensor"
        if tag == 14 and 0 not in acts:
            return "sdvrp/default: checker-rejects-complete-single-route-solution-without-depot-visit"
        return super().signature(item, tag, step)

    def extra_items(self, ctx, pid, tier):
        """the recorded witnesses of the two repaired defects, as mask-made episodes without padding:
        one customer with demand 1.0 -> episode [1] (one-column action tensor handed to _get_reward);
        demands [0.25, 0.25] -> episode [2, 1] (everything in one route, no depot visit in the list)"""
        from vt.envprops import Item
        items = []
        for locs, dem in (([[0.6, 0.8]], [1.0]), ([[0.6, 0.8], [0.3, 0.4]], [0.25, 0.25])):
            variant = {"num_loc": len(dem)}
            env = self.make_env(variant)
            td_in = TensorDict({"locs": torch.tensor([locs]), "depot": torch.tensor([[0.0, 0.0]]),
                                "demand": torch.tensor([dem])}, batch_size=[1])
            eps, td_reset, td_fin, actions = envh.rollout(env, td_in, ctx.rng, choosers=["high"], pad_steps=0, max_steps=8)
            envh.rewards_and_verdicts(env, td_fin, td_reset, actions, eps, self.reward_td)
            items.append(Item(self, variant, env, td_in, td_reset, eps[0], {"kind": "witness/fixed-8311630-56d7d8e", "chooser": "high"}, "solo"))
            ctx.count("sdvrp/default/witness_episodes")
        return items

    # ---------------------------------------------------------------- instances
    def instances(self, env, variant, rng, tier):
        n = variant["num_loc"]
        out = []
        k = 3 if tier == "quick" else 10
        torch.manual_seed(rng.randrange(1 << 30))
        td = env.generator(batch_size=[k])
        for r in range(k):
            out.append((td[r:r + 1].clone(), {"kind": "generator"}))
        kinds = ["tight", "tight", "tight+1", "tight-1", "big", "all_cap", "random64", "withzero", "allzero", "onebig"]
        chosen = ["tight", "tight+1", "tight-1", "big"] + rng.sample(kinds[5:], 2) if tier == "quick" else kinds + [rng.choice(kinds[:5]) for _ in range(k)]
        for kind in chosen:
            pts = envh.integral_coords(rng, n + 1)
            dem = self._demands(rng, n, kind)
            out.append((TensorDict({"locs": torch.tensor([pts[1:]], dtype=torch.float32),
                                    "depot": torch.tensor([pts[0]], dtype=torch.float32),
                                    "demand": torch.tensor([dem], dtype=torch.float32)}, batch_size=[1]),
                        {"kind": "exact/" + kind}))
        if n == min(v["num_loc"] for v in self.variants(tier)):
            # degenerate: one customer (own shape: batched only with each other)
            for d in [64, 65, 150]:
                pts = envh.integral_coords(rng, 2)
                out.append((TensorDict({"locs": torch.tensor([pts[1:]], dtype=torch.float32),
                                        "depot": torch.tensor([pts[0]], dtype=torch.float32),
                                        "demand": torch.tensor([[d / 64.0]], dtype=torch.float32)}, batch_size=[1]),
                            {"kind": "exact/one-customer"}))
        return out

    @staticmethod
    def _demands(rng, n, kind):
        if kind == "all_cap":
            return [1.0] * n
        if kind == "allzero":
            return [0.0] * n
        if kind == "random64":
            return [rng.randint(1, 64) / 64.0 for _ in range(n)]
        if kind == "big":
            return [rng.randint(40, 160) / 64.0 for _ in range(n)]
        if kind == "onebig":
            d = [rng.randint(1, 32) for _ in range(n)]
            d[rng.randrange(n)] = rng.choice([64, 65, 127, 128, 129, 192])
            return [x / 64.0 for x in d]
        if kind == "withzero":
            d = [rng.randint(1, 64) for _ in range(n)]
            d[rng.randrange(n)] = 0
            return [x / 64.0 for x in d]
        m = rng.randint(1, min(n, 4))
        cuts = sorted(rng.sample(range(1, 64), m - 1)) if m > 1 else []
        parts = [b - a for a, b in zip([0] + cuts, cuts + [64])]
        if kind == "tight+1":
            parts[0] += 1
        if kind == "tight-1" and parts[0] > 1:
            parts[0] -= 1
        rest = [rng.randint(1, 64) for _ in range(n - m)]
        dem = parts + rest
        rng.shuffle(dem)
        return [d / 64.0 for d in dem]

    # ---------------------------------------------------------------- Coq encoding
    def dist_matrix(self, td_reset):
        locs = td_reset["locs"][0]                       # depot first
        from rl4co.utils.ops import get_distance
        return get_distance(locs[:, None, :], locs[None, :, :])

    def _exact(self, td_reset):
        return all(on_grid(v) for v in td_reset["demand"][0].tolist()) and on_grid(td_reset["vehicle_capacity"][0, 0])

    def coq_instance(self, env, td_reset, variant):
        dem = td_reset["demand"][0]
        cap = td_reset["vehicle_capacity"][0, 0]
        slack = 0 if self._exact(td_reset) else envh.zs(TOL32)
        return "(mk_sd %s %s %s %s, %s)" % (clist(cz(envh.zs(v)) for v in dem.tolist()), cz(envh.zs(cap)),
                                            envh.zmatrix(self.dist_matrix(td_reset)), cz(envh.zs(TOL32)), cz(slack))

    def reward_tol(self, env, td_reset, n_steps):
        return Fraction(1e-6) * (n_steps + 2) * 2

    # ---------------------------------------------------------------- spec-level enumeration (C05)
    def feasible_solutions(self, env, td_reset, variant):
        """All visit sequences of a tiny instance that the PROBLEM DEFINITION admits under the library's encoding
        (exact rationals, no mask involved): the vehicle starts at the depot; a customer may be visited when the
        greedy delivery min(remaining demand, remaining capacity) is positive; the depot may be visited unless the
        vehicle stands at it (documented pruning); the sequence ends when all demand is served.  Optimality over
        arbitrary split quantities is outside this enumeration (C05 is completeness w.r.t. visit sequences)."""
        if not self._exact(td_reset):
            return None
        dem = [Fraction(float(v)) for v in td_reset["demand"][0].tolist()]
        cap = Fraction(float(td_reset["vehicle_capacity"][0, 0]))
        n = len(dem)
        sols = []
        limit = 20000
        if not any(d > 0 for d in dem):
            return [(0,)]
        stack = [((), tuple(dem), Fraction(0), 0)]
        while stack:
            seq, rem, load, cur = stack.pop()
            if len(seq) > 40:
                return None
            for j in range(1, n + 1):
                q = min(rem[j - 1], cap - load)
                if q > 0:
                    nrem = rem[:j - 1] + (rem[j - 1] - q,) + rem[j:]
                    nseq = seq + (j,)
                    if not any(d > 0 for d in nrem):
                        sols.append(nseq)
                        if len(sols) > limit:
                            return None
                    else:
                        stack.append((nseq, nrem, load + q, j))
            if cur != 0:
                stack.append((seq + (0,), rem, Fraction(0), 0))
        return sols

    # ---------------------------------------------------------------- hand-built solutions (C06)
    def extra_c06(self, ctx, tier, items):
        # the generic single-fault corruptions (vt/envs/_base.py), on a sample of the episodes in the thorough tier (budget)
        done = [it for it in items if it.ep.complete]
        cap_n = 25 if tier == "quick" else 150
        sub = items if len(done) <= cap_n else ctx.rng.sample(done, cap_n)
        out = super().extra_c06(ctx, tier, sub) or {}
        rng = ctx.rng
        triples = []
        done_items = [it for it in items if it.ep.complete and it.batch == "solo"]
        rng.shuffle(done_items)
        for it in done_items[: (18 if tier == "quick" else 100)]:
            acts = list(it.ep.actions)
            core = list(acts)
            while core and core[-1] == 0:
                core.pop()
            if not core:
                continue
            n = it.td_in["demand"].shape[1]
            triples.append((it, "no-trailing-depot", core))
            triples.append((it, "one-trailing-depot", core + [0]))
            triples.append((it, "depot-first", [0] + core + [0]))
            k = rng.randrange(len(core))
            triples.append((it, "early-double-depot", core[:k] + [0, 0] + core[k:] + [0]))
            triples.append((it, "revisit-served-customer", core + [core[-1], 0]))
            triples.append((it, "drop-last-visit", core[:-1] + [0]))
        out.update(_handsol.check_solutions(self, ctx, tier, triples, "handbuilt"))
        return out


ADAPTER = SDVRPAdapter()
