"""Adapter for PDPEnv (properties C01-C06); force_start_at_depot False/True are variants."""
from __future__ import annotations

import itertools
from fractions import Fraction

import torch
from tensordict import TensorDict

from vt import envh
from vt.common import cnat, cbool
from vt.envs._tour import TourAdapter


class PDPAdapter(TourAdapter):
    name = "pdp"
    header = ("From Coq Require Import List ZArith Bool.\nFrom RL4CO Require Import Base.Num Base.EnvSig Env.PDP Harness.HPDP.\n"
              "Import ListNotations.\nOpen Scope Z_scope.\n")
    case_type = "pdp_case"
    props = {"C01": "check_C01", "C02": "check_C02", "C03": "check_C03", "C04": "check_C04", "C05": "check_C05", "C06": "check_C06"}
    sol_type = "(pdp_inst * pdp_obs) * list nat * bool"
    sol_fn = "check_C06_sol"
    reward_td = "reset"
    shard = 120
    obs_keys = ("current_node", "i")
    tiny = 6
    # after EVERY step in C02 / C04 (Harness/HPDP.v book_obs); i and current_node also against their definition
    book_keys = (("i", "int"), ("current_node", "int"), ("available", "bits"))
    book_fn = "check_book"
    book_type = "pdp_book"

    # witnesses of the repaired checker defect (fix 5d5f57a)
    witnesses = (({"num_loc": 4, "force_start": False}, [1, 2], "witness:n=4,[1,2]"),
                 ({"num_loc": 2, "force_start": True}, [0], "witness:n=2,forced,[0]"))

    def variants(self, tier):
        sizes = [2, 4, 6] if tier == "quick" else [2, 4, 6, 10, 20]
        return [{"num_loc": n, "force_start": f} for n in sizes for f in (False, True)]

    def max_steps(self, variant):
        return variant["num_loc"] + 4

    def expected_len(self, variant):
        return variant["num_loc"] + (1 if variant["force_start"] else 0)

    def make_env(self, variant):
        from rl4co.envs import PDPEnv
        return PDPEnv(generator_params={"num_loc": variant["num_loc"]}, force_start_at_depot=variant["force_start"],
                      check_solution=False)

    # ---------------------------------------------------------------- instances
    def instances(self, env, variant, rng, tier):
        n = variant["num_loc"]
        out = []
        k = 2 if tier == "quick" else 6
        torch.manual_seed(rng.randrange(1 << 30))
        td = env.generator(batch_size=[k])
        for r in range(k):
            out.append((td[r:r + 1].clone(), {"kind": "generator"}))
        for rep in range(k):
            kind = rng.choice(["exact", "exact", "exact/dup"])
            if kind == "exact/dup":
                base = envh.integral_coords(rng, max(2, n // 2))
                pts = [rng.choice(base) for _ in range(n + 1)]
            else:
                pts = envh.integral_coords(rng, n + 1)
            out.append((TensorDict({"locs": torch.tensor([pts[1:]], dtype=torch.float32),
                                    "depot": torch.tensor([pts[0]], dtype=torch.float32)}, batch_size=[1]), {"kind": kind}))
        return out

    # ---------------------------------------------------------------- Coq encoding
    def dist_matrix(self, td_reset):
        locs = td_reset["locs"][0]                       # depot first (concatenated by _reset)
        from rl4co.utils.ops import get_distance
        return get_distance(locs[:, None, :], locs[None, :, :])

    def coq_instance(self, env, td_reset, variant):
        return "(mk_pdp %s %s %s %s)" % (cnat(env.generator.num_loc), cbool(env.force_start_at_depot),
                                         self.matrix_term(self.dist_matrix(td_reset)), self.obs_term(td_reset))

    def reward_tol(self, env, td_reset, n_steps):
        if self.is_exact(td_reset):
            return Fraction(0)
        return Fraction(1e-6) * (n_steps + 3) * 2

    # ---------------------------------------------------------------- spec-level enumeration (C05)
    def feasible_solutions(self, env, td_reset, variant):
        """every order of the n customers in which each pickup k precedes its delivery k + n/2 (problem definition);
        with force_start_at_depot the depot visit is the first action (the documented forcing)"""
        n = td_reset["locs"].shape[-2] - 1
        m = n // 2
        sols = []
        for p in itertools.permutations(range(1, n + 1)):
            where = {v: k for k, v in enumerate(p)}
            if all(where[k] < where[k + m] for k in range(1, m + 1)):
                sols.append(((0,) + p) if variant["force_start"] else p)
        return sols

    # ---------------------------------------------------------------- single-fault corruptions (C06)
    def corruptions(self, rng, acts, n):
        acts = list(acts)
        L = len(acts)
        m = n // 2
        out = []
        cust = [k for k, a in enumerate(acts) if a != 0]
        if len(cust) >= 2:
            i, j = rng.sample(cust, 2)
            b = list(acts); b[i], b[j] = b[j], b[i]; out.append(("swap-two-customers", b))
            b = list(acts); b[i] = acts[j]; out.append(("duplicate+missing", b))
            k = rng.randint(1, m)
            if k in acts and k + m in acts:
                i, j = acts.index(k), acts.index(k + m)
                b = list(acts); b[i], b[j] = b[j], b[i]; out.append(("delivery-before-pickup", b))
            i = rng.choice(cust)
            out.append(("delete-one", acts[:i] + acts[i + 1:]))
            out.append(("delete-two-highest-index-nodes", [a for a in acts if a not in (n, n - 1)]))
            out.append(("truncate-last", acts[:-1]))
            b = list(acts); b.insert(i, acts[i]); out.append(("duplicate", b))
            b = list(acts); b[i] = n + 1; out.append(("out-of-range", b))
            b = list(acts); b.insert(rng.randrange(1, L), 0); out.append(("depot-in-the-middle", b))
        if acts and acts[0] == 0:
            out.append(("depot-visit-moved-to-the-end(same closed tour)", acts[1:] + [0]))
            if L >= 3:
                i = rng.randrange(1, L - 1)
                b = acts[1:]; b.insert(i, 0); out.append(("depot-visit-moved-to-the-middle", b))
        return out


ADAPTER = PDPAdapter()
