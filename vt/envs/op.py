"""Adapter for OPEnv (properties C01-C06).

Model: coq/theories/Env/OP.v, theorems Env/OPProofs.v, harness Harness/HOP.v.
Numeric comparison sites (DESIGN Appendix A) and the instance kinds that pin them:
  mask   tour_length + |loc j - cur| > max_length - |depot - loc j| - 1e-6
         exact/tight      a chosen tour closes with length == max_length      (hidden by the env's epsilon)
         exact/tight+1    ... one grid unit (1/128) of slack                   (offered)
         exact/tight-1    ... one grid unit too long                           (hidden)
         float/eq         max_length chosen so that the float32 comparison is an EQUALITY at the first step
                          (`>` offers the node, `>=` would hide it)
  checker length <= max_length (+ return leg + 1e-6) + 1e-5
         float/tolband    a tour that is 2^-17 too long: inside the checker's tolerance, outside the mask
  degenerate: one customer, duplicate customers, a customer on the depot, max_length 0, nothing reachable.
"""
from __future__ import annotations

import itertools
from fractions import Fraction

import torch
from tensordict import TensorDict

from vt import envh
from vt.common import clist, cz
from vt.envs._base import RoutingAdapter
from vt.envs import _handsol

EPS32 = torch.tensor(1e-6, dtype=torch.float32)
TOL32 = torch.tensor(1e-5, dtype=torch.float32)
GRID = 128


def _probe_env_class():
    from rl4co.envs import OPEnv

    class OPEnvProbe(OPEnv):
        """the real OPEnv; reset additionally keeps the ORIGINAL max_length (the env overwrites the key with the
        per-node adjusted vector), which the specification and the model's instance need"""

        def _reset(self, td=None, batch_size=None):
            out = super()._reset(td, batch_size)
            out.set("max_length_orig", td["max_length"].clone())
            return out

    return OPEnvProbe


def dist_matrix(locs):
    """M[a][b] = |locs[b] - locs[a]| computed with the torch call the env uses (bit-identical at all its sites)"""
    return (locs[None, :, :] - locs[:, None, :]).norm(p=2, dim=-1)


def on_grid(x, grid=GRID):
    return (Fraction(float(x)) * grid).denominator == 1


class OPAdapter(RoutingAdapter):
    name = "op"
    header = ("From Coq Require Import List ZArith Bool.\nFrom RL4CO Require Import Base.Num Base.EnvSig Env.OP Harness.HOP.\n"
              "Import ListNotations.\nOpen Scope Z_scope.\n")
    case_type = "op_case"
    props = {"C01": "check_C01", "C02": "check_C02", "C03": "check_C03", "C04": "check_C02", "C05": "check_C05", "C06": "check_C06"}
    sol_type = "(op_inst * Z) * list nat * bool"
    sol_fn = "check_C06_sol"
    reward_td = "reset"
    shard = 60
    tiny = 5
    # keys of the step output compared with the row model after every step in C02 / C04 (Harness/HOP.v book_obs)
    book_keys = (("i", "int"), ("current_node", "int"), ("tour_length", "f"), ("current_total_prize", "f"), ("visited", "bits"))
    book_fn = "check_book"
    book_type = "op_book"
    _defer_batches = True        # one batched-checker stage for the corrupted and the hand-built lists together (extra_c06)

    def __init__(self):
        self._cache = []

    def variants(self, tier):
        if tier == "quick":
            return [{"num_loc": 3}, {"num_loc": 5, "max_length": 1.25}, {"num_loc": 8, "max_length": 2.0}]
        return [{"num_loc": 3}, {"num_loc": 4, "max_length": 1.0}, {"num_loc": 6, "max_length": 1.5},
                {"num_loc": 10, "max_length": 2.0}, {"num_loc": 20}]

    def variant_tag(self, variant):
        return "default"          # max_length is instance data, not a mode of the env

    def choosers(self, tier):
        return ["uniform", "uniform", "depot_first", "depot_last", "low", "high"] if tier == "thorough" else \
               ["uniform", "depot_first", "depot_last", "high", "low"]

    def make_env(self, variant):
        gp = {"num_loc": variant["num_loc"]}
        if "max_length" in variant:
            gp["max_length"] = variant["max_length"]
        return _probe_env_class()(generator_params=gp, check_solution=False)

    def signature(self, item, tag, step):
        # the checker used to measure an action list that does not end at the depot without its depot legs: recorded
        # as fixed (728e3da) in known_findings.json; same signature, so that the defect is named again if it returns
        acts = item.ep.actions
        if tag == 15 and acts and acts[-1] != 0:
            return "op/default: checker-accepts-overlength-tour-when-action-list-does-not-end-at-depot"
        return super().signature(item, tag, step)

    def _witness_noreturn(self):
        """the recorded witness of the repaired checker defect: depot (0,0), one customer at (0.6,0.8), max_length 0.5,
        action list [[1]] (the tour depot -> 1 -> depot is 2.0 long)"""
        from vt.envprops import Item
        variant = {"num_loc": 1}
        env = self.make_env(variant)
        td_in = TensorDict({"locs": torch.tensor([[[0.6, 0.8]]]), "depot": torch.tensor([[0.0, 0.0]]),
                            "prize": torch.tensor([[1.0]]), "max_length": torch.tensor([0.5])}, batch_size=[1])
        td_reset = env.reset(td_in.clone())
        return Item(self, variant, env, td_in, td_reset, envh.Episode(), {"kind": "witness/fixed-728e3da"}, "solo")

    # ---------------------------------------------------------------- instances
    @staticmethod
    def _td(pts, prize, ml):
        return TensorDict({"locs": torch.tensor([pts[1:]], dtype=torch.float32),
                           "depot": torch.tensor([pts[0]], dtype=torch.float32),
                           "prize": torch.tensor([prize], dtype=torch.float32),
                           "max_length": torch.tensor([ml], dtype=torch.float32)}, batch_size=[1])

    @staticmethod
    def _closed(D, cs):
        seq = [0] + list(cs) + [0]
        return sum(D[a][b] for a, b in zip(seq, seq[1:]))

    def _exact_instance(self, rng, n, kind):
        pts = envh.integral_coords(rng, n + 1)
        if kind == "dup" and n >= 2:
            pts[2] = list(pts[1])                       # two customers on the same point
            if n >= 3:
                pts[3] = list(pts[0])                   # a customer on the depot
        locs = torch.tensor(pts, dtype=torch.float32)
        M = dist_matrix(locs)
        D = [[Fraction(float(v)) for v in row] for row in M.tolist()]
        assert all((v * GRID).denominator == 1 for row in D for v in row), "integral point set is not exact"
        prize = [rng.randint(1, 64) / 64.0 for _ in range(n)]
        for _ in range(50):
            k = rng.randint(1, min(n, 4))
            cs = rng.sample(range(1, n + 1), k)
            L = self._closed(D, cs)
            if L > 0:
                break
        if L == 0 and kind in ("tolband", "floateq"):
            kind = "tight"                              # all chosen customers sit on the depot: max_length = 0
        unit = Fraction(1, GRID)
        target = list(cs)
        if kind in ("tight", "dup"):
            ml = L
        elif kind == "tight+1":
            ml = L + unit
        elif kind == "tight-1":
            ml = max(L - unit, Fraction(0))
        elif kind == "loose":
            ml = sum(max(row) for row in D) + 1
        elif kind == "short":
            pos = [2 * D[0][j] for j in range(1, n + 1) if D[0][j] > 0]
            ml = max(min(pos) - unit, Fraction(0)) if pos else Fraction(0)
        elif kind == "zero":
            ml = Fraction(0)
        elif kind == "tolband":
            ml = L - Fraction(1, 1 << 17)              # the tour is 2^-17 too long: inside the checker's 1e-5 only
        elif kind == "floateq":
            j = cs[0]
            target = [j]
            x = torch.tensor(float(D[0][j]), dtype=torch.float32)
            cand = torch.tensor(float(2 * D[0][j]) + 1e-6, dtype=torch.float32)
            ml = None
            lo = cand.clone()
            for _ in range(64):
                lo = torch.nextafter(lo, torch.tensor(0.0))
            c = lo
            for _ in range(128):
                if bool(((c - x) - 1e-6) == x):
                    ml = Fraction(float(c))
                    break
                c = torch.nextafter(c, torch.tensor(10.0))
            if ml is None:
                ml = L
                kind = "tight"
        else:
            raise ValueError(kind)
        return self._td(pts, prize, float(ml)), {"kind": "exact/" + kind, "target": target}

    def instances(self, env, variant, rng, tier):
        n = variant["num_loc"]
        out = []
        k = 3 if tier == "quick" else 10
        torch.manual_seed(rng.randrange(1 << 30))
        td = env.generator(batch_size=[k])
        for r in range(k):
            out.append((td[r:r + 1].clone(), {"kind": "generator"}))
        kinds = ["tight", "tight+1", "tight-1", "floateq", "tolband", "loose", "short", "zero", "dup"]
        chosen = list(kinds) if tier != "quick" else ["tight", "tight+1", "tight-1", "floateq", "tolband"] + rng.sample(["loose", "short", "zero", "dup"], 2)
        if tier != "quick":
            chosen += [rng.choice(kinds[:5]) for _ in range(k)]
        for kind in chosen:
            if n > 9 and kind == "dup":
                continue
            out.append(self._exact_instance(rng, n, kind))
        if n == variants_min(self.variants(tier)):
            # degenerate: a single customer (own shape, so it is never batched with the others)
            for kind in ["tight", "tight-1", "loose"]:
                out.append(self._exact_instance(rng, 1, kind))
        self._cache.append((env, variant, out))
        return out

    # guided walks: follow the tour the instance was built around for as long as the mask offers it, then go home
    def extra_items(self, ctx, pid, tier):
        from vt.envprops import Item
        items = []
        for env, variant, insts in self._cache:
            for td_in, meta in insts:
                if "target" not in meta:
                    continue
                ep, td_reset, td_fin, actions = self._guided(env, td_in, list(meta["target"]), ctx.rng.choice([0, 1, 2]))
                envh.rewards_and_verdicts(env, td_fin, td_reset, actions, [ep], self.reward_td)
                items.append(Item(self, variant, env, td_in, td_reset, ep, dict(meta, chooser="guided"), "solo"))
                ctx.count("op/default/guided_episodes")
        self._cache = []
        return items

    @staticmethod
    def _guided(env, td_in, target, pad):
        td = env.reset(td_in.clone())
        td_reset = td.clone()
        ep = envh.Episode()
        acts = []
        t = 0
        while t < 64:
            done = bool(td["done"].all())
            if done:
                if pad <= 0:
                    break
                pad -= 1
            mrow = td["action_mask"].bool().tolist()[0]
            a = target[0] if (target and not done and mrow[target[0]]) else 0
            if target and a == target[0]:
                target.pop(0)
            else:
                target = []
            td.set("action", torch.tensor([a], dtype=torch.int64))
            td = env.step(td)["next"]
            ep.steps.append((mrow, a, bool(td["done"].reshape(1, -1).any())))
            acts.append(a)
            t += 1
        ep.final_mask = td["action_mask"].bool().tolist()[0]
        ep.complete = bool(td["done"].all())
        return ep, td_reset, td, torch.tensor([acts], dtype=torch.int64)

    # ---------------------------------------------------------------- Coq encoding
    def coq_instance(self, env, td_reset, variant):
        locs = td_reset["locs"][0]
        M = dist_matrix(locs)
        prize = td_reset["prize"][0, 1:]
        ml = td_reset["max_length_orig"].reshape(-1)[0]
        exact = on_grid(ml) and all(on_grid(v) for v in locs.reshape(-1).tolist())
        slack = 0 if exact else envh.zs(TOL32)
        return "(mk_op %s %s %s %s %s, %s)" % (clist(cz(envh.zs(v)) for v in prize.tolist()), cz(envh.zs(ml)), cz(envh.zs(EPS32)),
                                               envh.zmatrix(M), cz(envh.zs(TOL32)), cz(slack))

    def reward_tol(self, env, td_reset, n_steps):
        return Fraction(1e-6) * (n_steps + 2)

    # ---------------------------------------------------------------- spec-level enumeration (C05)
    def _problem(self, td_reset):
        locs = td_reset["locs"][0]
        D = [[Fraction(float(v)) for v in row] for row in dist_matrix(locs).tolist()]
        ml = Fraction(float(td_reset["max_length_orig"].reshape(-1)[0]))
        exact = on_grid(ml) and all(on_grid(v) for v in locs.reshape(-1).tolist())
        return D, ml, exact

    def feasible_solutions(self, env, td_reset, variant):
        """All tours (sequences of distinct customers) of the PROBLEM whose closed length leaves slack >= eps below the
        ORIGINAL max_length -- the documented tightness of the env, exactly the hypothesis of C05_op_mask_complete --
        encoded as customers + final depot. Exact rationals; independent of any mask.  Instances where some
        (prefix of a) tour is within 2e-6 of the boundary on inexact data are skipped (ill-conditioned in float32)."""
        D, ml, exact = self._problem(td_reset)
        n = len(D) - 1
        eps = Fraction(float(EPS32))
        sols = []
        self._tight_hidden = 0
        for k in range(0, n + 1):
            for cs in itertools.permutations(range(1, n + 1), k):
                L = self._closed(D, cs) if cs else Fraction(0)
                slack = ml - L
                if not exact and abs(slack - eps) < Fraction(2, 10 ** 6):
                    return None
                if slack >= eps:
                    # the triangle inequality (exact on integral point sets) makes every prefix closable as well
                    sols.append(tuple(cs) + (0,) if cs else (0, 0))
                elif slack >= 0:
                    self._tight_hidden += 1
        return sols

    def extra_c05(self, ctx, tier, items):
        out = super().extra_c05(ctx, tier, items)
        # evaluate the metric hypothesis of the triangle-inequality form of C05 on every instance
        seen = set()
        for it in items:
            key = str(it.td_in["locs"].tolist()) + str(it.td_in["depot"].tolist())
            if key in seen:
                continue
            seen.add(key)
            D, _, _ = self._problem(it.td_reset)
            m = len(D)
            ok = all(D[a][0] <= D[a][b] + D[b][0] for a in range(m) for b in range(m))
            ctx.count("op/tri0_hypothesis_%s" % ("holds" if ok else "fails(float-rounded distances; outside the corollary, inside the prefix form)"))
        return out

    # ---------------------------------------------------------------- hand-built action lists and batches (C03)
    def extra_c03(self, ctx, tier, items):
        """get_reward on what the mask-made rollouts never hand it (vt/envs/_handsol.py): lists not closed by a depot visit,
        one-column action tensors ([[0]], [[j]]) and BATCHES of them mixing [0] with [j] -- the `(actions == 0).all()` guard
        of the all-tours-have-length-1 shortcut: the call must raise or give every row the prize of its own list"""
        return _handsol.check_rewards(self, ctx, tier, _handsol.reward_batches(ctx.rng, items, tier))

    # ---------------------------------------------------------------- hand-built solutions (C06)
    def extra_c06(self, ctx, tier, items):
        # the generic single-fault corruptions (vt/envs/_base.py), on a sample of the episodes in the thorough tier (budget)
        done = [it for it in items if it.ep.complete]
        cap_n = 25 if tier == "quick" else 150
        sub = items if len(done) <= cap_n else ctx.rng.sample(done, cap_n)
        out = super().extra_c06(ctx, tier, sub) or {}
        rng = ctx.rng
        w = self._witness_noreturn()
        triples = [(w, "witness-no-return", [1]), (w, "witness-closed", [1, 0])]
        seen = set()
        for it in items:
            key = str(it.td_in["locs"].tolist()) + str(it.td_in["max_length"].tolist())
            if key in seen or it.batch != "solo":
                continue
            seen.add(key)
            n = it.td_in["locs"].shape[1]
            tours = []
            if "target" in it.meta:
                tours.append(list(it.meta["target"]))
            for _ in range(2 if tier == "quick" else 4):
                k = rng.randint(1, min(n, 5))
                tours.append(rng.sample(range(1, n + 1), k))
            for cs in tours:
                triples.append((it, "closed", cs + [0]))
                triples.append((it, "no-return", list(cs)))
                triples.append((it, "closed-padded", cs + [0, 0, 0]))
                triples.append((it, "depot-first", [0] + cs + [0]))
                if len(cs) >= 2:
                    m = len(cs) // 2
                    triples.append((it, "via-depot", cs[:m] + [0] + cs[m:] + [0]))
            if len(triples) > (120 if tier == "quick" else 900):
                break
        out.update(_handsol.check_solutions(self, ctx, tier, triples, "handbuilt"))
        return out


def variants_min(vs):
    return min(v["num_loc"] for v in vs)


ADAPTER = OPAdapter()
