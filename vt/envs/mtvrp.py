"""Adapter for MTVRPEnv (properties C01-C06): one model, the 16 named variants are generator presets.

Instances: generator stream per preset (margin stream: spec-on-impl with a small slack) and an exact-grid stream
(integral point sets /128, demands k/64, windows / service times / limits on the 1/128 grid; speed a power of two)
built around a target route so that ONE comparison site of get_action_mask / check_solution_validity is met with
equality, one grid unit below or one above:
   capl   demand_linehaul + used_capacity_linehaul > vehicle_capacity
   capb   demand_backhaul + used_capacity_backhaul > vehicle_capacity
   limit  current_route_length + d_ij + d_j0 * ~open > distance_limit
   twc    arrival_time <= late_tw                      (customer deadline)
   twd    max(arrival, early) + service + d_j0 <= late_tw[depot]  (closed routes)
   odep   open route whose (uncharged) way back would miss the depot deadline (checker site)
Every time site (twc, twd, odep) is built at speed 1, 1/2 and 2 in rotation (powers of two keep distance / speed exact), so
that travel time != distance exactly where a time comparison is binding; for twd / odep the customers' own windows are loose
and only the depot deadline is tight, and the last customer of the route either is served on arrival or waits.  Two target
walks per instance take the tight step (a) as the last customer before an explicit depot return, (b) as the last customer
of the episode.
"""
from __future__ import annotations

import itertools
from fractions import Fraction

import torch
from tensordict import TensorDict

from vt import envh
from vt.common import clist, cz, cnatlist, cbool, coq_eval_shards
from vt.envs._base import RoutingAdapter

INF = float("inf")
BIG = 1 << 200            # stands for +inf on the 2^-64 grid (every finite float32 is below 2^192 there)
U = 128                   # length / time grid
Q = 64                    # demand grid

PRESETS = ["cvrp", "ovrp", "vrpb", "vrpl", "vrptw", "ovrptw", "ovrpb", "ovrpl", "vrpbl", "vrpbtw", "vrpltw",
           "ovrpbl", "ovrpbtw", "ovrpltw", "vrpbltw", "ovrpbltw"]


def feats(preset):
    from rl4co.envs.routing.mtvrp.generator import VARIANT_GENERATION_PRESETS
    return {k: v > 0 for k, v in VARIANT_GENERATION_PRESETS[preset].items()}


def zs_inf(x) -> int:
    x = float(x)
    if x == INF:
        return BIG
    return envh.zs(x)


def zc(n: int) -> str:
    """Coq term for a (large, mostly dyadic) integer: odd mantissa in hex shifted left; parses ~4x faster than decimal"""
    n = int(n)
    if n == 0:
        return "0"
    a = abs(n)
    e = (a & -a).bit_length() - 1
    m = "0x%x" % (a >> e)
    if n < 0:
        m = "(-%s)" % m
    return "(Z.shiftl %s %d)" % (m, e) if e else m


def zmat(t) -> str:
    return clist(clist(zc(zs_inf(v)) for v in row) for row in t.tolist())


def on_grid(t, g):
    t = t.reshape(-1)
    fin = t[torch.isfinite(t)].double()
    return bool(((fin * g) == (fin * g).round()).all()) and bool((fin.abs() < 512).all())


class MTVRPAdapter(RoutingAdapter):
    name = "mtvrp"
    header = ("From Coq Require Import List ZArith Bool.\nFrom RL4CO Require Import Base.Num Base.EnvSig Env.MTVRP Harness.HMTVRP.\n"
              "Import ListNotations.\nOpen Scope Z_scope.\n")
    case_type = "mtvrp_case"
    props = {"C01": "check_C01", "C02": "check_C02", "C03": "check_C03", "C04": "check_C02", "C05": "check_C05", "C06": "check_C06"}
    sol_type = "(mtvrp_inst * Z) * list nat * bool"
    sol_fn = "check_C06_sol"
    reward_td = "reset"
    shard = 60
    tiny = 3
    # keys of the step output compared with the row model after every step in C02 / C04 (Harness/HMTVRP.v book_obs)
    book_keys = (("current_node", "int"), ("current_route_length", "f"), ("current_time", "f"), ("used_capacity_linehaul", "f"),
                 ("used_capacity_backhaul", "f"), ("visited", "bits"))
    book_fn = "check_book"
    book_type = "mtvrp_book"

    # ---------------------------------------------------------------- variants
    # speeds per time site (rotating; the first closed preset with windows gets 1/2 and 2) and, per speed, the offsets of
    # the tight deadline: -1 = the route misses the deadline by one grid unit (a too lax mask shows in C01), 0 / +1 = it
    # just makes it (a too tight mask shows in C05)
    SPEED_ROT = {"twd": [0.5, 2.0, 1.0], "twc": [1.0, 2.0, 0.5], "odep": [1.0, 0.5, 2.0]}
    DELTA_ROT = {0.5: [-1, 0, 1], 2.0: [0, 1, -1], 1.0: [0, -1, 1]}

    def variants(self, tier):
        self._exact = []          # (env, variant, td, meta) of the exact-grid instances of the collection that starts now
        self._rot_site, self._rot_delta = {}, {}
        out = []
        if tier == "quick":
            sizes = [3, 5, 4, 7]
            for k, p in enumerate(PRESETS):
                out.append({"num_loc": sizes[k % len(sizes)], "preset": p})
        else:
            sizes = [4, 6, 10, 20, 3, 8, 5, 15]
            for k, p in enumerate(PRESETS):
                out.append({"num_loc": sizes[k % len(sizes)], "preset": p})
        return out

    _rot = 0
    _cycle = ["uniform", "depot_first", "depot_last", "high", "uniform", "low"]

    def choosers(self, tier):
        """quick tier: two walks per instance, rotating through the chooser kinds (16 variants x 6 instances already give
        the spread); thorough: all of them"""
        if tier == "thorough":
            return ["uniform", "depot_first", "depot_last"]
        k = MTVRPAdapter._rot
        MTVRPAdapter._rot = (k + 2) % len(self._cycle)
        return [self._cycle[k], self._cycle[k + 1]]

    def variant_tag(self, variant):
        return variant.get("preset", "default")

    def make_env(self, variant):
        from rl4co.envs import MTVRPEnv
        return MTVRPEnv(generator_params={"num_loc": variant["num_loc"], "variant_preset": variant["preset"]}, check_solution=False)

    def max_steps(self, variant):
        return 2 * (2 * variant.get("num_loc", 20) + 1) + 6

    # ---------------------------------------------------------------- instances
    def instances(self, env, variant, rng, tier):
        n = variant["num_loc"]
        f = feats(variant["preset"])
        out = []
        k = 2 if tier == "quick" else 3
        torch.manual_seed(rng.randrange(1 << 30))
        td = env.generator(batch_size=[k])
        for r in range(k):
            out.append((td[r:r + 1].clone(), {"kind": "generator"}))
        # the comparison sites this variant has; the feature-specific ones first so that the quick tier covers them.
        # closed routes with windows: the depot-return site twice (two different speeds)
        must = ((["odep", "twc"] if f["O"] else ["twd", "twd", "twc"]) if f["TW"] else []) + (["limit"] if f["L"] else []) + (["capb"] if f["B"] else [])
        opt = ["capl"] + (["twc"] if f["TW"] else [])
        sites = must + opt
        ke = (5 if f["TW"] else 4) if tier == "quick" else (7 if f["TW"] else 6)
        for rep in range(ke):
            site = sites[rep] if rep < len(sites) else rng.choice(sites)
            speed, delta = 1.0, rng.choice([0, 0, 1, -1])
            if site in self.SPEED_ROT:
                k = self._rot_site.get(site, 0)
                self._rot_site[site] = k + 1
                speed = self.SPEED_ROT[site][k % 3]
                kd = self._rot_delta.get((site, speed), 0)
                self._rot_delta[(site, speed)] = kd + 1
                delta = self.DELTA_ROT[speed][kd % 3]
            td1, route = self.exact_instance(rng, n, f, site, delta, speed)
            meta = {"kind": "exact/%s%+d@speed%g" % (site, delta, speed), "target_route": route}
            out.append((td1, meta))
            self._exact.append((env, variant, td1, meta))
        if variant["preset"] == "vrptw":
            # two fixed tiny closed-route instances in which ONLY the depot-return comparison binds and speed != 1
            for name, td1, route in self.speed_depot_instances():
                meta = {"kind": "exact/hand-" + name, "target_route": route}
                out.append((td1, meta))
                self._exact.append((env, dict(variant, num_loc=2), td1, meta))
        return out

    @staticmethod
    def mk_td(pts, dl, db, cap=1.0, limit=INF, open_=False, tw=None, svc=None, speed=1.0):
        n1 = len(pts)
        tw = tw if tw is not None else [[0.0, INF]] * n1
        svc = svc if svc is not None else [0.0] * n1
        return TensorDict({
            "locs": torch.tensor([pts], dtype=torch.float32),
            "demand_linehaul": torch.tensor([dl], dtype=torch.float32),
            "demand_backhaul": torch.tensor([db], dtype=torch.float32),
            "distance_limit": torch.tensor([[limit]], dtype=torch.float32),
            "time_windows": torch.tensor([tw], dtype=torch.float32),
            "service_time": torch.tensor([svc], dtype=torch.float32),
            "vehicle_capacity": torch.tensor([[cap]], dtype=torch.float32),
            "capacity_original": torch.tensor([[cap]], dtype=torch.float32),
            "open_route": torch.tensor([[bool(open_)]], dtype=torch.bool),
            "speed": torch.tensor([[speed]], dtype=torch.float32),
        }, batch_size=[1])

    def speed_depot_instances(self):
        """depot at the origin, customers 1, 2 at distance 40/128 from it and 64/128 from each other, service 8/128, customer
        windows wide open; closed routes.
        half: speed 1/2 (travel time = 2 x distance); route 0-2-1-0 is back at 304, the depot closes at 303 (one unit early):
              after 2 the mask must refuse 1 (a return test that adds the distance instead of the travel time admits it).
        two:  speed 2 (travel time = distance / 2); route 0-1-2-0 is back at 88 = the depot deadline: feasible, 2 must be
              offered after 1 (a return test that adds the distance hides it)."""
        P = self.P
        pts = [P(0, 0), P(24, 32), P(24, -32)]
        W = 1000 / U
        out = []
        out.append(("speed-half-depot-1", self.mk_td(pts, [0, .25, .25], [0, 0, 0], tw=[[0, 303 / U], [0, W], [0, W]],
                                                     svc=[0, 8 / U, 8 / U], speed=0.5), [2, 1]))
        out.append(("speed-two-depot+0", self.mk_td(pts, [0, .25, .25], [0, 0, 0], tw=[[0, 88 / U], [0, W], [0, W]],
                                                    svc=[0, 8 / U, 8 / U], speed=2.0), [1, 2]))
        return out

    def exact_instance(self, rng, n, f, site, delta, speed=1.0):
        """exact-grid instance with n customers; everything in grid units (Fractions) until the very end"""
        from rl4co.utils.ops import get_distance
        pts = envh.integral_coords(rng, n + 1)
        locs = torch.tensor(pts, dtype=torch.float32)
        Df = get_distance(locs[:, None, :], locs[None, :, :])
        D = [[int(round(float(v) * U)) for v in row] for row in Df.tolist()]       # integers (self-checked by is_exact)
        sp = Fraction(speed)
        T = [[Fraction(v) / sp for v in row] for row in D]
        opn = f["O"]
        # ---- target route: linehaul members first, then backhaul members
        m = rng.randint(1, min(n, 3))
        if site == "twd" and n >= 2:
            m = max(m, 2)
        members = rng.sample(range(1, n + 1), m)
        if site in ("twd", "odep"):
            # the customer farthest from the depot is on the target route, so that no other customer's out-and-back trip
            # is longer than the route and the depot deadline can be made tight for the route without making a customer unservable
            far = max(range(1, n + 1), key=lambda j: D[0][j])
            if far not in members:
                members[0] = far
        is_b = [False] * (n + 1)
        if f["B"]:
            for j in range(1, n + 1):
                is_b[j] = rng.random() < 0.4
            if site == "capb" and not any(is_b[j] for j in members):
                is_b[members[-1]] = True
        route = [j for j in members if not is_b[j]] + [j for j in members if is_b[j]]
        # ---- demands (units of 1/64, capacity 64)
        dem = [0] + [rng.randint(1, 40) for _ in range(n)]

        def fill(group, total):
            if not group:
                return
            total = max(total, len(group))
            cuts = sorted(rng.sample(range(1, total), len(group) - 1)) if len(group) > 1 else []
            parts = [b - a for a, b in zip([0] + cuts, cuts + [total])]
            for j, p in zip(group, parts):
                dem[j] = min(p, 64)
        lh = [j for j in route if not is_b[j]]
        bh = [j for j in route if is_b[j]]
        if site == "capl":
            fill(lh, 64 + delta)
        elif site == "capb":
            fill(bh, 64 + delta)
        else:
            fill(lh, rng.randint(len(lh), 64) if lh else 0)
            fill(bh, rng.randint(len(bh), 64) if bh else 0)
        dl = [0 if is_b[j] else dem[j] for j in range(n + 1)]
        db = [dem[j] if is_b[j] else 0 for j in range(n + 1)]
        # ---- route cost and distance limit
        legs = [D[a][b] for a, b in zip([0] + route, route)]
        cost = sum(legs) + (0 if opn else D[route[-1]][0])
        limit = INF
        if f["L"]:
            need = max(D[0][j] + (0 if opn else D[j][0]) for j in range(1, n + 1))     # keeps the instance solvable
            lim_u = cost + delta if site == "limit" else cost + rng.choice([0, 3, 40, 400])
            limit = max(lim_u, need) / U
        # ---- time windows (units of 1/128; travel times may be half units at speed 2)
        tw, svc = None, None
        if f["TW"]:
            F = Fraction
            depot_site = site in ("twd", "odep")
            svc_u = [0] + [rng.choice([0, 0, 4, 8, 19]) for _ in range(n)]
            if depot_site:
                for j in route:
                    svc_u[j] = rng.choice([4, 8, 19])      # so that a dropped service time shows at the depot deadline
            lo_u = [F(0)] * (n + 1)
            hi_u = [None] * (n + 1)
            t = F(0)
            arr = {}
            prev = 0
            for k, j in enumerate(route):
                a = t + T[prev][j]
                arr[j] = a
                if depot_site and k == len(route) - 1:
                    mode = rng.choice(["free", "wait"])          # the last customer is served on arrival / after waiting
                else:
                    mode = rng.choice(["free", "free", "wait", "early"])
                if mode == "wait":
                    lo_u[j] = F(int(a) + rng.choice([1, 2, 8]))          # vehicle waits
                elif mode == "early":
                    lo_u[j] = F(max(0, int(a) - rng.choice([0, 1, 5])))
                st = max(a, lo_u[j])
                t = st + svc_u[j]
                prev = j
            ret = t + T[prev][0]
            for j in range(1, n + 1):
                direct = T[0][j]
                if j in arr and site == "twc" and j == route[-1]:
                    h = arr[j] + delta                                    # tight customer deadline
                elif j in arr:
                    h = max(arr[j], lo_u[j]) + (rng.choice([300, 500]) if depot_site else rng.choice([1, 7, 60, 300]))
                else:
                    if not depot_site:
                        lo_u[j] = F(rng.choice([0, 0, int(direct) + 3]))
                    h = max(direct, lo_u[j]) + (300 if depot_site else rng.choice([1, 30, 300]))
                # reachable on a route of its own (equality allowed: the mask compares with <=), window of positive length
                hi_u[j] = max(h, direct, lo_u[j] + 1)
            single = max(max(T[0][j], lo_u[j]) + svc_u[j] + T[j][0] for j in range(1, n + 1))
            if opn:
                if site == "odep":
                    # passes the checker's data assert (lo + d_j0 / speed + service <= hi_0) with little room
                    h0 = max(lo_u[j] + T[j][0] + svc_u[j] for j in range(1, n + 1)) + rng.choice([0, 1, 5])
                    h0 = max(h0, 1)
                else:
                    h0 = ret + 600 + single
            else:
                h0 = ret + delta if site == "twd" else ret + 600
                h0 = max(h0, single)          # every customer can be served alone and the vehicle be back in time
            hi_u[0] = F(h0)
            tw = [[float(F(lo_u[j]) / U), float(F(hi_u[j]) / U)] for j in range(n + 1)]
            svc = [s_ / U for s_ in svc_u]
        return self.mk_td(pts, [v / Q for v in dl], [v / Q for v in db], 1.0, limit, opn, tw, svc, speed), route

    # ---------------------------------------------------------------- target walks: the tight step is actually taken
    def admitted_prefix(self, env, td_in, wanted):
        """the longest prefix of [wanted] that the real mask admits step by step"""
        td = env.reset(td_in.clone())
        prefix = []
        for a in wanted:
            if bool(td["done"].reshape(-1)[0]) or not bool(td["action_mask"][0, a]):
                break
            td.set("action", torch.tensor([a], dtype=torch.int64))
            td = env.step(td)["next"]
            prefix.append(a)
        return prefix

    def extra_items(self, ctx, pid, tier):
        """two more episodes per exact-grid instance, following the target route (around which the tight constraint was
        built) as far as the mask admits it: (a) first thing, closed by an explicit depot visit, then on with a chooser;
        (b) after every other customer has been served on a route of its own, so that the tight step is the last step of
        the episode (the row is done at a customer; no depot visit follows)"""
        from vt.envprops import Item
        rng = ctx.rng
        out = []
        for env, variant, td_in, meta in getattr(self, "_exact", []):
            route = list(meta["target_route"])
            n = td_in["locs"].shape[1] - 1
            others = [j for j in range(1, n + 1) if j not in route]
            rng.shuffle(others)
            plans = [("a", route + [0])]
            if others:
                plans.append(("b", [x for j in others for x in (j, 0)] + route))
            for tag, wanted in plans:
                prefix = self.admitted_prefix(env, td_in, wanted)
                ch = rng.choice(["uniform", "depot_last", "depot_first"])
                eps, td_reset, td_fin, actions = envh.rollout(env, td_in, rng, choosers=[ch], forced=[prefix],
                                                              pad_steps=rng.choice([0, 1]), max_steps=self.max_steps(variant))
                envh.rewards_and_verdicts(env, td_fin, td_reset, actions, eps, self.reward_td)
                out.append(Item(self, variant, env, td_in, td_reset, eps[0],
                                dict(meta, chooser="target-%s+%s" % (tag, ch), admitted_prefix=len(prefix)), "solo"))
                ctx.count("%s/%s/target_walks_%s" % (self.name, self.variant_tag(variant), tag))
                if len(prefix) == len(wanted):
                    ctx.count("%s/target_route_fully_admitted_%s" % (self.name, tag))
        return out

    # ---------------------------------------------------------------- Coq encoding
    def dist_matrix(self, td_reset):
        from rl4co.utils.ops import get_distance
        locs = td_reset["locs"][0]
        return get_distance(locs[:, None, :], locs[None, :, :])

    _dist_cache = None

    def dist_consistent(self, td):
        """The model has ONE distance matrix and ONE travel-time matrix per instance; the code computes distances in four
        places with different tensor shapes.  Bitwise comparison of all of them with the matrices handed to the model:
        get_action_mask d_ij (gathered current node [B,1,2] against locs [B,N,2]), get_action_mask d_j0, _step /
        check_solution_validity (pairs [B,2]), _get_reward (sequences [B,L,2]); and of the three ways the code divides by
        the speed ([B,N]/[B,1] in the mask, [B,1]/[B,1] in _step, [B]/[B] in the checker)."""
        from rl4co.utils.ops import get_distance, gather_by_index
        if self._dist_cache is None:
            self._dist_cache = {}
        key = id(td)
        hit = self._dist_cache.get(key)
        if hit is not None and hit[0] is td:
            return hit[1]
        locs = td["locs"][:1]
        n1 = locs.shape[1]
        D = self.dist_matrix(td)
        sp = td["speed"][:1]
        T = D / sp[0]
        idx = torch.arange(n1)
        ok = True
        for i in range(n1):
            cur = torch.tensor([i])
            d_ij = get_distance(gather_by_index(locs, cur)[..., None, :], locs)            # mask
            ok = ok and torch.equal(d_ij[0], D[i]) and torch.equal((d_ij / sp)[0], T[i])
        d_j0 = get_distance(locs, locs[..., 0:1, :])
        ok = ok and torch.equal(d_j0[0], D[:, 0]) and torch.equal((d_j0 / sp)[0], T[:, 0])
        pa, pb = idx.repeat_interleave(n1), idx.repeat(n1)
        big = locs.expand(n1 * n1, n1, 2)
        d_step = get_distance(gather_by_index(big, pa), gather_by_index(big, pb))             # _step / checker: [B,2] pairs
        ok = ok and torch.equal(d_step.reshape(n1, n1), D)
        ok = ok and torch.equal((d_step[..., None] / sp.expand(n1 * n1, 1)).reshape(n1, n1), T)      # _step
        ok = ok and torch.equal((d_step / sp.expand(n1 * n1, 1).squeeze(-1)).reshape(n1, n1), T)     # checker
        seq_a, seq_b = pa[None, :], pb[None, :]
        d_rew = get_distance(gather_by_index(locs, seq_a), gather_by_index(locs, seq_b))       # _get_reward: [B,L,2]
        ok = ok and torch.equal(d_rew.reshape(n1, n1), D)
        self._dist_cache[key] = (td, bool(ok))
        if len(self._dist_cache) > 4000:
            self._dist_cache.clear()
        return bool(ok)

    def is_exact(self, td):
        """all data on the grids on which every float32 operation of the env is exact"""
        sp = float(td["speed"][0, 0])
        if sp not in (0.5, 1.0, 2.0):
            return False
        D = self.dist_matrix(td)
        return (on_grid(td["locs"], U) and on_grid(D, U) and on_grid(td["demand_linehaul"], Q) and on_grid(td["demand_backhaul"], Q)
                and on_grid(td["vehicle_capacity"], Q) and on_grid(td["distance_limit"], U) and on_grid(td["time_windows"], 2 * U)
                and on_grid(td["service_time"], 2 * U))

    def coq_instance(self, env, td_reset, variant):
        if not self.dist_consistent(td_reset):
            raise ValueError("the code's own distance computations disagree bitwise on this instance")
        D = self.dist_matrix(td_reset)
        T = D / td_reset["speed"][0]
        zl = lambda t: clist(zc(zs_inf(v)) for v in t.reshape(-1).tolist())
        slack = 0 if self.is_exact(td_reset) else int(Fraction(1e-5) * (1 << envh.S64))
        return "(mk_mtvrp %s %s %s %s %s %s %s %s %s %s %s)" % (
            zl(td_reset["demand_linehaul"][0]), zl(td_reset["demand_backhaul"][0]),
            zc(zs_inf(td_reset["vehicle_capacity"][0, 0])), zc(zs_inf(td_reset["distance_limit"][0, 0])),
            cbool(bool(td_reset["open_route"][0, 0])),
            zl(td_reset["time_windows"][0, :, 0]), zl(td_reset["time_windows"][0, :, 1]), zl(td_reset["service_time"][0]),
            zmat(D), zmat(T), zc(slack))

    def reward_tol(self, env, td_reset, n_steps):
        return Fraction(1e-6) * (n_steps + 2) * 2

    # ---------------------------------------------------------------- problem definition in exact rationals (C05, signatures)
    def spec_data(self, td):
        fr = lambda v: Fraction(float(v)) if float(v) != INF else None
        D = [[Fraction(float(v)) for v in row] for row in self.dist_matrix(td).tolist()]
        T = [[Fraction(float(v)) for v in row] for row in (self.dist_matrix(td) / td["speed"][0]).tolist()]
        return {"dl": [fr(v) for v in td["demand_linehaul"][0].tolist()], "db": [fr(v) for v in td["demand_backhaul"][0].tolist()],
                "cap": fr(td["vehicle_capacity"][0, 0]), "lim": fr(td["distance_limit"][0, 0]), "open": bool(td["open_route"][0, 0]),
                "lo": [fr(v) for v in td["time_windows"][0, :, 0].tolist()], "hi": [fr(v) for v in td["time_windows"][0, :, 1].tolist()],
                "sv": [fr(v) for v in td["service_time"][0].tolist()], "D": D, "T": T}

    @staticmethod
    def route_faults(S, r, slack=0):
        """which parts of the problem definition a non-empty route violates (by more than [slack]); also reports zero-slack
        time steps"""
        le = lambda a, b: b is None or a <= b + slack
        faults, tight = [], False
        if not le(sum(S["dl"][j] for j in r), S["cap"]):
            faults.append("linehaul-load")
        if not le(sum(S["db"][j] for j in r), S["cap"]):
            faults.append("backhaul-load")
        for k, x in enumerate(r):
            if S["db"][x] > 0 and any(S["dl"][y] > 0 for y in r[k + 1:]):
                faults.append("precedence")
                break
        cost = sum(S["D"][a][b] for a, b in zip([0] + list(r), r)) + (0 if S["open"] else S["D"][r[-1]][0])
        if not le(cost, S["lim"]):
            faults.append("limit")
        t, prev = Fraction(0), 0
        for x in r:
            st = max(t + S["T"][prev][x], S["lo"][x])
            if not le(st, S["hi"][x]):
                faults.append("window")
                break
            if S["hi"][x] is not None and t + S["T"][prev][x] == S["hi"][x]:
                tight = True
            t, prev = st + S["sv"][x], x
        else:
            if not S["open"]:
                if not le(t + S["T"][prev][0], S["hi"][0]):
                    faults.append("depot-window")
                elif S["hi"][0] is not None and t + S["T"][prev][0] == S["hi"][0]:
                    tight = True
        return faults, tight

    @staticmethod
    def split_routes(acts):
        routes, cur = [], []
        for a in acts:
            if a == 0:
                routes.append(cur)
                cur = []
            else:
                cur.append(a)
        routes.append(cur)
        return [r for r in routes if r]

    def feasible_solutions(self, env, td_reset, variant):
        """all feasible route sets of a tiny instance, from the PROBLEM DEFINITION (exact rationals), each
        encoded canonically (routes separated by one depot visit, trailing depot). Independent of any mask."""
        S = self.spec_data(td_reset)
        n = len(S["dl"]) - 1
        ok_cache = {}

        def ok(r):
            r = tuple(r)
            if r not in ok_cache:
                ok_cache[r] = not self.route_faults(S, r)[0]
            return ok_cache[r]
        sols = []
        for perm in itertools.permutations(range(1, n + 1)):
            for cuts in range(1 << (n - 1)):
                routes, cur = [], [perm[0]]
                for k in range(1, n):
                    if cuts >> (k - 1) & 1:
                        routes.append(cur)
                        cur = []
                    cur.append(perm[k])
                routes.append(cur)
                if all(ok(r) for r in routes):
                    seq = []
                    for r in routes:
                        seq += r + [0]
                    sols.append(tuple(seq))
        return sols

    # ---------------------------------------------------------------- signatures: env / feature: mechanism
    @staticmethod
    def clock_ok(S, acts, use_speed):
        """the time loop of check_solution_validity in exact rationals, clocking with distance / speed (as the code does
        since /repo ea27328) or with the plain distance (as it did before); like the code it tests the depot's deadline on
        every depot visit, open routes included"""
        M = S["T"] if use_speed else S["D"]
        t, node = Fraction(0), 0
        for a in acts:
            t = max(t + M[node][a], S["lo"][a])
            if S["hi"][a] is not None and t > S["hi"][a]:
                return False
            t, node = t + S["sv"][a], a
            if a == 0:
                t = Fraction(0)
        return True

    @staticmethod
    def data_assert_ok(S, use_speed):
        """the instance-level assert of check_solution_validity: lo j + d(j,0) + service j <= hi 0 for every node -- with
        the plain distance, as the code has it, or with distance / speed"""
        M = S["T"] if use_speed else S["D"]
        return S["hi"][0] is None or all(S["lo"][j] + M[j][0] + S["sv"][j] <= S["hi"][0] for j in range(len(S["lo"])))

    def classify(self, td_in, acts, tag, msg=""):
        """THE classifier (single rows and rows of batches): the recorded mechanism that explains why the solution [acts] of
        the instance [td_in] got the concrete tag, from an exact-rational replay of the problem definition and of the
        checker's clock; None when no recorded mechanism explains it.  For tag 14 (feasible, rejected) the caller must pass
        a row that the checker rejects ALONE.  Order: open-route depot deadline (open finding) before the speed mechanisms."""
        S = self.spec_data(td_in)
        routes = self.split_routes(acts)
        # on float data (generator stream) a constraint counts as violated only beyond the slack the harness grants
        slack = 0 if self.is_exact(td_in) else 3 * Fraction(1e-5)
        fl = [self.route_faults(S, r, slack) for r in routes]
        faults = sorted({x for f, _ in fl for x in f})
        tight = any(t for _, t in fl)
        speed = float(td_in["speed"][0, 0])
        has_tw = any(h is not None for h in S["hi"])
        in_range = all(0 <= a < len(S["dl"]) for a in acts)
        if tag == 16 and has_tw and tight:
            return "mtvrp/TW: mask-hides-visit-arriving-exactly-at-deadline"            # fixed by /repo 9b8ead8
        if tag == 14 and in_range and has_tw:
            if S["open"] and not self.clock_ok(S, acts, True):
                return "mtvrp/O+TW: checker-enforces-depot-deadline-on-open-route"       # open
            if speed != 1.0 and self.clock_ok(S, acts, True):
                by_assert = self.data_assert_ok(S, True) and not self.data_assert_ok(S, False)
                by_clock = not self.clock_ok(S, acts, False)
                if by_assert and by_clock and msg:
                    # both old behaviours would reject: the checker's own message says which assert fired
                    by_assert, by_clock = "get back to depot in time" in msg, "start service before deadline" in msg
                if by_assert:
                    return "mtvrp/TW,speed!=1: checker-data-assert-ignores-speed"        # fixed by /repo 004c254
                if by_clock:
                    return "mtvrp/TW,speed!=1: checker-ignores-speed"                    # fixed by /repo ea27328
        if tag == 15 and in_range:
            unclosed = bool(acts) and acts[-1] != 0
            slow_clock_ok = speed != 1.0 and self.clock_ok(S, acts, False)
            mech, unexplained = set(), not faults
            for k, (fr_, _) in enumerate(fl):
                for x in fr_:
                    if x == "precedence":
                        mech.add("prec")
                    elif x in ("limit", "depot-window") and unclosed and k == len(fl) - 1:
                        mech.add("ret")
                    elif x in ("window", "depot-window") and slow_clock_ok:
                        mech.add("speed")
                    else:
                        unexplained = True
            if not unexplained:
                if "prec" in mech:
                    return "mtvrp/B: checker-misses-linehaul-after-backhaul"             # open
                if "ret" in mech:
                    return "mtvrp/L|TW: checker-skips-final-return-leg"                  # open
                if "speed" in mech:
                    return "mtvrp/TW,speed!=1: checker-ignores-speed"                    # fixed by /repo ea27328
        return None

    def signature(self, item, tag, step):
        """<env>/<feature>: <mechanism> for the mechanisms that are understood (each is a recorded finding, open or fixed);
        <env>/<preset>: <generic tag> otherwise"""
        from vt.envprops import CONCRETE
        base = CONCRETE.get(tag, "tag%d" % tag)
        try:
            acts = item.ep.actions
            alone_rejected = True
            if tag == 14 and str(item.batch).startswith("batch"):
                # a row of a rejected batch: it explains the rejection only if the checker rejects it alone too (otherwise
                # batch_signature looks at the rows that are rejected alone)
                alone_rejected = envh.verdict(item.env, item.td_reset, torch.tensor([acts], dtype=torch.int64)) is False
            if alone_rejected:
                sig = self.classify(item.td_in, acts, tag, getattr(item.ep, "checker_msg", "") or "")
                if sig:
                    return sig
        except Exception:
            pass
        return "%s/%s: %s" % (self.name, self.variant_tag(item.variant), base)

    def batch_signature(self, obj):
        """a batch all of whose rows are feasible was rejected: classified by the rows the checker rejects ALONE, with the
        same classifier as single rows; if it accepts every row alone the rejection depends on the batch itself"""
        from vt.envprops import td_from_hex
        alone = obj.get("row_alone_verdicts") or []
        rej = [k for k, v in enumerate(alone) if not v]
        if alone and not rej:
            return "mtvrp/batch: checker-rejects-batch-whose-rows-it-accepts-alone"
        for k in rej:
            try:
                sig = self.classify(td_from_hex(obj["batch_instances"][k]), [int(a) for a in obj["batch_actions"][k]], 14)
            except Exception:
                sig = None
            if sig:
                return sig
        return None

    def batched_checker(self, ctx, tier, rows, prefix="batched", cap=None):
        orig = ctx.failure

        def failure(sig, obj, tag=""):
            if obj.get("batch_composition") and int(obj.get("code", 0)) % 1000 == 14 and obj.get("batch_verdict") is False:
                sig = self.batch_signature(obj) or sig
                obj = dict(obj, signature_from="rows rejected alone: %s" % [k for k, v in enumerate(obj.get("row_alone_verdicts") or []) if not v])
            return orig(sig, obj, tag=tag)
        ctx.failure = failure
        try:
            return super().batched_checker(ctx, tier, rows, prefix=prefix, cap=cap)
        finally:
            ctx.failure = orig

    # ---------------------------------------------------------------- hand-built witnesses (DESIGN section 8 + C06 deviations)
    @staticmethod
    def P(x, y=0):
        return [0.5 + x / 128.0, 0.25 + y / 128.0]

    def witnesses(self):
        """(name, td, action list) -- the real-code twins of the `_refuted` theorems of Env/MTVRPProofs.v"""
        P, mk = self.P, self.mk_td
        W = 1000.0
        return [
            # customer at distance exactly 0.625 whose window closes at 0.625 (mask: arrival < late_tw)
            ("tw_eq", mk([P(0), P(80)], [0, .5], [0, 0], tw=[[0, 4.0], [0, 0.625]], svc=[0, 0]), [1, 0]),
            # back at the depot exactly at the depot's deadline
            ("depot_eq", mk([P(0), P(80)], [0, .5], [0, 0], tw=[[0, 1.25], [0, 1.0]], svc=[0, 0]), [1, 0]),
            # linehaul (1) after backhaul (2)
            ("prec", mk([P(0), P(5), P(9)], [0, .5, 0], [0, 0, .5]), [2, 1, 0]),
            # last route not closed: its way back breaks the limit
            ("final_return", mk([P(0), P(5), P(80)], [0, .5, .5], [0, 0, 0], limit=1.0), [1, 0, 2]),
            # open route, depot deadline
            ("open_depot", mk([P(0), P(80)], [0, .5], [0, 0], open_=True, tw=[[0, 1.0], [0, 115 / 128.0]], svc=[0, 0]), [1, 0]),
            ("speed2", mk([P(0), P(80)], [0, .5], [0, 0], tw=[[0, 4.0], [0, 0.5]], svc=[0, 0], speed=2.0), [1, 0]),
            ("speed_half", mk([P(0), P(80)], [0, .5], [0, 0], tw=[[0, 4.0], [0, 1.0]], svc=[0, 0], speed=0.5), [1, 0]),
            # speed 2: window opens at 40/128 = arrival; back at 80/128 <= 100/128; the data assert used to add the distance 80/128
            # (fixed by /repo 004c254; kept so that the signature is reported again if it returns)
            ("data_assert_speed", mk([P(0), P(80)], [0, .5], [0, 0], tw=[[0, 100 / 128.0], [40 / 128.0, 1.0]], svc=[0, 0], speed=2.0), [1, 0]),
        ]

    def _fake_item(self, env, td, acts, meta, verdict=None):
        from vt.envprops import Item
        ep = envh.Episode()
        ep.steps = [([], a, False) for a in acts]
        ep.checker = verdict
        variant = {"num_loc": td["locs"].shape[1] - 1, "preset": "hand-built"}
        return Item(self, variant, env, td, env.reset(td.clone()), ep, meta, "solo")

    _wenv = None

    def witness_env(self):
        if self._wenv is None:
            from rl4co.envs import MTVRPEnv
            self._wenv = MTVRPEnv(generator_params={"num_loc": 3, "variant_preset": "all"}, check_solution=False)
        return self._wenv

    # ---------------------------------------------------------------- instance flags (wfb / solvableb / metricb), every property
    def flags(self, ctx, items):
        seen, cases = {}, []
        n_chk = n_bad = 0
        for it in items:
            key = id(it.td_in)
            if key in seen:
                continue
            n_chk += 1
            if not self.dist_consistent(it.td_reset):
                n_bad += 1        # such an instance is not handed to the model (coq_instance raises, counted not_representable)
            try:
                seen[key] = len(cases)
                cases.append(self.coq_instance(it.env, it.td_reset, it.variant))
            except ValueError:
                del seen[key]
        if not cases:
            return {}
        codes = coq_eval_shards("cases_flags_%s_%s" % (ctx.pid, self.name), self.header, "mtvrp_inst * Z", "check_flags", cases, shard=200)
        out = {"instances": len(codes), "wfb_false": sum(1 for c in codes if not c & 1),
               "solvableb_false": sum(1 for c in codes if not c & 2), "metricb_false": sum(1 for c in codes if not c & 4)}
        for k, v in out.items():
            ctx.count("%s/flags/%s" % (self.name, k), v)
        ctx.count("%s/distance_data/instances_compared" % self.name, n_chk)
        ctx.count("%s/distance_data/inconsistent" % self.name, n_bad)
        return {"flags": out, "distance_data": {"instances_compared": n_chk, "inconsistent": n_bad}}

    def extra_c01(self, ctx, tier, items):
        return self.flags(ctx, items)

    def extra_c02(self, ctx, tier, items):
        return self.flags(ctx, items)

    def extra_c03(self, ctx, tier, items):
        return self.flags(ctx, items)

    def extra_c04(self, ctx, tier, items):
        out = self.flags(ctx, items)
        out.update(super().extra_c04(ctx, tier, items) or {})
        return out

    # ---------------------------------------------------------------- C05: spec enumeration vs exhaustive mask expansion
    # tiny exact-grid instances enumerated on EVERY run, one per comparison site of the mask met with equality
    # (name, preset whose features the instance has, site, speed); delta = 0: the target route satisfies the constraint exactly
    C05_SITES = [("capl", "cvrp", "capl", 1.0), ("capb", "vrpb", "capb", 1.0), ("capb-open", "ovrpb", "capb", 1.0),
                 ("limit", "vrpl", "limit", 1.0), ("limit-open", "ovrpl", "limit", 1.0), ("limit-b", "vrpbl", "limit", 1.0),
                 ("twc", "vrptw", "twc", 1.0), ("twc@2", "vrptw", "twc", 2.0), ("twd@.5", "vrptw", "twd", 0.5), ("twd@2", "vrptw", "twd", 2.0)]

    def c05_site_items(self, rng):
        env = self.witness_env()
        out = []
        for name, preset, site, speed in self.C05_SITES:
            td, route = self.exact_instance(rng, 3, feats(preset), site, 0, speed)
            it = self._fake_item(env, td, [], {"kind": "exact/c05-site/%s" % name, "target_route": route})
            it.variant = {"num_loc": 3, "preset": preset}
            out.append(it)
        return out

    def _enumerate(self, ctx, it, stats):
        """the property itself on one small instance: every solution enumerated from the problem definition must be among
        the complete sequences found by exhaustive expansion of the real mask"""
        sols = self.feasible_solutions(it.env, it.td_reset, it.variant)
        depth = 2 * (2 * (it.td_in["locs"].shape[1] - 1) + 1) + 2
        reach, trunc = envh.expand_all(it.env, it.td_in, max_depth=depth)
        if trunc:
            # small instance: the cap on the number of sequences is not hit, so this is an admitted sequence that does not
            # finish within twice the proven bound; the complete ones found are still all the complete ones of that length,
            # and every canonical solution is shorter
            ctx.count("%s/c05_unfinished_sequences_exist" % self.name)
        R = {self.strip(x) for x in reach}
        S = {self.strip(x) for x in sols}
        stats["inst"] += 1
        stats["sol"] += len(S)
        ctx.count("%s/c05_enumerated_instances" % self.name)
        ctx.count("%s/c05_feasible_solutions" % self.name, len(S))
        ctx.count("%s/c05_mask_reachable" % self.name, len(R))
        ctx.seen({"e": self.name, "c05": sorted(S)[:3], "k": it.meta.get("kind"), "v": it.variant, "i": str(it.td_in["locs"].tolist())})
        missing = S - R
        if missing:
            stats["missing"] += len(missing)
            # report the hidden solution with a boundary-tight step first (classified signature), else the smallest
            spec = self.spec_data(it.td_in)
            ranked = sorted(missing, key=lambda q: (not any(self.route_faults(spec, r)[1] for r in self.split_routes(q)), q))
            hidden = list(ranked[0])
            fake = self._fake_item(it.env, it.td_in, hidden, it.meta)
            fake.variant = it.variant
            v = envh.verdict(it.env, it.td_reset, torch.tensor([hidden + [0]], dtype=torch.int64))
            ctx.failure(self.signature(fake, 16, 0),
                        fake.replay({"what": "a solution feasible by the problem definition is not reachable through the mask",
                                     "hidden_solution": hidden + [0], "shipped_checker_accepts_it": v,
                                     "mask_at_reset": it.td_reset["action_mask"][0].tolist(),
                                     "n_hidden": len(missing), "n_feasible": len(S), "n_reachable": len(R)}),
                        tag=self.name)
        stats["extra"] += len(R - S)

    def extra_c05(self, ctx, tier, items):
        out = self.flags(ctx, items)
        rng = ctx.rng
        limit = self.tiny if tier == "quick" else self.tiny + 1
        budget = 6 if tier == "quick" else 16
        stats = {"inst": 0, "sol": 0, "missing": 0, "extra": 0}
        done = set()
        # (1) always: one tiny instance per tight site, the two hand-built speed / depot-return instances of the stream, the
        #     two boundary witnesses of the (fixed) strict-comparison finding
        chosen = self.c05_site_items(rng)
        for it in items:
            if it.batch == "solo" and str(it.meta.get("kind", "")).startswith("exact/hand") and id(it.td_in) not in done:
                done.add(id(it.td_in))
                chosen.append(it)
        env = self.witness_env()
        for name, td, acts in self.witnesses()[:2]:
            chosen.append(self._fake_item(env, td, acts, {"kind": "witness/" + name}))
        # (2) tiny exact-grid instances of the stream, spread over the presets, speed != 1 first
        by_preset = {}
        for it in items:
            if it.batch != "solo" or it.variant.get("num_loc", 99) > limit or not str(it.meta.get("kind", "")).startswith("exact"):
                continue
            if id(it.td_in) in done:
                continue
            done.add(id(it.td_in))
            by_preset.setdefault(it.variant["preset"], []).append(it)
        pools = [v for _, v in sorted(by_preset.items())]
        for p in pools:
            rng.shuffle(p)
            p.sort(key=lambda it: float(it.td_in["speed"][0, 0]) != 1.0)          # popped from the end
        n0 = len(chosen)
        while pools and len(chosen) - n0 < budget:
            for p in list(pools):
                if p and len(chosen) - n0 < budget:
                    chosen.append(p.pop())
                if not p:
                    pools.remove(p)
        for it in chosen:
            self._enumerate(ctx, it, stats)
        # (3) if the mask comparison of this property disagreed somewhere: the PROPERTY on the very instances of the
        #     disagreement (smallest first), so that a disagreement becomes a concrete hidden-solution replay
        n_dis = 0
        if any(("correspondence C05/%s" % self.name) in b for b in ctx.broken):
            from vt.envprops import evaluate
            small = [it for it in items if it.td_in["locs"].shape[1] - 1 <= 5 and id(it.td_in) not in {id(c.td_in) for c in chosen}]
            ok_items, codes = evaluate(self, "C05", self.props["C05"], small, ctx, tag="_dis")
            bad = {}
            for it, c in zip(ok_items, codes):
                if c % 1000 in (1, 2):
                    bad.setdefault(id(it.td_in), it)
            cand = sorted(bad.values(), key=lambda it: it.td_in["locs"].shape[1])
            for it in cand[: (8 if tier == "quick" else 20)]:
                n_dis += 1
                ctx.count("%s/c05_enumerated_because_of_disagreement" % self.name)
                self._enumerate(ctx, it, stats)
        out.update({"c05_instances": stats["inst"], "c05_solutions": stats["sol"], "c05_hidden": stats["missing"],
                    "c05_reachable_not_in_spec": stats["extra"], "c05_disagreement_instances": n_dis})
        return out

    # ---------------------------------------------------------------- C06: instances outside the documented format
    def ill_formed_cases(self, ctx, tier, items):
        """The checker's instance-sanity asserts (non-negative time windows / service times, windows of positive length,
        "window start + travel time to the depot + service within the depot deadline") must refuse the instance whatever the
        solution.  Exact-grid instances whose mask-made solution the checker accepts get ONE sanity fault that leaves the
        time loop of the checker satisfied, so that only the assert can (and must) refuse:
          neg-window     a customer's window opens one grid unit before time 0
          neg-service    a customer's service time is minus one grid unit
          empty-window   lo := hi at a customer (only where the window is finite)
          cannot-return  x = last stop of the list, which is not closed by a depot visit: window start := depot deadline -
                         travel time home - service + 1 unit (only where the depot deadline is finite)"""
        from vt.envprops import CONCRETE
        rng = ctx.rng
        pool, seen = [], set()
        for it in items:
            if it.batch != "solo" or not it.ep.complete or not it.ep.checker or id(it.td_in) in seen:
                continue
            if not str(it.meta.get("kind", "")).startswith("exact"):
                continue
            seen.add(id(it.td_in))
            pool.append(it)
        rng.shuffle(pool)
        pool.sort(key=lambda it: 0 if feats(it.variant["preset"])["TW"] else 1)       # finite windows first
        cases, meta = [], []
        unit = 1.0 / U
        for it in pool[: (6 if tier == "quick" else 60)]:
            acts = list(it.ep.actions)
            while acts and acts[-1] == 0:
                acts.pop()
            if not acts:
                continue
            cust = [a for a in acts if a != 0]
            for ill in ("neg-window", "neg-service", "empty-window", "cannot-return"):
                td = it.td_in.clone()
                tw = td["time_windows"].clone()
                sv = td["service_time"].clone()
                x = cust[-1] if ill == "cannot-return" else rng.choice(cust)
                if ill == "neg-window":
                    tw[0, x, 0] = -unit
                elif ill == "neg-service":
                    sv[0, x] = -unit
                elif ill == "empty-window":
                    if float(tw[0, x, 1]) == INF:
                        continue
                    tw[0, x, 0] = tw[0, x, 1]
                else:
                    H = float(tw[0, 0, 1])
                    if H == INF:
                        continue
                    t_home = float((self.dist_matrix(td) / td["speed"][0])[x, 0])
                    lo_x = H - t_home - float(sv[0, x]) + unit
                    if lo_x < 0:
                        continue
                    tw[0, x, 0] = lo_x
                    tw[0, x, 1] = lo_x + unit
                td["time_windows"] = tw
                td["service_time"] = sv
                td_r = it.env.reset(td.clone())
                for a in ([acts] if (ill == "cannot-return" or tier == "quick") else [acts, acts + [0]]):
                    v = envh.verdict(it.env, td_r, torch.tensor([a], dtype=torch.int64))
                    if v is None:
                        continue
                    fake = self._fake_item(it.env, td, a, dict(it.meta, kind="illformed/" + ill, ill_formed=ill, node=x), verdict=v)
                    fake.variant = it.variant
                    try:
                        cases.append("(%s, %s, %s)" % (self.coq_instance(it.env, td_r, it.variant), cnatlist(a), cbool(v)))
                    except ValueError:
                        continue
                    meta.append(fake)
                    ctx.count("%s/c06_illformed_instance/%s/%s" % (self.name, ill, "accepted" if v else "rejected"))
        if not cases:
            return {}
        codes = coq_eval_shards("cases_C06_%s_ill" % self.name, self.header, self.sol_type, self.sol_fn, cases,
                                shard=max(6, (len(cases) + 3) // 4))
        nd = nc = 0
        for it, c in zip(meta, codes):
            ctx.seen({"e": self.name, "ill": it.meta.get("ill_formed"), "a": it.ep.actions, "i": str(it.td_in["time_windows"].tolist()) + str(it.td_in["service_time"].tolist())})
            if c == 0:
                continue
            if c in CONCRETE:
                nc += 1
                ctx.failure(self.signature(it, c, 0), it.replay({"what": CONCRETE[c], "ill_formed": it.meta.get("ill_formed"), "node": it.meta.get("node")}),
                            tag=self.name)
            else:
                nd += 1
                if nd == 1:
                    path = ctx.write_replay(it.replay({"code": c, "what": "checker model verdict differs from the implementation on an ill-formed instance"}),
                                            tag="corr-" + self.name)
                    ctx.broken.append("correspondence C06/%s (ill-formed instance %s): code %d, case file %s" % (self.name, it.meta.get("ill_formed"), c, path))
        return {"c06_illformed_cases": len(cases), "c06_illformed_disagreements": nd, "c06_illformed_concrete": nc}

    # ---------------------------------------------------------------- C06: corruptions (base) + witnesses + batch probe
    def extra_c06(self, ctx, tier, items):
        from vt.envprops import CONCRETE
        out = self.flags(ctx, items)
        # corruptions (base class): at most 100 complete episodes (8 corruptions each) also in the thorough tier
        done_items = [it for it in items if it.ep.complete]
        if len(done_items) > 100:
            done_items = ctx.rng.sample(done_items, 100)
        out.update(super().extra_c06(ctx, tier, done_items) or {})
        env = self.witness_env()
        cases, meta = [], []
        for name, td, acts in self.witnesses():
            variants = [acts] + ([acts[:-1]] if acts and acts[-1] == 0 else [acts + [0]])
            for a in variants:
                v = envh.verdict(env, env.reset(td.clone()), torch.tensor([a], dtype=torch.int64))
                it = self._fake_item(env, td, a, {"kind": "witness/" + name}, verdict=v)
                cases.append("(%s, %s, %s)" % (self.coq_instance(env, it.td_reset, it.variant), cnatlist(a), cbool(v)))
                meta.append(it)
        codes = coq_eval_shards("cases_C06_%s_wit" % self.name, self.header, self.sol_type, self.sol_fn, cases, shard=self.shard)
        nd = 0
        for it, c in zip(meta, codes):
            ctx.seen({"e": self.name, "wit": it.meta, "a": it.ep.actions})
            if c in CONCRETE:
                ctx.failure(self.signature(it, c, 0), it.replay({"what": CONCRETE[c]}), tag=self.name)
            elif c != 0:
                nd += 1
                ctx.broken.append("correspondence C06/%s (witness %s): code %d" % (self.name, it.meta, c))
        out.update({"c06_witness_cases": len(cases), "c06_witness_disagreements": nd})
        out.update(self.ill_formed_cases(ctx, tier, items))
        # the checker compares used_cap [B] with vehicle_capacity [B,1]: every row's load against every row's capacity
        a = self.mk_td([self.P(0), self.P(5), self.P(9)], [0, .5, .5], [0, 0, 0], cap=1.0)
        b = self.mk_td([self.P(0), self.P(5), self.P(9)], [0, 1.0, 1.0], [0, 0, 0], cap=2.0)
        acts = torch.tensor([[1, 2, 0], [1, 2, 0]], dtype=torch.int64)
        solo = [envh.verdict(env, env.reset(t.clone()), acts[k:k + 1]) for k, t in enumerate((a, b))]
        both = envh.verdict(env, env.reset(torch.cat([a, b], 0)), acts)
        ctx.count("%s/c06_batch_capacity_probe" % self.name)
        if all(solo) and not both:
            it = self._fake_item(env, b, [1, 2, 0], {"kind": "probe/batch-capacity"}, verdict=both)
            from vt.envprops import hexrow
            ctx.failure("mtvrp/batch: checker-compares-load-with-other-rows-capacity",
                        it.replay({"what": "check_solution_validity accepts each row alone and rejects the two-row batch (used_cap [B] <= vehicle_capacity [B,1] broadcasts to BxB)",
                                   "batch_instances": [hexrow(a), hexrow(b)], "batch_actions": acts.tolist(),
                                   "solo_verdicts": solo, "batch_verdict": both}), tag=self.name)
        return out


ADAPTER = MTVRPAdapter()
