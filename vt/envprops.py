"""Generic C01-C06 driver over environment adapters (vt/envs/*.py).

For property P and adapter A (if A.props has P):
  * collect mask-confined episodes of the real env (solo and batched, several choosers, exhaustive on tiny
    instances), build Coq cases, evaluate A.props[P] (a Gallina function of Harness/H<ENV>.v) on them;
  * result codes (see Base/EnvSig.v, Harness/HEnv.v): tags in CONCRETE mean the property itself fails on the
    implementation's own observables (a replayable failing input); other non-zero tags mean model and
    implementation disagree (correspondence broken) -> more episodes are generated and only the concrete
    tags are looked for (the search);
  * C02 / C04 additionally: every rollout records, after reset and after EVERY step, the bookkeeping keys of the env's
    step output that the adapter's row model has a counterpart for (adapter.book_keys: i, current_node, first_node,
    agent_idx, used_capacity, current_time, visited, ... per env); `book_stage` hands them to the adapter's Gallina
    `check_book` (Harness/HBook.v): a key that differs from its model-free definition (i = number of steps,
    current_node = last action, first_node = first action) is a concrete failure (22), a key that differs from the
    row model's state breaks the correspondence (21).
"""
from __future__ import annotations

import importlib
import pkgutil
import time
import traceback
from fractions import Fraction

import torch

import logging

from vt import envh

logging.getLogger("rl4co").setLevel(logging.ERROR)
logging.getLogger().setLevel(logging.ERROR)
from vt.common import Ctx, clist, cbool, cboollist, cnat, cnatlist, cz, coq_eval_shards

# tags for which the implementation's own behaviour contradicts the property (no model involved)
CONCRETE = {
    4: "reward-differs-from-objective",
    6: "mask-admitted-episode-infeasible",
    8: "dead-end(empty-mask)",
    9: "finished-row-became-unfinished",
    10: "step-bound-exceeded",
    11: "dead-end(empty-final-mask)",
    14: "checker-rejects-feasible-solution",
    15: "checker-accepts-infeasible-solution",
    16: "feasible-solution-not-reachable-through-mask",
    17: "outcome-depends-on-batch-or-padding",
    18: "crash-on-offered-action",
    22: "step-output-key-differs-from-its-definition",          # bookkeeping keys with a model-free meaning (i, current_node, first_node)
    23: "checker-accepts-instance-outside-documented-format",   # the instance fails the checker's own sanity assertions
}
DISAGREE = {20: "instance outside the documented format (wfb false)", 21: "final bookkeeping (first_node/current_node/i) differs from the model",
            19: "generated instance fails wfb", 1: "mask relation", 2: "action not offered by the model", 3: "done differs", 7: "model step not ok",
            12: "episode did not complete", 13: "checker model verdict differs", 5: "reward differs from the model"}


def adapters():
    import vt.envs
    out = []
    for m in sorted(pkgutil.iter_modules(vt.envs.__path__), key=lambda m: m.name):
        if m.name.startswith("_"):
            continue
        mod = importlib.import_module("vt.envs." + m.name)
        if hasattr(mod, "ADAPTER"):
            out.append(mod.ADAPTER)
    return out


def hexrow(td_row):
    """instance data of one row as hex floats (bit exact), for replays"""
    out = {}
    for k in td_row.keys():
        v = td_row[k]
        if v.dtype.is_floating_point:
            out[k] = {"shape": list(v.shape), "hex": [float(x).hex() for x in v.reshape(-1).tolist()]}
        else:
            out[k] = {"shape": list(v.shape), "int": [int(x) for x in v.reshape(-1).tolist()]}
    return out


def td_from_hex(d):
    from tensordict import TensorDict
    out = {}
    for k, v in d.items():
        if "hex" in v:
            out[k] = torch.tensor([float.fromhex(x) for x in v["hex"]], dtype=torch.float32).reshape(v["shape"])
        else:
            out[k] = torch.tensor(v["int"], dtype=torch.int64).reshape(v["shape"])
    b = next(iter(out.values())).shape[0]
    return TensorDict(out, batch_size=[b])


class Item:
    """one (instance row, episode) pair with everything needed to emit a case and a replay"""
    __slots__ = ("adapter", "variant", "env", "td_in", "td_reset", "ep", "meta", "batch")

    def __init__(self, adapter, variant, env, td_in, td_reset, ep, meta, batch):
        self.adapter, self.variant, self.env = adapter, variant, env
        self.td_in, self.td_reset, self.ep, self.meta, self.batch = td_in, td_reset, ep, meta, batch

    def replay(self, extra=None):
        r = {"env": self.adapter.name, "variant": self.variant, "instance": hexrow(self.td_in),
             "actions": self.ep.actions, "done_flags": [d for _, _, d in self.ep.steps],
             "impl_reward": self.ep.reward, "impl_checker": self.ep.checker, "meta": self.meta, "batch": self.batch}
        if extra:
            r.update(extra)
        return r


def collect(adapter, ctx: Ctx, tier, scale=1.0, want_batches=True, pad=True):
    """episodes of the real env: every instance solo with several choosers; instances of equal shape also
    together in shuffled batches (rows finish at different times -> padding steps)."""
    rng = ctx.rng
    items = []
    for variant in adapter.variants(tier):
        env = adapter.make_env(variant)
        insts = adapter.instances(env, variant, rng, tier)
        if scale < 1.0:
            insts = insts[: max(2, int(len(insts) * scale))]
        vtag = adapter.variant_tag(variant)
        # solo runs
        for td_in, meta in insts:
            for ch in adapter.choosers(tier):
                eps, td_reset, td_fin, actions = envh.rollout(env, td_in, rng, choosers=[ch],
                                                              pad_steps=(rng.choice([0, 0, 1, 3]) if pad else 0),
                                                              max_steps=adapter.max_steps(variant))
                envh.rewards_and_verdicts(env, td_fin, td_reset, actions, eps, adapter.reward_td)
                items.append(Item(adapter, variant, env, td_in, td_reset, eps[0], dict(meta, chooser=ch), "solo"))
                ctx.count("%s/%s/solo_episodes" % (adapter.name, vtag))
        # batched runs: group by shape
        if want_batches:
            groups = {}
            for td_in, meta in insts:
                key = tuple((k, tuple(td_in[k].shape[1:])) for k in sorted(td_in.keys()))
                groups.setdefault(key, []).append((td_in, meta))
            for key, grp in groups.items():
                if len(grp) < 2:
                    continue
                for rep in range(2 if tier == "quick" else 4):
                    k = min(len(grp), rng.choice([2, 3, 5, 8]))
                    sel = [rng.choice(grp) for _ in range(k)]
                    td_b = torch.cat([t for t, _ in sel], 0)
                    chs = [rng.choice(adapter.choosers(tier)) for _ in sel]
                    eps, td_reset, td_fin, actions = envh.rollout(env, td_b, rng, choosers=chs, pad_steps=rng.choice([0, 2]),
                                                                  max_steps=adapter.max_steps(variant))
                    envh.rewards_and_verdicts(env, td_fin, td_reset, actions, eps, adapter.reward_td)
                    for r, (t, meta) in enumerate(sel):
                        items.append(Item(adapter, variant, env, t, td_reset[r:r + 1], eps[r], dict(meta, chooser=chs[r]),
                                          "batch%d@%d" % (k, r)))
                        ctx.count("%s/%s/batched_rows" % (adapter.name, vtag))
    return items


def case_of(item: Item) -> str:
    a = item.adapter
    ep = item.ep
    inst = a.coq_instance(item.env, item.td_reset, item.variant)
    tr = clist(envh.tstep(m, act, d) for m, act, d in ep.steps)
    rew = ep.reward if ep.reward is not None else 0.0
    tol = a.reward_tol(item.env, item.td_reset, len(ep.steps))
    return "(%s, %s, %s, (%s, %s), %s, %s)" % (
        inst, tr, cboollist(ep.final_mask), cz(envh.zs(rew)), cz(int(tol * (1 << envh.S64))),
        cbool(ep.complete), cbool(bool(ep.checker)))


def evaluate(adapter, pid, fn, items, ctx, tag=""):
    cases = []
    ok_items = []
    for it in items:
        try:
            cases.append(case_of(it))
            ok_items.append(it)
        except ValueError:
            ctx.count("%s/not_representable" % adapter.name)
    if not cases:
        return [], []
    codes = coq_eval_shards("cases_%s_%s%s" % (pid, adapter.name, tag), adapter.header, adapter.case_type, fn, cases,
                            shard=adapter.shard)
    return ok_items, codes


def report_codes(adapter, pid, ok_items, codes, ctx, searching=False):
    """returns (n_concrete, n_disagree)"""
    nc = nd = 0
    first_dis = None
    for it, c in zip(ok_items, codes):
        if c == 0:
            continue
        tag, step = c % 1000, c // 1000
        if tag in CONCRETE:
            sig = adapter.signature(it, tag, step)
            if ctx.failure(sig, it.replay({"code": c, "step": step, "what": CONCRETE[tag]}), tag=adapter.name):
                nc += 1        # only failures that are not listed known findings count (they must not suppress the search)
        else:
            nd += 1
            if first_dis is None:
                first_dis = (it, c)
    if first_dis is not None and not searching:
        it, c = first_dis
        path = ctx.write_replay(it.replay({"code": c, "property": pid, "what": "model/implementation disagreement: " + DISAGREE.get(c % 1000, "?")}),
                                tag="corr-" + adapter.name)
        ctx.broken.append("correspondence %s/%s: model and implementation disagree on %d case(s); first: code %d (step %d: %s), variant %s, case file %s" % (
            pid, adapter.name, nd, c, c // 1000, DISAGREE.get(c % 1000, "?"), it.variant, path))
    return nc, nd


# ------------------------------------------------------------------------------------------ bookkeeping (C02 / C04)
BOOK_PIDS = ("C02", "C04")
BOOK_KINDS = {21: "differs from the row model", 22: "differs from its definition"}


def _bz(n) -> str:
    """compact Coq term of an integer (large ones: odd mantissa in hex shifted left)"""
    n = int(n)
    a = abs(n)
    if a < (1 << 24):
        return "%d" % n if n >= 0 else "(%d)" % n
    e = (a & -a).bit_length() - 1
    m = "0x%x" % (a >> e)
    if n < 0:
        m = "(-%s)" % m
    return "(Z.shiftl %s %d)" % (m, e) if e else m


def book_stage(adapter, pid, items, ctx, tier):
    """The bookkeeping keys of the env's step output (adapter.book_keys), recorded after reset and after every step of
    the episodes of this run (vt/envh.py BOOK), against the row model and -- for i / current_node / first_node --
    against their definition: Gallina `check_book` of the adapter's harness (Harness/HBook.v).
    22 (a key differs from its definition) is a concrete failing input; 21 (differs from the row model) breaks the
    correspondence."""
    fn = getattr(adapter, "book_fn", None)
    if not fn or pid not in BOOK_PIDS:
        return {}
    cand = [it for it in items if it.ep.book0 is not None and it.ep.book]
    ctx.count("%s/book/episodes_recorded" % adapter.name, len(cand))
    cap = 48 if tier == "quick" else 400
    if len(cand) > cap:
        # keep the spread: batched rows and rows with padding steps first, then round-robin over the variants
        rng = ctx.rng
        rng.shuffle(cand)
        cand.sort(key=lambda it: (0 if it.batch != "solo" else 1))
        groups = {}
        for it in cand:
            groups.setdefault(str(sorted(it.variant.items())), []).append(it)
        sel, depth = [], 0
        while len(sel) < cap and any(len(g) > depth for g in groups.values()):
            for k in sorted(groups):
                if len(groups[k]) > depth and len(sel) < cap:
                    sel.append(groups[k][depth])
            depth += 1
        cand = sel
    cases, meta = [], []
    for it in cand:
        ep = it.ep
        k_stop = len(ep.book)
        if ep.dead_end is not None:
            k_stop = min(k_stop, ep.dead_end)           # a row with an empty mask was stepped with a fill-in action
        names, is_float = adapter.book_names(it.td_reset)
        rows = [ep.book0] + ep.book[:k_stop]
        if any(len(r) != len(names) for r in rows):
            ctx.count("%s/book/shape_mismatch" % adapter.name)
            continue
        try:
            rows = [adapter.book_encode(r, is_float) for r in rows]
        except ValueError:
            ctx.count("%s/not_representable" % adapter.name)
            continue
        book0, book = rows[0], rows[1:]
        exact = adapter.book_exact(it)
        tols = []
        for j, fl in enumerate(is_float):
            if not fl or exact:
                tols.append(0)
            else:
                tols.append(max(1 << envh.S64, max(abs(r[j]) for r in rows)) >> 17)
        try:
            inst = adapter.coq_instance(it.env, it.td_reset, it.variant)
        except ValueError:
            ctx.count("%s/not_representable" % adapter.name)
            continue
        tr = clist("(%s, %s)" % (cnat(a), clist(_bz(x) for x in o)) for a, o in zip(ep.actions[:k_stop], book))
        cases.append("(%s, %s, %s, %s)" % (inst, clist(_bz(t) for t in tols), clist(_bz(x) for x in book0), tr))
        meta.append((it, names, k_stop, exact, book0, book))
        ctx.count("%s/book/steps_compared" % adapter.name, k_stop + 1)
        ctx.count("%s/book/episodes_%s" % (adapter.name, "exact(tolerance 0)" if exact else "float(relative 2^-17)"))
    if not cases:
        return {}
    codes = coq_eval_shards("cases_%s_%s_book" % (pid, adapter.name), adapter.header, adapter.book_type, fn, cases,
                            shard=max(6, min(adapter.shard, (len(cases) + 3) // 4)))
    nd = nc = 0
    first = None
    for (it, names, k_stop, exact, book0, book), c in zip(meta, codes):
        if c == 0:
            continue
        tag, rest = c % 1000, c // 1000
        k, d = rest // 64, rest % 64
        key = names[d - 1] if 1 <= d <= len(names) else "entry %d" % d
        obs = (book0 if k == 0 else book[k - 1]) if k <= len(book) else None
        acts = it.ep.actions[:k]
        extra = {"code": c, "step": k, "key": key, "keys_compared": names,
                 "observed_entries_after_that_step": obs, "observed_value": (obs[d - 1] if obs and 1 <= d <= len(obs) else None),
                 "observed_raw": ((it.ep.book0 if k == 0 else it.ep.book[k - 1]) if k <= len(it.ep.book) else None),
                 "actions_up_to_that_step": acts,
                 "note": "float entries are scaled by 2^64, bool vectors are numbers (bit j = entry j)"}
        if tag == 22:
            definition = {"i": "number of env.step calls since reset = %d" % k,
                          "current_node": "the action just taken = %s" % (acts[-1] if acts else 0),
                          "first_node": "the first action of the episode = %s" % (acts[0] if acts else 0)}.get(key.split("[")[0], "?")
            nc += 1
            ctx.failure("%s/%s: %s(%s)" % (adapter.name, adapter.variant_tag(it.variant), CONCRETE[22], key.split("[")[0]),
                        it.replay(dict(extra, what="td[%r] after step %d %s: %s" % (key, k, BOOK_KINDS[22], definition),
                                       expected=definition)), tag=adapter.name)
        else:
            nd += 1
            first = first or (it, c, extra, key, k)
    if first:
        it, c, extra, key, k = first
        path = ctx.write_replay(it.replay(dict(extra, property=pid, what="model/implementation disagreement: td[%r] after step %d %s" % (
            key, k, BOOK_KINDS.get(c % 1000, "?")))), tag="corr-" + adapter.name)
        ctx.broken.append("correspondence %s/%s (bookkeeping keys of the step output): %d disagreement(s); first: td[%r] after step %d %s, variant %s, case file %s" % (
            pid, adapter.name, nd, key, k, BOOK_KINDS.get(c % 1000, "?"), it.variant, path))
    return {"book_episodes": len(cases), "book_disagreements": nd, "book_concrete": nc,
            "book_keys": [k for k, _ in adapter.book_keys]}


def impl_level_failures(adapter, pid, items, ctx):
    """property failures visible without any model: crashes on offered actions, dead ends (C02)"""
    if pid != "C02":
        return
    for it in items:
        if it.ep.crash:
            ctx.failure(adapter.signature(it, 18, len(it.ep.steps)), it.replay({"what": CONCRETE[18], "crash": it.ep.crash}), tag=adapter.name)


def run_env_property(ctx: Ctx, proofs_ok: bool, pid: str, only=None):
    tier = ctx.tier
    from vt.common import only_units
    only = only or only_units()
    from vt.common import disabled_units
    off = set() if only else disabled_units()
    for adapter in adapters():
        if adapter.name in off:
            continue
        if pid not in adapter.props or (only and adapter.name not in only):
            continue
        t0 = time.time()
        unit = {"cases": 0, "disagreements": 0, "concrete_failures": 0}
        try:
            unit_proofs = ctx.proof_units.get("%s_%s" % (pid, adapter.name), proofs_ok)
            # C02 / C04: every rollout also records the bookkeeping keys of the step output (compared in book_stage)
            envh.BOOK = adapter.book_values if (pid in BOOK_PIDS and getattr(adapter, "book_fn", None)) else None
            try:
                items = adapter.collect(ctx, pid, tier) if hasattr(adapter, "collect") else collect(adapter, ctx, tier)
                extra = adapter.extra_items(ctx, pid, tier) if hasattr(adapter, "extra_items") else []
            finally:
                envh.BOOK = None
            items = items + extra
            impl_level_failures(adapter, pid, items, ctx)
            for it in items:
                ctx.seen({"e": adapter.name, "v": it.variant, "i": hexrow(it.td_in), "a": it.ep.actions},
                         nontrivial=len(it.ep.steps) >= 2 and any(sum(m) > 1 for m, _, _ in it.ep.steps))
            if items:
                ctx.sample({"env": adapter.name, "variant": items[0].variant, "actions": items[0].ep.actions,
                            "masks": [[int(b) for b in m] for m, _, _ in items[0].ep.steps][:6],
                            "reward": items[0].ep.reward, "checker": items[0].ep.checker, "batch": items[0].batch}, cap=40)
            ok_items, codes = evaluate(adapter, pid, adapter.props[pid], items, ctx)
            nc, nd = report_codes(adapter, pid, ok_items, codes, ctx)
            unit.update(cases=len(codes), disagreements=nd, concrete_failures=nc)
            if pid in BOOK_PIDS and getattr(adapter, "book_fn", None):
                t1 = time.time()
                bu = book_stage(adapter, pid, items, ctx, tier)
                unit.update(bu)
                unit["book_wall_s"] = round(time.time() - t1, 1)
                nc += bu.get("book_concrete", 0)
                nd += bu.get("book_disagreements", 0)
            # property-specific extras implemented by the adapter (C04 batch differential, C05 enumeration, C06 corruptions)
            hook = getattr(adapter, "extra_" + pid.lower(), None)
            if hook is not None:
                t1 = time.time()
                unit.update(hook(ctx, tier, items) or {})
                unit["hook_wall_s"] = round(time.time() - t1, 1)
            if (nd or not unit_proofs) and not nc:
                # the search: more and deeper episodes, looking only for concrete failures of the property
                more = collect(adapter, ctx, "thorough", scale=0.6 if tier == "quick" else 1.0)
                impl_level_failures(adapter, pid, more, ctx)
                ok2, codes2 = evaluate(adapter, pid, adapter.props[pid], more, ctx, tag="_search")
                nc2, _ = report_codes(adapter, pid, ok2, codes2, ctx, searching=True)
                unit["search_cases"] = len(codes2)
                unit["search_concrete_failures"] = nc2
        except Exception:
            tb = traceback.format_exc()
            ctx.broken.append("correspondence %s/%s could not be evaluated: %s" % (pid, adapter.name, tb[-1500:]))
        unit["wall_s"] = round(time.time() - t0, 1)
        ctx.units[adapter.name] = unit
