"""Generic C01-C06 driver over environment adapters (vt/envs/*.py).

For property P and adapter A (if A.props has P):
  * collect mask-confined episodes of the real env (solo and batched, several choosers, exhaustive on tiny
    instances), build Coq cases, evaluate A.props[P] (a Gallina function of Harness/H<ENV>.v) on them;
  * result codes (see Base/EnvSig.v, Harness/HEnv.v): tags in CONCRETE mean the property itself fails on the
    implementation's own observables (a replayable failing input); other non-zero tags mean model and
    implementation disagree (correspondence broken) -> more episodes are generated and only the concrete
    tags are looked for (the search).
"""
from __future__ import annotations

import importlib
import pkgutil
import time
import traceback
from fractions import Fraction

import torch

import logging

from vt import envh

logging.getLogger("rl4co").setLevel(logging.ERROR)
logging.getLogger().setLevel(logging.ERROR)
from vt.common import Ctx, clist, cbool, cboollist, cnatlist, cz, coq_eval_shards

# tags for which the implementation's own behaviour contradicts the property (no model involved)
CONCRETE = {
    4: "reward-differs-from-objective",
    6: "mask-admitted-episode-infeasible",
    8: "dead-end(empty-mask)",
    9: "finished-row-became-unfinished",
    10: "step-bound-exceeded",
    11: "dead-end(empty-final-mask)",
    14: "checker-rejects-feasible-solution",
    15: "checker-accepts-infeasible-solution",
    16: "feasible-solution-not-reachable-through-mask",
    17: "outcome-depends-on-batch-or-padding",
    18: "crash-on-offered-action",
}
DISAGREE = {20: "instance outside the documented format (wfb false)", 21: "final bookkeeping (first_node/current_node/i) differs from the model",
            19: "generated instance fails wfb", 1: "mask relation", 2: "action not offered by the model", 3: "done differs", 7: "model step not ok",
            12: "episode did not complete", 13: "checker model verdict differs", 5: "reward differs from the model"}


def adapters():
    import vt.envs
    out = []
    for m in sorted(pkgutil.iter_modules(vt.envs.__path__), key=lambda m: m.name):
        if m.name.startswith("_"):
            continue
        mod = importlib.import_module("vt.envs." + m.name)
        if hasattr(mod, "ADAPTER"):
            out.append(mod.ADAPTER)
    return out


def hexrow(td_row):
    """instance data of one row as hex floats (bit exact), for replays"""
    out = {}
    for k in td_row.keys():
        v = td_row[k]
        if v.dtype.is_floating_point:
            out[k] = {"shape": list(v.shape), "hex": [float(x).hex() for x in v.reshape(-1).tolist()]}
        else:
            out[k] = {"shape": list(v.shape), "int": [int(x) for x in v.reshape(-1).tolist()]}
    return out


def td_from_hex(d):
    from tensordict import TensorDict
    out = {}
    for k, v in d.items():
        if "hex" in v:
            out[k] = torch.tensor([float.fromhex(x) for x in v["hex"]], dtype=torch.float32).reshape(v["shape"])
        else:
            out[k] = torch.tensor(v["int"], dtype=torch.int64).reshape(v["shape"])
    b = next(iter(out.values())).shape[0]
    return TensorDict(out, batch_size=[b])


class Item:
    """one (instance row, episode) pair with everything needed to emit a case and a replay"""
    __slots__ = ("adapter", "variant", "env", "td_in", "td_reset", "ep", "meta", "batch")

    def __init__(self, adapter, variant, env, td_in, td_reset, ep, meta, batch):
        self.adapter, self.variant, self.env = adapter, variant, env
        self.td_in, self.td_reset, self.ep, self.meta, self.batch = td_in, td_reset, ep, meta, batch

    def replay(self, extra=None):
        r = {"env": self.adapter.name, "variant": self.variant, "instance": hexrow(self.td_in),
             "actions": self.ep.actions, "done_flags": [d for _, _, d in self.ep.steps],
             "impl_reward": self.ep.reward, "impl_checker": self.ep.checker, "meta": self.meta, "batch": self.batch}
        if extra:
            r.update(extra)
        return r


def collect(adapter, ctx: Ctx, tier, scale=1.0, want_batches=True, pad=True):
    """episodes of the real env: every instance solo with several choosers; instances of equal shape also
    together in shuffled batches (rows finish at different times -> padding steps)."""
    rng = ctx.rng
    items = []
    for variant in adapter.variants(tier):
        env = adapter.make_env(variant)
        insts = adapter.instances(env, variant, rng, tier)
        if scale < 1.0:
            insts = insts[: max(2, int(len(insts) * scale))]
        vtag = adapter.variant_tag(variant)
        # solo runs
        for td_in, meta in insts:
            for ch in adapter.choosers(tier):
                eps, td_reset, td_fin, actions = envh.rollout(env, td_in, rng, choosers=[ch],
                                                              pad_steps=(rng.choice([0, 0, 1, 3]) if pad else 0),
                                                              max_steps=adapter.max_steps(variant))
                envh.rewards_and_verdicts(env, td_fin, td_reset, actions, eps, adapter.reward_td)
                items.append(Item(adapter, variant, env, td_in, td_reset, eps[0], dict(meta, chooser=ch), "solo"))
                ctx.count("%s/%s/solo_episodes" % (adapter.name, vtag))
        # batched runs: group by shape
        if want_batches:
            groups = {}
            for td_in, meta in insts:
                key = tuple((k, tuple(td_in[k].shape[1:])) for k in sorted(td_in.keys()))
                groups.setdefault(key, []).append((td_in, meta))
            for key, grp in groups.items():
                if len(grp) < 2:
                    continue
                for rep in range(2 if tier == "quick" else 4):
                    k = min(len(grp), rng.choice([2, 3, 5, 8]))
                    sel = [rng.choice(grp) for _ in range(k)]
                    td_b = torch.cat([t for t, _ in sel], 0)
                    chs = [rng.choice(adapter.choosers(tier)) for _ in sel]
                    eps, td_reset, td_fin, actions = envh.rollout(env, td_b, rng, choosers=chs, pad_steps=rng.choice([0, 2]),
                                                                  max_steps=adapter.max_steps(variant))
                    envh.rewards_and_verdicts(env, td_fin, td_reset, actions, eps, adapter.reward_td)
                    for r, (t, meta) in enumerate(sel):
                        items.append(Item(adapter, variant, env, t, td_reset[r:r + 1], eps[r], dict(meta, chooser=chs[r]),
                                          "batch%d@%d" % (k, r)))
                        ctx.count("%s/%s/batched_rows" % (adapter.name, vtag))
    return items


def case_of(item: Item) -> str:
    a = item.adapter
    ep = item.ep
    inst = a.coq_instance(item.env, item.td_reset, item.variant)
    tr = clist(envh.tstep(m, act, d) for m, act, d in ep.steps)
    rew = ep.reward if ep.reward is not None else 0.0
    tol = a.reward_tol(item.env, item.td_reset, len(ep.steps))
    return "(%s, %s, %s, (%s, %s), %s, %s)" % (
        inst, tr, cboollist(ep.final_mask), cz(envh.zs(rew)), cz(int(tol * (1 << envh.S64))),
        cbool(ep.complete), cbool(bool(ep.checker)))


def evaluate(adapter, pid, fn, items, ctx, tag=""):
    cases = []
    ok_items = []
    for it in items:
        try:
            cases.append(case_of(it))
            ok_items.append(it)
        except ValueError:
            ctx.count("%s/not_representable" % adapter.name)
    if not cases:
        return [], []
    codes = coq_eval_shards("cases_%s_%s%s" % (pid, adapter.name, tag), adapter.header, adapter.case_type, fn, cases,
                            shard=adapter.shard)
    return ok_items, codes


def report_codes(adapter, pid, ok_items, codes, ctx, searching=False):
    """returns (n_concrete, n_disagree)"""
    nc = nd = 0
    first_dis = None
    for it, c in zip(ok_items, codes):
        if c == 0:
            continue
        tag, step = c % 1000, c // 1000
        if tag in CONCRETE:
            sig = adapter.signature(it, tag, step)
            if ctx.failure(sig, it.replay({"code": c, "step": step, "what": CONCRETE[tag]}), tag=adapter.name):
                nc += 1        # only failures that are not listed known findings count (they must not suppress the search)
        else:
            nd += 1
            if first_dis is None:
                first_dis = (it, c)
    if first_dis is not None and not searching:
        it, c = first_dis
        path = ctx.write_replay(it.replay({"code": c, "property": pid, "what": "model/implementation disagreement: " + DISAGREE.get(c % 1000, "?")}),
                                tag="corr-" + adapter.name)
        ctx.broken.append("correspondence %s/%s: model and implementation disagree on %d case(s); first: code %d (step %d: %s), variant %s, case file %s" % (
            pid, adapter.name, nd, c, c // 1000, DISAGREE.get(c % 1000, "?"), it.variant, path))
    return nc, nd


def impl_level_failures(adapter, pid, items, ctx):
    """property failures visible without any model: crashes on offered actions, dead ends (C02)"""
    if pid != "C02":
        return
    for it in items:
        if it.ep.crash:
            ctx.failure(adapter.signature(it, 18, len(it.ep.steps)), it.replay({"what": CONCRETE[18], "crash": it.ep.crash}), tag=adapter.name)


def run_env_property(ctx: Ctx, proofs_ok: bool, pid: str, only=None):
    tier = ctx.tier
    from vt.common import only_units
    only = only or only_units()
    from vt.common import disabled_units
    off = set() if only else disabled_units()
    for adapter in adapters():
        if adapter.name in off:
            continue
        if pid not in adapter.props or (only and adapter.name not in only):
            continue
        t0 = time.time()
        unit = {"cases": 0, "disagreements": 0, "concrete_failures": 0}
        try:
            unit_proofs = ctx.proof_units.get("%s_%s" % (pid, adapter.name), proofs_ok)
            items = adapter.collect(ctx, pid, tier) if hasattr(adapter, "collect") else collect(adapter, ctx, tier)
            extra = adapter.extra_items(ctx, pid, tier) if hasattr(adapter, "extra_items") else []
            items = items + extra
            impl_level_failures(adapter, pid, items, ctx)
            for it in items:
                ctx.seen({"e": adapter.name, "v": it.variant, "i": hexrow(it.td_in), "a": it.ep.actions},
                         nontrivial=len(it.ep.steps) >= 2 and any(sum(m) > 1 for m, _, _ in it.ep.steps))
            if items:
                ctx.sample({"env": adapter.name, "variant": items[0].variant, "actions": items[0].ep.actions,
                            "masks": [[int(b) for b in m] for m, _, _ in items[0].ep.steps][:6],
                            "reward": items[0].ep.reward, "checker": items[0].ep.checker, "batch": items[0].batch}, cap=40)
            ok_items, codes = evaluate(adapter, pid, adapter.props[pid], items, ctx)
            nc, nd = report_codes(adapter, pid, ok_items, codes, ctx)
            unit.update(cases=len(codes), disagreements=nd, concrete_failures=nc)
            # property-specific extras implemented by the adapter (C04 batch differential, C05 enumeration, C06 corruptions)
            hook = getattr(adapter, "extra_" + pid.lower(), None)
            if hook is not None:
                unit.update(hook(ctx, tier, items) or {})
            if (nd or not unit_proofs) and not nc:
                # the search: more and deeper episodes, looking only for concrete failures of the property
                more = collect(adapter, ctx, "thorough", scale=0.6 if tier == "quick" else 1.0)
                impl_level_failures(adapter, pid, more, ctx)
                ok2, codes2 = evaluate(adapter, pid, adapter.props[pid], more, ctx, tag="_search")
                nc2, _ = report_codes(adapter, pid, ok2, codes2, ctx, searching=True)
                unit["search_cases"] = len(codes2)
                unit["search_concrete_failures"] = nc2
        except Exception:
            tb = traceback.format_exc()
            ctx.broken.append("correspondence %s/%s could not be evaluated: %s" % (pid, adapter.name, tb[-1500:]))
        unit["wall_s"] = round(time.time() - t0, 1)
        ctx.units[adapter.name] = unit
