"""Shared machinery of the units `sched` (FJSP, JSSP, FFSP, SMTWTP) and `graph` (FLP, MCP, DPP, MDPP) of C02 / C03 / C04.

The Gallina models and the drivers of the real environments are those of C07 / C08 (imported from vt/props/c07_fjsp.py,
c07_ffsp.py, c08.py, never edited); what is added here is what C02 / C03 / C04 need and C07 / C08 do not do:
mixed batches with forced action plans (the same instance solo and at every position of a batch, next to copies and
strangers), per-step checks of mask emptiness / done monotonicity / step counts, and case terms for the check
functions of Harness/HC0234_fjsp.v, HC0234_ffsp.v, HC0234_graph.v.

Result codes (all check functions): 1000*step + tag; tags in CONCRETE mean that the implementation's own observables
contradict the property (a replayable failing input); any other non-zero tag means model and implementation disagree
(the theorems do not transfer) -> ctx.broken + search for a concrete failure."""
from __future__ import annotations

import time
from fractions import Fraction

from vt import sched_guard as guard
from vt.common import cbool, cboollist, clist, cnat, coq_eval_shards, cz, czraw
from vt.props import c07_ffsp as G
from vt.props import c07_fjsp as F
from vt.props import c08 as S

CONCRETE = {4: "reward-differs-from-objective", 8: "dead-end(empty-mask)", 9: "finished-row-became-unfinished",
            10: "step-bound-exceeded", 15: "get_reward-answers-on-unfinished-batch", 16: "pre_step-accepts-running-batch"}
DISAGREE = {17: "a step reward is not minus the change of the maximal lower bound (stepwise_reward=True)",
            18: "the final lower bound is not the makespan (stepwise_reward=True)", 19: "malformed stepwise record",
            32: "the implementation's guard raised although the model's guard lets the batch through",
            22: "busy_until differs", 23: "next_op differs", 24: "job_in_process differs", 25: "job_done differs", 26: "op_scheduled differs",
            27: "start_times differ (per step)", 28: "finish_times differ (per step)",
            1: "mask (emptiness) differs from the model", 2: "action taken is outside the model mask", 3: "done differs from the model",
            5: "reward differs from the model", 7: "model step = None (real code did not raise)", 12: "episode not finished",
            20: "instance outside the documented format (wfb)",
            21: "the model's own schedule is rejected by the specification (C03) / time differs from the model (C04 bookkeeping keys)",
            30: "batched bookkeeping differs from the batched model", 31: "batched model raises / view narrower than the row",
            11: "final start_times differ", 13: "final ma_assignment differs", 14: "final reward differs from the model",
            10: "schedule differs"}

HDR_FJSP = ("From Coq Require Import List ZArith Bool.\n"
            "From RL4CO Require Import Spec.Schedule Env.FJSP Harness.HC07_fjsp Harness.HC0234_fjsp.\n"
            "Import ListNotations.\n")
HDR_FFSP = G.HEADER_GUARD
HDR_GRAPH = ("From Coq Require Import List ZArith Bool.\n"
             "From RL4CO Require Import Env.Selection Env.FLP Env.MCP Env.DPP Harness.HC08 Harness.HC0234_graph.\n"
             "Import ListNotations.\nOpen Scope Z_scope.\n")


class Threads:
    """at most 2 torch threads while a unit runs (CONTRIBUTING: shared machine)"""

    def __enter__(self):
        import torch
        self.n = torch.get_num_threads()
        torch.set_num_threads(2)

    def __exit__(self, *a):
        import torch
        torch.set_num_threads(self.n)


def budget(ctx, quick, thorough):
    return thorough if ctx.tier == "thorough" else quick


# =================================================================================================== reporting
class Collector:
    """failures of one unit run: one replay (the smallest) per signature; codes -> concrete / disagreement"""

    def __init__(self, ctx, pid, unit):
        self.ctx, self.pid, self.unit = ctx, pid, unit
        self.best = {}
        self.n_concrete = 0
        self.n_disagree = 0
        self.first_dis = {}

    def fail(self, sig, replay):
        size = len(str(replay))
        if sig not in self.best or size < self.best[sig][0]:
            self.best[sig] = (size, replay)

    def codes(self, env, codes, metas, what):
        """metas[k] = replay dict of case k"""
        for c, m in zip(codes, metas):
            if c == 0:
                continue
            tag, step = c % 1000, c // 1000
            if tag in CONCRETE and what != "corr":
                self.fail("%s: %s" % (env, CONCRETE[tag]), dict(m, code=c, step=step, what=CONCRETE[tag] + " (evaluated in Coq on the implementation's observables)"))
            else:
                self.n_disagree += 1
                self.first_dis.setdefault(env, (c, m))

    def flush(self):
        ctx = self.ctx
        for env, (c, m) in sorted(self.first_dis.items()):
            path = ctx.write_replay(dict(m, code=c, property=self.pid, what="model/implementation disagreement: " + DISAGREE.get(c % 1000, "tag %d" % (c % 1000))),
                                    tag="corr-%s-%s" % (self.unit, "".join(ch if ch.isalnum() or ch in "-_" else "_" for ch in env)))
            ctx.broken.append("correspondence %s/%s/%s: model and implementation disagree; first: code %d (step %d: %s), case file %s" % (
                self.pid, self.unit, env, c, c // 1000, DISAGREE.get(c % 1000, "?"), path))
        for sig, (_, rep) in sorted(self.best.items()):
            rep = dict(rep)
            # `unit` routes ./check --replay to vt/props/<pid>_<unit>.py; the env-level unit of the record (ffsp / smtwtp / fjsp) is kept
            if rep.get("unit") not in (None, self.unit.split("-")[0]):
                rep["env_unit"] = rep["unit"]
            rep["unit"] = self.unit.split("-")[0]
            if ctx.failure(sig, rep, tag=self.unit):
                self.n_concrete += 1
        return self.n_concrete


def coq_codes(ctx, prefix, header, case_type, fn, cases, shard=60):
    if not cases:
        return []
    try:
        return coq_eval_shards(prefix, header, case_type, fn, cases, shard=shard)
    except RuntimeError as e:
        ctx.broken.append("correspondence %s could not be evaluated in Coq: %s" % (prefix, str(e)[-700:]))
        return None


# =================================================================================================== FJSP / JSSP
def fjsp_env(kind, mno, gp, stepwise=False):
    from rl4co.envs.scheduling.fjsp.env import FJSPEnv
    from rl4co.envs.scheduling.jssp.env import JSSPEnv
    if stepwise:
        return {"fjsp": FJSPEnv, "jssp": JSSPEnv}[kind](generator_params=dict(gp), mask_no_ops=mno, stepwise_reward=True)
    return {"fjsp": FJSPEnv, "jssp": JSSPEnv}[kind](generator_params=dict(gp), mask_no_ops=mno)


def fjsp_gen_params(rng, kind, big=False):
    J = rng.randint(2, 6 if big else 4)
    M = rng.randint(2, 4 if big else 3)
    gp = {"num_jobs": J, "num_machines": M, "min_ops_per_job": 1, "max_ops_per_job": rng.randint(2, 3),
          "min_processing_time": 1, "max_processing_time": rng.choice([2, 3, 5, 9])}
    if kind == "fjsp":
        gp["same_mean_per_op"] = rng.random() < 0.5
    else:
        gp["one2one_ma_map"] = False
    return gp


def fjsp_long_params(rng, kind):
    """processing times on a fine time scale: the clock crosses the library's "not scheduled yet" marker INIT_FINISH = 9999
    (legal generator parameters; benchmark files in seconds look like this)"""
    gp = {"num_jobs": rng.randint(3, 4), "num_machines": 2, "min_ops_per_job": 2, "max_ops_per_job": 3,
          "min_processing_time": rng.choice([2500, 3000]), "max_processing_time": rng.choice([4000, 6000])}
    if kind == "jssp":
        gp["one2one_ma_map"] = False
    return gp


def fjsp_short_copy(rng, inst):
    """the same job/machine structure with small processing times: finishes long before a long-horizon batch-mate"""
    return {"start": list(inst["start"]), "end": list(inst["end"]), "pad": list(inst["pad"]),
            "proc": [[(1 + (v + 3 * k) % 5) if v > 0 else 0 for k, v in enumerate(r)] for r in inst["proc"]]}


def fjsp_sentinel_rows():
    """hand-built 2 jobs x 2 machines (one eligible machine per op, so JSSP too): job 0 = (M0, 4999) then (M1, 5000), job 1 = (M1, 7).
    Row 0: the last operation finishes EXACTLY at 9999 = INIT_FINISH; row 1: all times doubled (finishes at 19998, beyond the
    marker); row 2: a short row (finishes at 12) that idles on padding steps meanwhile."""
    def mk(a, b, c):
        return {"start": [0, 2], "end": [1, 2], "proc": [[a, 0, 0], [0, b, c]], "pad": [False, False, False]}
    return [mk(4999, 5000, 7), mk(9998, 10000, 14), mk(5, 7, 3)]


def fjsp_trim(inst):
    """the same instance without its trailing padded columns (what a solo run of a smaller instance looks like)"""
    n = sum(1 for p in inst["pad"] if not p)
    return {"start": list(inst["start"]), "end": list(inst["end"]), "proc": [r[:n] for r in inst["proc"]], "pad": inst["pad"][:n]}


def fjsp_td(torch, insts):
    """one TensorDict from instances with equal J and M and any op counts (padded to the widest, pad_mask = True)"""
    from tensordict import TensorDict
    N = max(len(i["pad"]) for i in insts)
    proc = [[r + [0] * (N - len(r)) for r in i["proc"]] for i in insts]
    pad = [list(i["pad"]) + [True] * (N - len(i["pad"])) for i in insts]
    return TensorDict({"start_op_per_job": torch.tensor([i["start"] for i in insts], dtype=torch.int64),
                       "end_op_per_job": torch.tensor([i["end"] for i in insts], dtype=torch.int64),
                       "proc_times": torch.tensor(proc, dtype=torch.float32),
                       "pad_mask": torch.tensor(pad, dtype=torch.bool)}, batch_size=[len(insts)])


def fjsp_bound(inst, mno):
    ops = sum(1 for p in inst["pad"] if not p)
    return ops if mno else 2 * ops


def fjsp_rollout(torch, env, td0, rng, plans, policies, extra_pad, max_steps=400, kind="fjsp", probe_reward=False, keys=False):
    """Drives one batch.  plans[b] = list of actions row b must take (while they last), then policies[b].
    Returns dict(rows=[...], actions=[[...per step...]], crash=None|{...}, insts=[...], rewards=[...]|None).
    Every env call runs under the wall-clock guard (vt/sched_guard.py); crash["where"] == "timeout" when one did not return.
    probe_reward: the first time a state with done = mixed (and the first time one with no row done) is met, env.get_reward is
    called on a clone and what it did is recorded in out["reward_probes"] (its guard `assert td["done"].all()` must refuse).
    keys: record the bookkeeping keys of every state (F._keys_of) in rows[b]["keys"]."""
    B = td0.batch_size[0]
    insts = [F._inst_of_td(td0, b) for b in range(B)]
    out = {"insts": insts, "actions": [], "crash": None, "rewards": None, "finals": None, "reward_probes": []}
    try:
        td = guard.call(kind, "reset", env.reset, td0.clone())
    except guard.EnvTimeout as e:
        out["crash"] = {"where": "timeout", "call": e.what, "error": str(e)}
        out["rows"] = []
        return out
    except Exception as e:  # noqa: BLE001
        out["crash"] = {"where": "reset", "error": repr(e)[:300]}
        out["rows"] = []
        return out
    rows = [{"mask0": [bool(x) for x in td["action_mask"][b].tolist()], "steps": [], "first_done": None, "plan_dev": None,
             "choice": False, "keys": [F._keys_of(td, b)] if keys else None} for b in range(B)]
    out["rows"] = rows
    out["td_reset"] = td
    pads = 0
    k = 0
    probed = set()

    def probe():
        dn = [bool(x) for x in td["done"].reshape(-1).tolist()]
        pat = "all" if all(dn) else ("none" if not any(dn) else "mixed")
        if not probe_reward or pat == "all" or pat in probed:
            return
        probed.add(pat)
        rec = {"step": k, "done": dn, "pattern": pat, "raised": None, "values": None}
        try:
            v = guard.call(kind, "get_reward", env.get_reward, td.clone(), None)
            rec["raised"] = False
            rec["values"] = [float(x) for x in v.reshape(-1).tolist()]
        except guard.EnvTimeout:
            raise
        except Exception as e:  # noqa: BLE001
            rec["raised"] = True
            rec["error"] = "%s: %s" % (type(e).__name__, str(e)[:120])
        out["reward_probes"].append(rec)

    try:
        while True:
            if bool(td["done"].all()):
                if pads >= extra_pad:
                    break
                pads += 1
            if k >= max_steps:
                out["crash"] = {"where": "loop", "error": "episode longer than %d steps" % max_steps, "step": k}
                break
            probe()
            acts = []
            for b in range(B):
                mrow = [bool(x) for x in td["action_mask"][b].tolist()]
                plan = plans[b] if plans else None
                if plan is not None and k < len(plan):
                    a = plan[k]
                    if not (0 <= a < len(mrow) and mrow[a]):
                        rows[b]["plan_dev"] = k if rows[b]["plan_dev"] is None else rows[b]["plan_dev"]
                        a = None
                else:
                    a = None
                if a is None:
                    a = F._choose(torch, mrow, bool(td["done"][b]), policies[b % len(policies)], rng)
                if a is None:
                    out["crash"] = {"where": "mask", "error": "empty mask row", "row": b, "step": k}
                    a = 0
                if sum(mrow) >= 2:
                    rows[b]["choice"] = True
                acts.append(a)
            if out["crash"]:
                break
            out["actions"].append(list(acts))
            td.set("action", torch.tensor(acts, dtype=torch.int64))
            try:
                td = guard.call(kind, "step", env.step, td)["next"]
            except guard.EnvTimeout:
                raise
            except Exception as e:  # noqa: BLE001
                out["crash"] = {"where": "step", "error": repr(e)[:300], "step": k}
                break
            k += 1
            for b in range(B):
                d = bool(td["done"][b])
                rows[b]["steps"].append((acts[b], [bool(x) for x in td["action_mask"][b].tolist()], d))
                if d and rows[b]["first_done"] is None:
                    rows[b]["first_done"] = k
                if rows[b]["keys"] is not None:
                    try:
                        rows[b]["keys"].append(F._keys_of(td, b))
                    except F.NotIntegral:
                        rows[b]["keys"] = None
        if out["crash"] is None:
            try:
                rew = guard.call(kind, "get_reward", env.get_reward, td, None)
                out["rewards_raw"] = [float(x) for x in rew.reshape(-1).tolist()]
                out["rewards"] = [F._ints(rew[b])[0] for b in range(B)]
                fin = []
                for b in range(B):
                    N, M = len(insts[b]["pad"]), len(insts[b]["proc"])
                    a = F._ints(td["ma_assignment"][b])
                    fin.append({"start": F._ints(td["start_times"][b]), "finish": F._ints(td["finish_times"][b]),
                                "assign": [[bool(x) for x in a[m * N:(m + 1) * N]] for m in range(M)], "reward": out["rewards"][b]})
                out["finals"] = fin
            except (F.NotIntegral, OverflowError, ValueError):      # non-integral / infinite / nan reward: no exact comparison possible
                out["rewards"] = None
            except guard.EnvTimeout:
                raise
            except Exception as e:  # noqa: BLE001
                out["crash"] = {"where": "get_reward", "error": repr(e)[:300]}
    except guard.EnvTimeout as e:      # the interrupted state is abandoned
        out["crash"] = {"where": "timeout", "call": e.what, "error": str(e), "step": k}
    return out


def fjsp_replay_obj(kind, mno, out, row, extra=None):
    r = {"env": {"fjsp": "FJSPEnv", "jssp": "JSSPEnv"}[kind], "kind": "fjsp_batch", "mask_no_ops": mno,
         "instances": out["insts"], "actions_per_step": out["actions"], "row": row, "crash": out["crash"]}
    if extra:
        r.update(extra)
    return r


def fjsp_case(kind, mno, inst_name, row, final=None):
    case = {"jssp": kind == "jssp", "mno": mno, "mask0": row["mask0"], "steps": row["steps"], "final": final, "keys": row.get("keys")}
    return F._case_coq(case, inst_name)


def fjsp_header(insts):
    return HDR_FJSP + "".join("Definition I%d : inst := %s.\n" % (k, F._inst_coq(i)) for k, i in enumerate(insts))


def fjsp_py_c02(kind, mno, out, coll, want_bound=True):
    """the property itself on the implementation's observables (no model): returns True when the batch is usable"""
    if out["crash"]:
        c = out["crash"]
        if c["where"] == "timeout":      # C02's "episodes terminate": an env call did not return; instance + actions are the replay
            coll.fail(guard.signature(kind, c["call"]), fjsp_replay_obj(kind, mno, out, 0, {
                "what": c["error"], "hangs_in": "env.%s, after the recorded actions_per_step (the last list is the step that hangs)" % c["call"]}))
            return False
        mech = {"mask": "dead-end(empty-mask)", "step": "crash-on-offered-action", "reset": "reset-raises",
                "loop": "episode-does-not-terminate", "get_reward": "get_reward-raises"}[c["where"]]
        coll.fail("%s: %s" % (kind, mech), fjsp_replay_obj(kind, mno, out, c.get("row", 0), {"what": mech}))
        return False
    for b, row in enumerate(out["rows"]):
        prev = False
        for k, (a, m, d) in enumerate(row["steps"], 1):
            if not any(m):
                coll.fail("%s: dead-end(empty-mask)" % kind, fjsp_replay_obj(kind, mno, out, b, {"step": k, "what": "empty action_mask row"}))
            if prev and not d:
                coll.fail("%s: finished-row-became-unfinished" % kind, fjsp_replay_obj(kind, mno, out, b, {"step": k}))
            prev = d
        if want_bound and row["first_done"] is not None and row["first_done"] > fjsp_bound(out["insts"][b], mno):
            coll.fail("%s: step-bound-exceeded" % kind, fjsp_replay_obj(kind, mno, out, b, {
                "steps_before_done": row["first_done"], "bound": fjsp_bound(out["insts"][b], mno)}))
    return True


# ---- FJSPEnv._get_reward on a batch that is not finished (its guard `assert td["done"].all()`; model SchedBatch.b_reward)
REWARD_GUARD_SIG = "%s: get_reward-answers-on-unfinished-batch"


def fjsp_reward_guard_evaluate(ctx, outs, coll, prefix, count=True):
    """outs = [(kind, mno, out)] with out["reward_probes"] (fjsp_rollout(probe_reward=True)).  Python: the implementation's own
    done flags say a row is unfinished and env.get_reward answered anyway -> concrete failure.  Coq: Harness/HC0234_fjsp.v
    check_reward_guard runs the row model on every row's actions up to the probe and compares `raised` with b_reward = None."""
    insts, cases, metas = [], [], []
    for kind, mno, out in outs:
        if out["crash"]:
            continue
        for p in out.get("reward_probes", []):
            k = p["step"]
            rep = fjsp_replay_obj(kind, mno, dict(out, actions=out["actions"][:k]), p["done"].index(False), {
                "probe": "env.get_reward(td, None) after %d steps" % k, "probe_step": k, "done_flags": p["done"],
                "get_reward_raised": p["raised"], "get_reward_returned": p["values"],
                "expected": "AssertionError (the guard `assert td['done'].all()`): a reward before every row is finished is no objective value"})
            if count:
                ctx.count("%s_get_reward_probes_done_%s_%s" % (kind, p["pattern"], "raised" if p["raised"] else "answered"))
            if not p["raised"]:
                coll.fail(REWARD_GUARD_SIG % kind, dict(rep, what="env.get_reward answered %r although done = %r" % (p["values"], p["done"])))
            rows = []
            for b, row in enumerate(out["rows"]):
                insts.append(out["insts"][b])
                rows.append("(I%d, %s)" % (len(insts) - 1, clist(cnat(a) for a, _, _ in row["steps"][:k])))
            if p["raised"]:
                obs = "None"
            else:
                vals = [int(v) if v == v and abs(v) < 1e15 and float(v) == int(v) else 0 for v in p["values"]]
                obs = "(Some %s)" % clist(cz(v) for v in vals)
            cases.append("(%s, %s, %s, %s)" % (cbool(kind == "jssp"), cbool(mno), clist(rows), obs))
            metas.append((kind, rep))
    if not cases:
        return 0
    codes = coq_codes(ctx, prefix, fjsp_header(insts), "rg_case", "check_reward_guard", cases, shard=40)
    if codes is not None:
        for kind in ("fjsp", "jssp"):
            sel = [(c, m[1]) for c, m in zip(codes, metas) if m[0] == kind]
            coll.codes(kind, [c for c, _ in sel], [m for _, m in sel], "guard")
    return len(cases)


def fjsp_stepwise_evaluate(ctx, outs, coll, prefix, count=True):
    """outs = [(kind, mno, out)] of F.stepwise_episode.  Python: the telescoping identity on the implementation's own numbers
    (L0 - sum r = -sparse reward).  Coq: HC07_fjsp.check_stepwise (= check_C03_stepwise) against the makespan of the schedule
    the row model induces from (instance, actions)."""
    insts, cases, metas = [], [], []
    for kind, mno, out in outs:
        env_sig = "%s/stepwise_reward=True" % kind
        if out["crash"]:
            c = out["crash"]
            sig = (guard.signature(kind, c["call"]) if c["where"] == "timeout" else
                   "%s: %s" % (kind, {"mask": "dead-end(empty-mask)", "step": "crash-on-offered-action", "reset": "reset-raises",
                                      "loop": "episode-does-not-terminate", "get_reward": "get_reward-raises"}[c["where"]]))
            coll.fail(sig, F.stepwise_replay_obj(kind, mno, out, c.get("row", 0), "stepwise_reward=True: " + c["error"]))
            continue
        for b, row in enumerate(out["rows"]):
            why = F.stepwise_py_check(row)
            if why is not None:
                coll.fail("%s: %s" % (env_sig, CONCRETE[4]), F.stepwise_replay_obj(kind, mno, out, b, why))
            if F.stepwise_scale_tol(row) is None or row["sparse"] is None:
                continue
            insts.append(out["insts"][b])
            cases.append(F.stepwise_term(kind, mno, "I%d" % (len(insts) - 1), row))
            metas.append((env_sig, F.stepwise_replay_obj(kind, mno, out, b, "")))
            if count:
                ctx.seen({"sw": True, "i": out["insts"][b], "a": row["acts"], "k": kind, "m": mno}, nontrivial=len(row["acts"]) >= 2 and row["choice"])
                ctx.count("c03_%s_stepwise_rows" % kind)
                ctx.count("c03_%s_stepwise_rows_%s" % (kind, "exact_dyadic" if F.stepwise_scale_tol(row)[1] == 0 else "with_float32_rounding_allowance"))
                ctx.count("c03_%s_stepwise_steps_with_nonzero_reward" % kind, sum(1 for v in row["r"] if v != 0))
                ctx.count("c03_%s_stepwise_padding_steps_after_done" % kind, len(row["r"]) - (row["first_done"] or len(row["r"])))
    if not cases:
        return 0
    codes = coq_codes(ctx, prefix, fjsp_header(insts), "sw_case", "check_C03_stepwise", cases, shard=40)
    if codes is not None:
        for env_sig in sorted(set(m[0] for m in metas)):
            sel = [(c, m[1]) for c, m in zip(codes, metas) if m[0] == env_sig]
            coll.codes(env_sig, [c for c, _ in sel], [m for _, m in sel], "c03")
    return len(cases)


def stepwise_streams(ctx, rng, torch, scale, prefix):
    """FJSPEnv / JSSPEnv(stepwise_reward=True), mask_no_ops on/off: mixed batches (unequal op counts, one slowed-down batch-mate,
    a walk policy per row, 0..2 padding steps), one long-horizon batch per configuration.  Returns [(kind, mno, out)]."""
    pols = ["random", "wait", "nowait", "first", "last"]
    res = []
    for kind in ("fjsp", "jssp"):
        for mno in (True, False):
            for rep in range(scale + 1):
                if guard.timed_out(kind):
                    break
                gp = fjsp_long_params(rng, kind) if rep == scale else fjsp_gen_params(rng, kind, big=scale > 2)
                if rep != scale and kind == "fjsp" and rep % 2 == 1:
                    gp["num_machines"] = 4       # 1, 2 or 4 eligible machines are exact means; 3 exercises the rounding allowance
                torch.manual_seed(rng.randrange(2 ** 31))
                env = fjsp_env(kind, mno, gp, stepwise=True)
                B = rng.randint(2, 4)
                td0 = env.generator(batch_size=[B])
                if B > 1 and rng.random() < 0.7:
                    td0["proc_times"][B - 1] = td0["proc_times"][B - 1] * 3
                try:
                    out = F.stepwise_episode(torch, kind, env, td0, [rng.choice(pols) for _ in range(B)], rng, extra_pad=rng.randint(0, 2))
                except F.NotIntegral:
                    continue
                ctx.count("%s_%s_stepwise_batches_%s" % (prefix, kind, "mask_no_ops" if mno else "waits_allowed"))
                res.append((kind, mno, out))
            # the hand-built rows finishing exactly at / far beyond the library's "not scheduled yet" marker 9999
            if not guard.timed_out(kind):
                env = fjsp_env(kind, mno, {"num_jobs": 2, "num_machines": 2}, stepwise=True)
                out = F.stepwise_episode(torch, kind, env, fjsp_td(torch, fjsp_sentinel_rows()), [rng.choice(pols) for _ in range(3)], rng, extra_pad=1)
                ctx.count("%s_%s_stepwise_batches_with_finish_times_at_and_beyond_9999" % (prefix, kind))
                res.append((kind, mno, out))
    return res


def fjsp_replay(obj):
    import torch
    if obj.get("stepwise_reward"):
        return F.stepwise_replay(obj)
    kind = "jssp" if obj["env"] == "JSSPEnv" else "fjsp"
    insts = obj["instances"]
    env = fjsp_env(kind, obj["mask_no_ops"], {"num_jobs": len(insts[0]["start"]), "num_machines": len(insts[0]["proc"])})
    b = obj.get("row", 0)
    print("signature:", obj.get("signature"))
    print("row", b, "instance:", insts[b])
    k = 0
    try:
        td = guard.call(kind, "reset", env.reset, fjsp_td(torch, insts))
        print("mask after reset:", [int(x) for x in td["action_mask"][b].tolist()])
        for k, acts in enumerate(obj.get("actions_per_step", []), 1):
            td.set("action", torch.tensor(acts, dtype=torch.int64))
            td = guard.call(kind, "step", env.step, td)["next"]
            print("step %d actions %s -> row %d mask %s done %s" % (k, acts, b, [int(x) for x in td["action_mask"][b].tolist()], bool(td["done"][b])))
    except guard.EnvTimeout as e:
        print("HANG reproduced: %s (in step %d of the recorded actions)" % (e, k + 1 if obj.get("actions_per_step") else 0))
        return 1
    rc = 0
    if "probe_step" in obj:
        dn = [bool(x) for x in td["done"].reshape(-1).tolist()]
        try:
            v = env.get_reward(td.clone(), None)
            print("env.get_reward(td, None) with done = %s answered now: %s   (recorded: raised=%s, returned=%s)" % (
                dn, v.reshape(-1).tolist(), obj.get("get_reward_raised"), obj.get("get_reward_returned")))
            rc = 0 if all(dn) else 1
        except Exception as e:  # noqa: BLE001
            print("env.get_reward(td, None) with done = %s raised now: %s: %s   (recorded: raised=%s)" % (
                dn, type(e).__name__, str(e)[:100], obj.get("get_reward_raised")))
    elif bool(td["done"].all()):
        print("reward now:", env.get_reward(td, None).tolist())
    for key in ("expected", "observed", "solo", "batched", "what"):
        if key in obj:
            print(key, ":", obj[key])
    return rc


# =================================================================================================== FFSP / SMTWTP
def ffsp_env(J, S_, M, flat=True):
    return G._ffsp_env(J, S_, M, 1, 5, flat)


def ffsp_step_bound(rec):
    """C02_ffsp_step_bound: (J*S*(Dmax+2) + 2) * S*M"""
    dmax = max([0] + [x for row in rec["rt"] for x in row])
    return (rec["J"] * rec["S"] * (dmax + 2) + 2) * rec["S"] * rec["M"]


def ffsp_py_c02(recs, coll):
    ok = []
    for rec in recs:
        if rec.get("crashed"):
            msg = rec["crashed"]
            if rec.get("timeout"):      # C02's "episodes terminate": env.step / reset did not return (vt/sched_guard.py)
                coll.fail(guard.signature("ffsp", rec["timeout"]), G.ffsp_replay_obj(rec, msg, -1))
                continue
            mech = ("dead-end(empty-mask)" if msg.startswith("empty mask") else
                    "episode-does-not-terminate" if msg.startswith("episode longer") else "crash-on-offered-action")
            coll.fail("ffsp: %s" % mech, G.ffsp_replay_obj(rec, msg, -1))
            continue
        prev = False
        bad = False
        for k, (a, o) in enumerate(rec["steps"], 1):
            if o.get("cmp", True) and not any(o["mask"]):
                coll.fail("ffsp: dead-end(empty-mask)", G.ffsp_replay_obj(rec, "empty action_mask row at step %d" % k, -1))
                bad = True
            if prev and not o["done"]:
                coll.fail("ffsp: finished-row-became-unfinished", G.ffsp_replay_obj(rec, "done went back to False at step %d" % k, -1))
                bad = True
            prev = o["done"]
        fd = rec["first_done"]
        if fd is not None:
            jobs = sum(1 for a, _ in rec["steps"][:fd] if a < rec["J"])
            if jobs != rec["J"] * rec["S"]:
                coll.fail("ffsp: step-bound-exceeded", G.ffsp_replay_obj(rec, "%d real-job steps before done, J*S = %d" % (jobs, rec["J"] * rec["S"]), -1))
                bad = True
            bound = ffsp_step_bound(rec)
            if fd > bound:
                coll.fail("ffsp: step-bound-exceeded", G.ffsp_replay_obj(rec, "%d steps before done, bound (J*S*(Dmax+2)+2)*S*M = %d" % (fd, bound), -1))
                bad = True
        if not bad:
            ok.append(rec)
    return ok


def ffsp_c03_term(rec):
    inst = "(FFSP.Build_inst %s %s %s %s %s %s)" % (
        cnat(rec["J"]), cnat(rec["S"]), cnat(rec["M"]),
        clist("[" + "; ".join(cz(x) for x in row) + "]" for row in rec["rt"]),
        clist(cnat(x) for x in rec["mtab"]), cbool(rec["flat"]))
    return "(%s, %s, %s)" % (inst, clist(cnat(a) for a, _ in rec["steps"]), cz(int(rec["reward"])))


def smtwtp_c03_term(rec):
    inst = "(SMTWTP.Build_inst %s %s %s %s)" % (cnat(rec["n"]), clist(cz(x) for x in rec["due"]),
                                               clist(cz(x) for x in rec["wgt"]), clist(cz(x) for x in rec["ptime"]))
    return "(%s, %s, %s)" % (inst, clist(cnat(a) for a, _, _ in rec["steps"]), cz(rec["reward_scaled"]))


def smtwtp_rows(rng, n, B, gen_env=None, torch=None):
    """B instances with n jobs on the 1/64 grid (index 0 = dummy): (due, weight, ptime)"""
    rows = []
    for _ in range(B):
        p = [0] + [rng.randint(0, 64) for _ in range(n)]
        w = [0] + [rng.randint(0, 64) for _ in range(n)]
        if rng.random() < 0.5:     # due dates on completion times of some order: tardiness exactly 0 on the boundary
            order = list(range(1, n + 1))
            rng.shuffle(order)
            c, d = 0, [0] * (n + 1)
            for j in order:
                c += p[j]
                d[j] = max(0, c + rng.choice([-1, 0, 0, 1]))
        else:
            d = [0] + [rng.randint(0, 32 * n) for _ in range(n)]
        rows.append((d, w, p))
    return rows


def smtwtp_py_c02(recs, coll):
    ok = []
    for rec in recs:
        bad = False
        if rec["crashed"] and rec.get("timeout"):
            coll.fail(guard.signature("smtwtp", rec["timeout"]), G.smtwtp_replay_obj(rec, rec["crashed"], -1))
            continue
        if rec["crashed"]:
            coll.fail("smtwtp: dead-end(empty-mask)", G.smtwtp_replay_obj(rec, rec["crashed"], -1))
            bad = True
        prev = False
        nd = None
        for k, (a, m, d) in enumerate(rec["steps"], 1):
            if prev and not d:
                coll.fail("smtwtp: finished-row-became-unfinished", G.smtwtp_replay_obj(rec, "step %d" % k, -1))
                bad = True
            if d and nd is None:
                nd = k
            prev = d
        if nd != rec["n"]:
            coll.fail("smtwtp: step-bound-exceeded", G.smtwtp_replay_obj(rec, "first done after %r steps, n = %d" % (nd, rec["n"]), -1))
            bad = True
        if not bad and rec["reward_scaled"] is not None:
            ok.append(rec)
    return ok


# =================================================================================================== graph
def flp_inst_term(row):
    return "{| f_n := %s; f_D := %s; f_dist0 := %s; f_q := %s |}" % (
        cnat(row["n"]), S.zll([[S.zs(x, S.DBITS) for x in rv] for rv in row["D"]]), S.zl(S.zs(x, S.DBITS) for x in row["dist0"]),
        czraw(row["q"]))


def mcp_inst_term(row):
    return "{| m_mem := %s; m_w := %s; m_q := %s |}" % (
        S.zll([[S.zint(x) for x in rv] for rv in row["mem"]]), S.zl(S.zs(x, S.WBITS) for x in row["w"]), czraw(row["q"]))


def eda_inst_term(row):
    if row["env"] == "dpp":
        return "{| d_probe := %s; d_avail := %s; d_q := %s |}" % (cnat(row["probe"]), S.bl(row["avail"]), czraw(row["q"]))
    return "{| md_probe := %s; md_avail := %s; md_q := %s |}" % (S.bl(row["probe"]), S.bl(row["avail"]), czraw(row["q"]))


INST_TERM = {"flp": flp_inst_term, "mcp": mcp_inst_term, "dpp": eda_inst_term, "mdpp": eda_inst_term}
INST_TYPE = {"flp": "flp_inst", "mcp": "mcp_inst", "dpp": "dpp_inst", "mdpp": "mdpp_inst"}
OBS_FN = {"flp": S.flp_obs, "mcp": S.mcp_obs, "dpp": S.eda_obs, "mdpp": S.eda_obs}


def graph_allowed(row):
    if row["env"] == "flp":
        return row["n"]
    if row["env"] == "mcp":
        return row["ns"]
    if row["env"] == "dpp":
        return sum(1 for x in row["avail"] if x)
    return sum(1 for c, x in enumerate(row["avail"]) if x and not row["probe"][c])


def graph_env(torch, envname, size=None, q=None):
    if envname == "flp":
        from rl4co.envs.graph.flp.env import FLPEnv
        return FLPEnv(check_solution=False)
    if envname == "mcp":
        from rl4co.envs.graph.mcp.env import MCPEnv
        return MCPEnv(check_solution=False)
    import numpy as np
    S.EDA_ROOT.mkdir(parents=True, exist_ok=True)
    S.eda_write_data(np)
    env = S.eda_env(envname, size, q, kmin=1, kmax=max(2, size * size // 2))
    return env


def graph_td(torch, envname, rows, qshape="B"):
    if envname == "flp":
        return S.flp_td(torch, rows, qshape)
    if envname == "mcp":
        return S.mcp_td(torch, rows)
    return S.eda_td(torch, rows)


def graph_rows(torch, rng, envname, B, size, q, env=None, exact=True):
    """B instances of one env with common size and quota q (per-row quotas are set by the caller)"""
    rows = []
    if envname == "flp":
        for _ in range(B):
            rows.append(S.flp_make_row(torch, rng, rng.choice(["points", "dyadic", "asym"]), size, q))
    elif envname == "mcp":
        ni = rng.randint(3, 7)
        for _ in range(B):
            rows.append(S.mcp_make_row(torch, rng, rng.choice(["pad_end", "holes", "dups"]), size, ni, q))
        width = max(len(x) for r in rows for x in r["mem"])
        for r in rows:
            r["mem"] = [x + [0.0] * (width - len(x)) for x in r["mem"]]
    else:
        n = size * size
        for _ in range(B):
            for _try in range(8):
                row = S.eda_make_row(torch, rng, rng.choice(["sparse", "none", "rows"]), envname, size, q)
                if graph_allowed(row) >= q:
                    break
            rows.append(row)
    return rows


def graph_rollout(torch, env, envname, rows, plans, rng, qshape="B", max_steps=None):
    """rl4co's loop on one batch: step while not td['done'].all(); forced plans where given (S.drive).
    Returns (recs, rewards|None, crash|None, raw_done, td)."""
    td = env.reset(graph_td(torch, envname, rows, qshape))
    ms = max_steps or (max(graph_allowed(r) for r in rows) + 3)
    td, recs, shapes, raw = S.drive(torch, env, td, rng, plans, OBS_FN[envname], 0, ms)
    crash = recs[0]["crash"] if recs else None
    rew = None
    if crash is None and envname in ("flp", "mcp") and recs and recs[0]["acts"]:
        try:
            rew = env.get_reward(td, torch.tensor([r["acts"] for r in recs], dtype=torch.int64)).tolist()
        except Exception as e:  # noqa: BLE001
            crash = {"where": "get_reward", "error": "%s: %s" % (type(e).__name__, str(e)[:300])}
    return recs, rew, crash, raw, td


def graph_replay_obj(envname, rows, recs, row, extra=None, qshape="B"):
    clean = []
    for r in rows:
        r = dict(r)
        r.pop("tol", None)
        clean.append(r)
    obj = {"kind": "graph_batch", "env": envname, "batch_rows": clean, "actions_per_row": [r["acts"] for r in recs], "row": row,
           "to_choose_shape": qshape}
    if extra:
        obj.update(extra)
    return obj


def graph_py_c02(envname, rows, recs, crash, coll, qshape="B"):
    if crash:
        coll.fail("%s: crash-on-offered-action" % envname, graph_replay_obj(envname, rows, recs, 0, {"crash": crash}, qshape))
        return False
    good = True
    for b, (row, rec) in enumerate(zip(rows, recs)):
        prev = False
        first = None
        q = row["q"]
        for k, o in enumerate(rec["obs"], 1):
            d = o["done"]
            if d is None:
                coll.fail("%s: done-row-not-uniform" % envname, graph_replay_obj(envname, rows, recs, b, {"step": k}, qshape))
                good = False
                continue
            if prev and not d:
                coll.fail("%s: finished-row-became-unfinished" % envname, graph_replay_obj(envname, rows, recs, b, {"step": k}, qshape))
                good = False
            if not d and not any(o["mask"]) and q <= graph_allowed(row):
                coll.fail("%s: dead-end(empty-mask)" % envname, graph_replay_obj(envname, rows, recs, b, {"step": k}, qshape))
                good = False
            if d and first is None:
                first = k
            prev = d
        if q <= graph_allowed(row) and first != q:
            coll.fail("%s: step-bound-exceeded" % envname, graph_replay_obj(envname, rows, recs, b, {
                "first_done_after": first, "quota": q, "what": "the row is not done exactly from its quota-th selection on"}, qshape))
            good = False
    return good


def graph_c02_term(envname, row, rec):
    steps = clist("(%s, (%s, %s))" % (cnat(a), cbool(any(o["mask"])), cbool(o["done"])) for a, o in zip(rec["acts"], rec["obs"]))
    return "(%s, %s)" % (INST_TERM[envname](row), steps)


def graph_c04_term(envname, row, rec):
    steps = clist("(%s, (%s, %s))" % (cnat(a), S.bl(o["mask"]), cbool(o["done"])) for a, o in zip(rec["acts"], rec["obs"]))
    return "(%s, %s, %s)" % (INST_TERM[envname](row), S.bl(rec["obs0"]["mask"]), steps)


def graph_replay(obj):
    import random

    import torch
    rng = random.Random(0)
    envname = obj["env"]
    rows = [dict(r) for r in obj["batch_rows"]]
    for r in rows:
        r["tol"] = Fraction(0)
    size = rows[0].get("size")
    env = graph_env(torch, envname, size, rows[0]["q"])
    if envname in ("dpp", "mdpp"):
        env.max_decaps = rows[0]["q"]
    recs, rew, crash, raw, td = graph_rollout(torch, env, envname, rows, obj["actions_per_row"], rng, obj.get("to_choose_shape", "B"))
    b = obj.get("row", 0)
    print("signature:", obj.get("signature"))
    print("row %d quota %s actions taken now: %s" % (b, rows[b]["q"], recs[b]["acts"]))
    print("done after each step:", [o["done"] for o in recs[b]["obs"]])
    print("rewards now:", rew, "crash:", crash)
    for key in ("expected", "observed", "solo", "batched", "what"):
        if key in obj:
            print(key, ":", obj[key])
    return 0


def replay(obj):
    k = obj.get("kind")
    if k in ("fjsp_batch", "fjsp_stepwise"):
        return fjsp_replay(obj)
    if k == "ffsp_pre_step_probe":
        return G.replay(obj)
    if k == "graph_batch":
        return graph_replay(obj)
    if k == "mixed_quota":
        return S.replay(obj)
    if k in ("c05_fjsp", "c05_ffsp", "c05_smtwtp"):
        from vt.props import c05_sched
        return c05_sched.replay(obj)
    eu = obj.get("env_unit") or obj.get("unit")
    if eu in ("ffsp", "smtwtp"):
        return G.replay(dict(obj, unit=eu))
    import json
    print(json.dumps(obj, indent=1)[:3000])
    return 0


# =================================================================================================== streams shared by C02 and C03
def sched_streams(ctx, rng, torch, scale, coll, prefix):
    """Mixed batches of the four scheduling envs: rows of unequal size finishing at different steps (one slowed-down
    batch-mate per batch), a different walk policy per row, 0..2 further padding steps after the last row finished;
    finished rows receive random admitted (= their inert) actions meanwhile.
    Returns dict(fjsp=[(kind, mno, out)], ffsp=[rec], smtwtp=[rec]); the python-level C02 checks have run (coll)."""
    res = {"fjsp": [], "ffsp": [], "smtwtp": [], "ffsp_batches": [], "fjsp_all": []}
    pols = ["random", "wait", "nowait", "first", "last"]
    # ---- FJSP / JSSP
    for kind in ("fjsp", "jssp"):
        for mno in (True, False):
            for rep in range(scale):
                gp = fjsp_gen_params(rng, kind, big=scale > 2)
                torch.manual_seed(rng.randrange(2 ** 31))
                env = fjsp_env(kind, mno, gp)
                B = rng.randint(3, 5)
                td0 = env.generator(batch_size=[B])
                if rng.random() < 0.7:       # a batch-mate that needs much longer: the others idle on padding meanwhile
                    td0["proc_times"][B - 1] = td0["proc_times"][B - 1] * 3
                if guard.timed_out(kind):     # an env call of this env did not return (reported): the env is abandoned
                    continue
                out = fjsp_rollout(torch, env, td0, rng, None, [rng.choice(pols) for _ in range(B)], rng.randint(0, 2), kind=kind,
                                   probe_reward=True)
                res["fjsp_all"].append((kind, mno, out))
                ok = fjsp_py_c02(kind, mno, out, coll)
                ctx.count("%s_%s_batches_%s" % (prefix, kind, "mask_no_ops" if mno else "waits_allowed"))
                if ok:
                    fds = [r["first_done"] for r in out["rows"]]
                    if len(set(fds)) > 1:
                        ctx.count("%s_%s_batches_rows_finish_at_different_steps" % (prefix, kind))
                    ctx.count("%s_%s_padding_steps_on_finished_rows" % (prefix, kind),
                              sum(len(r["steps"]) - (r["first_done"] or len(r["steps"])) for r in out["rows"]))
                    nops = [sum(1 for p in i["pad"] if not p) for i in out["insts"]]
                    if len(set(nops)) > 1:
                        ctx.count("%s_%s_batches_with_unequal_op_counts" % (prefix, kind))
                    res["fjsp"].append((kind, mno, out))
    # ---- FJSP / JSSP long-horizon: the clock passes INIT_FINISH = 9999 while a short batch-mate idles on padding steps, and
    #      hand-built rows finishing exactly at / far beyond the marker
    for kind in ("fjsp", "jssp"):
        for mno in (True, False):
            for rep in range(max(1, scale // 4)):
                gp = fjsp_long_params(rng, kind)
                torch.manual_seed(rng.randrange(2 ** 31))
                env = fjsp_env(kind, mno, gp)
                td0 = env.generator(batch_size=[2])
                gen = [F._inst_of_td(td0, b) for b in range(2)]
                rows = [gen[0], fjsp_short_copy(rng, gen[1]), gen[1]]
                rng.shuffle(rows)
                batches = [rows, fjsp_sentinel_rows()]
                for brow in batches:
                    if guard.timed_out(kind):
                        continue
                    out = fjsp_rollout(torch, env, fjsp_td(torch, brow), rng, None, [rng.choice(pols) for _ in brow], rng.randint(0, 2),
                                       kind=kind, probe_reward=True)
                    res["fjsp_all"].append((kind, mno, out))
                    ctx.count("%s_%s_long_horizon_batches" % (prefix, kind))
                    if fjsp_py_c02(kind, mno, out, coll):
                        if out["finals"]:
                            ctx.count("%s_%s_rows_with_finish_time_at_or_beyond_9999" % (prefix, kind),
                                      sum(1 for f, i_ in zip(out["finals"], out["insts"])
                                          if any(v >= 9999 for v, pd in zip(f["finish"], i_["pad"]) if not pd)))
                        res["fjsp"].append((kind, mno, out))
    # ---- FFSP
    envs = {}
    # far side of FFSP's "empty cell" marker -999999: one job, two machines per stage; machine 0 of each stage is the one the sweep
    # reaches first (so the one used), the unused machine 1 carries durations far larger than the makespan (and a second row
    # with long used durations, a third ordinary one)
    for rep in range(max(1, scale // 4)):
        S_ = rng.randint(1, 3)
        key = (1, S_, 2)
        if key not in envs:
            envs[key] = ffsp_env(1, S_, 2, True)
        far = [[rng.randint(1, 4) if k % 2 == 0 else rng.choice([50000, 400000, 900000]) for k in range(2 * S_)]]
        longrow = [[rng.randint(60, 150) if k % 2 == 0 else 2 for k in range(2 * S_)]]
        if guard.timed_out("ffsp"):
            break
        recs = G.ffsp_episode(envs[key], [far, longrow, G._rand_rt(rng, 1, 2 * S_, 1, 4)], ["nowait", "uniform", "uniform"], rng,
                              probe_pre_step=True)
        res["ffsp_batches"].append(recs)
        for rec in recs:
            rec["kind"] = "batch"
        ctx.count("%s_ffsp_batches_with_durations_beyond_the_makespan_on_unused_cells" % prefix)
        res["ffsp"] += ffsp_py_c02(recs, coll)
    for rep in range(2 * scale):
        J, S_, M = rng.randint(2, 4), rng.choice([1, 2, 2, 3]), rng.randint(1, 2)
        key = (J, S_, M)
        if key not in envs:
            envs[key] = ffsp_env(J, S_, M, rng.random() < 0.7)
        env = envs[key]
        B = rng.randint(2, 4)
        lo = rng.choice([0, 1, 1])
        run_time = [G._rand_rt(rng, J, S_ * M, lo, lo + rng.choice([1, 3, 6])) for _ in range(B)]
        if B > 1 and rng.random() < 0.7:
            run_time[-1] = [[x * 3 + 2 for x in r] for r in run_time[-1]]
        if guard.timed_out("ffsp"):      # env.step / reset did not return (reported by ffsp_py_c02): FFSP is abandoned
            break
        recs = G.ffsp_episode(env, run_time, [rng.choice(["uniform", "wait", "nowait", "first", "lastjob"]) for _ in range(B)], rng,
                              probe_pre_step=True)
        res["ffsp_batches"].append(recs)
        for rec in recs:
            rec["kind"] = "batch"
        fds = [r["first_done"] for r in recs]
        if len(set(fds)) > 1:
            ctx.count("%s_ffsp_batches_rows_finish_at_different_steps" % prefix)
        ctx.count("%s_ffsp_batches" % prefix)
        res["ffsp"] += ffsp_py_c02(recs, coll)
    # ---- FFSP: batches on which env.pre_step is probed with rows at different stages (own generator)
    for recs in G.ffsp_mixed_stage_batches(ctx.seed + len(prefix)):
        res["ffsp_batches"].append(recs)
        ctx.count("%s_ffsp_batches_for_the_pre_step_guard_with_rows_at_different_stages" % prefix)
        res["ffsp"] += ffsp_py_c02(recs, coll)
    # ---- SMTWTP
    from rl4co.envs import SMTWTPEnv
    for rep in range(scale + 1):
        n = rng.randint(3, 7)
        B = rng.randint(1, 4)
        env = SMTWTPEnv(generator_params=dict(num_job=n), check_solution=False)
        if guard.timed_out("smtwtp"):
            break
        recs = G.smtwtp_batch(env, smtwtp_rows(rng, n, B), [None] * B, rng)
        ctx.count("%s_smtwtp_batches" % prefix)
        res["smtwtp"] += smtwtp_py_c02(recs, coll)
    return res


# =================================================================================================== graph streams (C02, C03)
def graph_streams(ctx, rng, torch, scale, coll, prefix, envs=("flp", "mcp", "dpp", "mdpp"), with_gen=False):
    """Batches of the selection envs: 2..4 rows, common quota (every third FLP/MCP batch: per-row quotas), uniform walks in
    the implementation's mask, rl4co's loop `while not done.all()`.  Returns [(envname, rows, recs, rewards, qshape, mixed)];
    the python-level C02 checks have run (coll)."""
    res = []
    eda_envs = {}
    for envname in envs:
        for rep in range(scale):
            if envname in ("flp", "mcp"):
                size = rng.randint(3, 7)
                q = rng.choice([1, size, rng.randint(1, size)])
                env = graph_env(torch, envname)
            else:
                size = rng.choice([2, 3, 3, 4])
                q = rng.randint(1, max(1, min(size * size - 2, 5)))
                key = (envname, size, q)
                if key not in eda_envs:
                    eda_envs[key] = graph_env(torch, envname, size, q)
                    eda_envs[key].max_decaps = q
                env = eda_envs[key]
            B = rng.randint(1, 4)
            rows = graph_rows(torch, rng, envname, B, size, q, env)
            if with_gen and envname == "flp" and rep % 2 == 1:      # generator data (float32 distances; tolerance in the case)
                from rl4co.envs.graph.flp.generator import FLPGenerator
                g = FLPGenerator(num_loc=size, to_choose=q)(batch_size=[B])
                rows = [S.flp_make_row(torch, rng, "gen", size, q, g, k) for k in range(B)]
            mixed = envname in ("flp", "mcp") and rep % 3 == 2 and B > 1
            if mixed:
                for r in rows:
                    r["q"] = rng.randint(1, size)
                ctx.count("%s_%s_mixed_quota_batches" % (prefix, envname))
            qshape = "B1" if rep % 2 == 0 else "B"
            recs, rew, crash, raw, td = graph_rollout(torch, env, envname, rows, [None] * B, rng, qshape)
            ctx.count("%s_%s_batches" % (prefix, envname))
            if graph_py_c02(envname, rows, recs, crash, coll, qshape):
                res.append((envname, rows, recs, rew, qshape, mixed))
    return res
