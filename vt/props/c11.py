"""C11 -- returned log-likelihoods are those of the returned actions; evaluate round trip; PPO ratio one.

Proof obligations: coq/theories/Properties/C11.v, about the model Decoding/DecodeLoop.v of ConstructivePolicy.forward +
DecodingStrategy (pre_decoder_hook / step / post_decoder_hook, Greedy / Sampling / Evaluate, _select_best) +
get_log_likelihood + calculate_entropy, for EVERY environment (Base/EnvSig.v) and EVERY per-row decoder function.

Correspondence (a): the real ConstructivePolicy with a STUB decoder whose logits are z * ln2, z an integer hash of
(instance seed, actions so far, action index), is run on real environments (TSP, CVRP, OP, PCTSP, SDVRP, PDP) in every
decode type (greedy, sampling, evaluate, multistart_greedy, multistart_sampling, multisample; with / without
select_best; store_all_logp on / off; temperature, top-k, top-p; td["mask"] flags).  The real env is tabulated along the
visited action prefixes and handed, with the sampled actions as the choice oracle, to the model, which is evaluated in
Coq at (Z, Qc, 2^z): actions must be equal, exp(logprob) per step and exp(summed LL) within tolerance (the model's
values are exact rationals), reward of the selected rollout equal.

Spec-on-impl (every run): an independent exact re-computation (python Fractions) of the masked normalised step
distributions along each returned action list: LL = sum of log-probs (forced / flagged steps 0), entropy = sum of
step entropies; evaluate(actions) reproduces per-step LL, reward, entropy.
Correspondence (b): real policies (random weights) that use the common loop; per-step logits are recorded by wrapping
DecodingStrategy.step and the same three facts are checked on the implementation's own outputs (tolerance 1e-4).

Additions (mutation sweep 2): (i) the VALUE of outdict["entropy"] is compared with the model (Decoding/DecodeLoopEntropy.v
at (Qc, lnQ)) on every store_all_logp pass; (ii) the configuration travels RAW and the model resolves it (C12's
strategy_init / hook_num_starts): a grid of select_best x multistart x num_starts in {0,1,2} x multisample corners,
including select_best=True without replicas and the constructor's assertion; (iii) max_steps: passes with
max_steps = T-1 (the budget is exactly the episode: fuel = max_steps + 1 = T), T and T-2 (one step short: truncated rows),
T = number of decoder steps of the same pass without a budget; (iv) every call into the policy goes through
vt.decode_guard.call (wall clock).

PARTIAL: that the network is the same per-row function in both passes (no dropout / batch statistics) is assumed."""
import math
import time
from fractions import Fraction

from vt.common import Ctx, cq, clist, cz, cnat, cnatlist, cboollist, cbool, coq_eval_shards
from vt import decode_guard as dg

HEADER = ("From Coq Require Import List ZArith QArith.\nFrom RL4CO Require Import Harness.HC11.\n"
          "Import ListNotations.\nOpen Scope Q_scope.\n")
LN2 = math.log(2.0)
TEMPS = {"1": (1.0, 1, 1), "1/2": (0.5, 2, 1), "2": (2.0, 1, 2)}   # name -> (temperature, tm, td): z -> z*tm/td
MARGIN = Fraction(1, 1000)
RSCALE = 1 << 44

SIG_MS_EVAL = "evaluate/multistart: forced-first-move-scored-as-ordinary-step"

ENVS = {
    "tsp": [dict(num_loc=4), dict(num_loc=5), dict(num_loc=6)],
    "cvrp": [dict(num_loc=4), dict(num_loc=5), dict(num_loc=6)],
    "op": [dict(num_loc=5), dict(num_loc=6)],
    "pctsp": [dict(num_loc=4), dict(num_loc=5)],
    "sdvrp": [dict(num_loc=4), dict(num_loc=5)],
    "pdp": [dict(num_loc=4), dict(num_loc=6)],
}
ENVS_THOROUGH = {
    "tsp": [dict(num_loc=7), dict(num_loc=8)], "cvrp": [dict(num_loc=7), dict(num_loc=8)], "op": [dict(num_loc=8)],
    "pctsp": [dict(num_loc=7)], "sdvrp": [dict(num_loc=6)], "pdp": [dict(num_loc=8)],
}


# ----------------------------------------------------------------------------------------------- the stub's hash
def zacc(seed, prefix):
    acc = seed
    for a in prefix:
        acc = (acc * 31 + a + 7) % 1009
    return acc


def zhash(seed, prefix, j):
    return (((zacc(seed, prefix) + 13) * (j + 3)) % 23) % 7 - 3


# ----------------------------------------------------------------------------------------------- exact SPEC (independent)
def spec_dist(zs, mask, tm, td, top_k):
    """The masked normalised distribution of one step, exactly (top-p off): list of Fractions."""
    pre = [((z * tm) // td if m else None) for z, m in zip(zs, mask)]
    feas = [i for i, v in enumerate(pre) if v is not None]
    if top_k > 0:
        k = min(top_k, len(pre))
        kept = [i for i in feas if sum(1 for j in feas if pre[j] > pre[i]) < k]
    else:
        kept = feas
    if not kept:
        return None
    zmax = max(pre[i] for i in kept)
    w = {i: Fraction(2) ** (pre[i] - zmax) for i in kept}
    tot = sum(w.values())
    return [w.get(i, Fraction(0)) / tot for i in range(len(pre))]


def spec_cums(zs, mask, tm, td, top_k):
    d = spec_dist(zs, mask, tm, td, top_k)
    if d is None:
        return []
    acc, out = Fraction(0), []
    for p in sorted(d):
        acc += p
        out.append(acc)
    return out


# ----------------------------------------------------------------------------------------------- td <-> json
def td_to_obj(td):
    out = {}
    for k in sorted(td.keys()):
        v = td[k]
        out[k] = {"dtype": str(v.dtype).replace("torch.", ""), "shape": list(v.shape),
                  "hex": [float(x).hex() for x in v.reshape(-1).double()]}
    return out


def obj_to_td(obj, B):
    import torch
    from tensordict import TensorDict
    d = {}
    for k, o in obj.items():
        vals = [float.fromhex(h) for h in o["hex"]]
        d[k] = torch.tensor(vals, dtype=torch.float64).reshape(o["shape"]).to(getattr(torch, o["dtype"]))
    return TensorDict(d, batch_size=[B])


# ----------------------------------------------------------------------------------------------- one pass of the real code
def resolve_cfg(ms, mp, ns, nsamp, dflt):
    """python mirror of DecodingStrategy.__init__ + the first block of pre_decoder_hook (the Coq side recomputes it from the
    same raw arguments with C12's strategy_init / hook_num_starts): -> (multistart, num_starts) or None = the constructor raises"""
    if ms and mp:
        return None
    if nsamp and ns and nsamp > 1 and ns > 1:
        return None
    if nsamp is not None:
        mp = nsamp > 1
    if ns is not None:
        ms = ns > 1
    n = ns if ms else nsamp
    if ms or mp:
        n = dflt if n is None else n
    else:
        n = 0
    return ms, n


class PassCfg:
    def __init__(self, mode, S=0, ms=False, sb=False, sa=False, temp="1", top_k=0, top_p=0.0, flags=0, dtype="float32",
                 raw=None, max_steps=None, max_kind=None, light=False, dflt=0):
        self.mode, self.S, self.ms, self.sb, self.sa = mode, S, ms, sb, sa
        self.temp, self.top_k, self.top_p, self.flags, self.dtype = temp, top_k, top_p, flags, dtype
        # raw: (multistart, multisample, num_starts, num_samples) as handed to the policy (grid stream); S / ms are then
        # the resolved values.  max_steps: the budget handed to forward (None: default).  dflt: env.get_num_starts(td)
        self.raw, self.max_steps, self.max_kind, self.light, self.dflt = raw, max_steps, max_kind, light, dflt

    def decode_type(self):
        if self.mode == "evaluate":
            return "evaluate"
        if self.raw is not None:
            return self.mode
        return ("multistart_" if self.ms else "") + self.mode

    def raw_tuple(self):
        """(multistart, multisample, num_starts, num_samples) as the DecodingStrategy constructor receives them"""
        if self.raw is not None:
            return tuple(self.raw)
        if self.mode == "evaluate" or self.S < 1:
            return (False, False, None, None)
        return (True, False, self.S, None) if self.ms else (False, False, None, self.S)

    def clone(self, **over):
        d = dict(mode=self.mode, S=self.S, ms=self.ms, sb=self.sb, sa=self.sa, temp=self.temp, top_k=self.top_k, top_p=self.top_p,
                 flags=self.flags, dtype=self.dtype, raw=self.raw, max_steps=self.max_steps, max_kind=self.max_kind,
                 light=self.light, dflt=self.dflt)
        d.update(over)
        return PassCfg(**d)

    def as_dict(self):
        return dict(mode=self.mode, num_starts=self.S, multistart=self.ms, select_best=self.sb, store_all_logp=self.sa,
                    temperature=self.temp, top_k=self.top_k, top_p=self.top_p, flag_kind=self.flags, dtype=self.dtype,
                    raw=None if self.raw is None else list(self.raw), max_steps=self.max_steps, max_kind=self.max_kind,
                    env_default_num_starts=self.dflt)


def cfg_from_dict(c):
    return PassCfg(c["mode"], c["num_starts"], c["multistart"], c["select_best"], c["store_all_logp"], c["temperature"], c["top_k"],
                   c["top_p"], c["flag_kind"], c["dtype"], raw=c.get("raw"), max_steps=c.get("max_steps"), max_kind=c.get("max_kind"),
                   dflt=c.get("env_default_num_starts", 0))


def make_stub_cls():
    import torch
    from rl4co.models.common.constructive.base import ConstructiveDecoder

    class StubDecoder(ConstructiveDecoder):
        """logits[r][j] = scale * zhash(seed[r mod B], actions of row r so far, j) * ln2 ; mask = td['action_mask']."""

        def __init__(self, seeds, scale, dtype, flag_kind, forced):
            super().__init__()
            self.seeds, self.scale, self.dtype, self.flag_kind, self.forced = seeds, scale, dtype, flag_kind, forced
            self.reset_state()

        def reset_state(self):
            self.prefix = None
            self.table = {}       # (b, prefix) -> (mask tuple, done)
            self.flagrows = None
            self.calls = 0
            self.inconsistent = []

        def flag(self, r, done_r):
            if self.flag_kind == 1:
                return not done_r
            return zacc(self.seeds[r % len(self.seeds)], self.prefix[r]) % 3 != 0

        def forward(self, td, hidden=None, num_starts=0):
            m = td["action_mask"]
            R, N = m.shape
            done = td["done"].reshape(R, -1).all(-1)
            B = len(self.seeds)
            if self.prefix is None:
                if self.forced:
                    self.prefix = [[int(a)] for a in td["action"]]
                else:
                    self.prefix = [[] for _ in range(R)]
                if self.flag_kind:
                    self.flagrows = [([self.seeds[r % B] % 2 == 0] if self.forced else []) for r in range(R)]
            else:
                act = td["action"]
                for r in range(R):
                    self.prefix[r].append(int(act[r]))
            rows = []
            for r in range(R):
                key = (r % B, tuple(self.prefix[r]))
                val = (tuple(bool(x) for x in m[r]), bool(done[r]))
                if key in self.table and self.table[key] != val:
                    self.inconsistent.append((key, self.table[key], val))
                self.table[key] = val
                rows.append([self.scale * zhash(self.seeds[r % B], self.prefix[r], j) * LN2 for j in range(N)])
                if self.flag_kind:
                    self.flagrows[r].append(self.flag(r, bool(done[r])))
            if self.flag_kind:
                td.set("mask", torch.tensor(self.flagrows, dtype=torch.bool))
            self.calls += 1
            return torch.tensor(rows, dtype=self.dtype), m

    return StubDecoder


def run_pass(env, td_in, seeds, cfg, actions=None, torch_seed=0, ret_sum=False, StubDecoder=None):
    """One forward pass of the real ConstructivePolicy with the stub decoder.  Returns (out dict of lists, stub)."""
    import torch
    from rl4co.models.common.constructive.base import ConstructivePolicy, NoEncoder
    T, tm, td_ = TEMPS[cfg.temp]
    dt = getattr(torch, cfg.dtype)
    stub = StubDecoder(seeds, td_, dt, cfg.flags, forced=(cfg.ms and cfg.S >= 1 and cfg.mode != "evaluate"))
    pol = ConstructivePolicy(NoEncoder(), stub, env_name=env.name, temperature=1.0, tanh_clipping=0, mask_logits=True)
    kw = dict(temperature=T, top_k=cfg.top_k, top_p=cfg.top_p)
    if cfg.mode != "evaluate":
        kw["decode_type"] = cfg.decode_type()
        kw["select_best"] = cfg.sb
        if cfg.raw is not None:
            rms, rmp, rns, rnsamp = cfg.raw
            kw.update(multistart=rms, multisample=rmp)
            if rns is not None:
                kw["num_starts"] = rns
            if rnsamp is not None:
                kw["num_samples"] = rnsamp
        elif cfg.S >= 1:
            kw["num_starts" if cfg.ms else "num_samples"] = cfg.S
    if cfg.max_steps is not None:
        kw["max_steps"] = cfg.max_steps
    torch.manual_seed(torch_seed)
    with torch.no_grad():
        out = dg.call("ConstructivePolicy.forward", pol, td_in.clone(), env, phase="test", return_actions=True, return_entropy=cfg.sa,
                      return_sum_log_likelihood=ret_sum, actions=actions, **kw)
    res = {"actions": [[int(a) for a in row] for row in out["actions"]],
           "reward": [float(x) for x in out["reward"].reshape(-1)],
           "reward_t": out["reward"].reshape(-1).clone()}
    if ret_sum:
        res["ll_sum"] = [float(x) for x in out["log_likelihood"].reshape(-1)]
    else:
        res["ll_steps"] = [[float(x) for x in row] for row in out["log_likelihood"]]
    if cfg.sa:
        res["entropy"] = [float(x) for x in out["entropy"].reshape(-1)]
    return res, stub


def raised_in_env(exc):
    """True when the innermost rl4co frame of the traceback is environment code (e.g. OP's check_solution_validity
    rejecting a forced start node: C12's finding), i.e. the decode loop is not what raised."""
    import traceback
    frames = [f for f in traceback.extract_tb(exc.__traceback__) if "rl4co" in f.filename]
    return bool(frames) and "/envs/" in frames[-1].filename


def rew_int(x):
    f = Fraction(float(x)) * RSCALE
    return f.numerator // f.denominator


def coq_inst(seed, scale, tab, rtab, ftab):
    return "mk_ti %s %s %s %s %s" % (
        cz(seed), cz(scale),
        clist("(%s, (%s, %s))" % (cnatlist(p), cboollist(m), cbool(d)) for p, (m, d) in tab),
        clist("(%s, %s)" % (cnatlist(p), cz(r)) for p, r in rtab),
        clist("(%s, %s)" % (cnatlist(p), cboollist(f)) for p, f in ftab))


def exp_fr(x):
    return Fraction(math.exp(x)) if x != -math.inf else Fraction(0)


# ----------------------------------------------------------------------------------------------- the check
def run(ctx: Ctx, proofs_ok: bool):
    import torch
    from rl4co.envs import get_env
    from rl4co.utils.ops import batchify

    t_start = time.time()
    rng = ctx.rng
    thorough = ctx.tier == "thorough"
    torch.set_num_threads(2)
    StubDecoder = make_stub_cls()

    ctx.rule = ("(a) stub decoder with logits zhash(seed, actions so far, j)*ln2 in the real ConstructivePolicy on real envs "
                "tsp/cvrp/op/pctsp/sdvrp/pdp (num_loc 4..6 quick, ..8 thorough), batches of 1..4 instances, decode types greedy / "
                "sampling / multistart_greedy / multistart_sampling (num_starts 2..3) / multisample (num_samples 2..3) / evaluate of "
                "each of them, select_best on/off, store_all_logp on/off, temperature 1, 1/2, 2, top_k 0/2/3, top_p 0 or 0.5/0.9 "
                "(cases whose nucleus threshold is within 1e-3 of a cumulative probability are dropped and counted), td['mask'] "
                "flags absent / not-done / hash bits, float32 and float64 logits; (b) real policies with random weights, per-step "
                "logits recorded by wrapping DecodingStrategy.step. non-trivial = a pass with >= 2 steps at which >= 2 actions were "
                "feasible; distinct by hash of (env, instance data, configuration, oracle).  Deterministic additions: the raw configuration grid "
                "select_best x multistart x num_starts in {0,1,2} x multisample on tsp-4/5 (B 1..3; the model resolves the raw arguments), and "
                "max_steps in {T-2, T-1, T} for the T decoder steps of the un-budgeted pass on tsp / cvrp / pctsp / multistart tsp; "
                "outdict['entropy'] is compared with the model's value on every store_all_logp pass")
    ctx.assumptions += [
        "PARTIAL: the network is modelled as a per-row function dec(hidden, state) -> (logits, mask), the same in both passes; "
        "determinism of a real network between the rollout and the evaluating pass (dropout, batch statistics) is NOT modelled",
        "mask_logits=True in the correspondence (mask_logits=False is in the model, not exercised)",
        "torch.multinomial's draws enter the model as the choice oracle; env.select_start_nodes as the input `starts` (C12)",
        "exact arithmetic: exp/log are abstract (lg/ex homomorphism hypotheses); the executable instance represents a "
        "log-likelihood by the product of step probabilities at weights 2^z; float rounding is kept out by the ln2 grid and "
        "tolerances (1e-5 float32 / 1e-9 float64 on probabilities, 1e-4 on real-policy log-likelihoods)",
        "top_p in the loop correspondence only with a 1e-3 margin between threshold and cumulative probabilities (C10's rule)",
        "entropy value: executable log = lnQ (62-bit fixed point, error < 2e-10 validated by Examples in Decoding/EntropyInst.v, not proved); "
        "tolerance 5e-5 (float32) / 1e-7 (float64) per row",
        "max_steps: the model's fuel is max_steps + 1 (the test `step > max_steps` follows the increment); without max_steps the cases use "
        "fuel 60 >= every episode of the stream, justified by C11_forward_fuel_independent (the code's default is 1_000_000)",
    ]
    ctx.trusted.append("vt/props/c11.py: stub decoder, tabulation of the real env along visited prefixes, spec_dist (exact independent "
                       "step distribution), wrapper around DecodingStrategy.step for real policies, resolve_cfg (python mirror of the "
                       "constructor's flag resolution, used only to drive the stub; the model resolves the raw arguments itself)")
    ctx.notes.append("policies with their own decoding loop are outside the model and not checked here: MDAMPolicy (MDAM decoder loop), "
                     "PointerNetworkPolicy, MultiStageFFSPPolicy, DeepACOPolicy in val/test phase (ant system), L2DPolicy4PPO.act/evaluate "
                     "(stepwise PPO), improvement policies (N2S, DACT, NeuOpt); beam_search is C13's unit")

    fails = []          # (signature, replay)
    cases, meta = [], []
    n_dropped_margin = 0

    env_cache = {}

    def get(name, gp):
        key = (name, tuple(sorted(gp.items())))
        if key not in env_cache:
            env_cache[key] = get_env(name, generator_params=dict(gp))
        return env_cache[key]

    # ------------------------------------------------------------------ helpers working on one recorded scenario
    def spec_rows(stub_table, seeds, scale, B, acts_rows, cfg, forced, flags_rows):
        """exact per-step probabilities / vectors of the returned actions, re-running nothing: table lookups only."""
        _, tm, td_ = TEMPS[cfg.temp]
        out = []
        for r, acts in enumerate(acts_rows):
            b = r % B
            ps, vecs, min_margin = [], [], None
            start = 1 if forced else 0
            if forced:
                ps.append(Fraction(1))
                vecs.append(None)
            for t in range(start, len(acts)):
                pre = tuple(acts[:t])
                if (b, pre) not in stub_table:
                    ps.append(None)
                    vecs.append(None)
                    continue
                mask, _ = stub_table[(b, pre)]
                zs = [scale * zhash(seeds[b], pre, j) for j in range(len(mask))]
                d = spec_dist(zs, mask, tm, td_, cfg.top_k)
                vecs.append(d)
                ps.append(d[acts[t]] if d is not None and acts[t] < len(d) else None)
            if flags_rows is not None:
                fl = flags_rows[r]
                ps = [(p if f else Fraction(1)) for p, f in zip(ps, fl)] if len(fl) == len(ps) else None
            out.append((ps, vecs))
        return out

    def margin_ok(stub_table, seeds, scale, cfg):
        if not (0.0 < cfg.top_p < 1.0):
            return True
        _, tm, td_ = TEMPS[cfg.temp]
        thr = 1 - Fraction(cfg.top_p)
        for (b, pre), (mask, _) in stub_table.items():
            zs = [scale * zhash(seeds[b], pre, j) for j in range(len(mask))]
            for c in spec_cums(zs, mask, tm, td_, cfg.top_k) + [Fraction(0)]:
                if abs(c - thr) < MARGIN:
                    return False
        return True

    def scenario_replay(name, gp, data_obj, B, seeds, cfg, what, extra=None):
        rep = {"unit": "decode-loop/stub", "env": name, "generator_params": gp, "batch_size": B, "instance": data_obj,
               "seeds": seeds, "config": cfg.as_dict(), "what": what}
        if extra:
            rep.update(extra)
        return rep

    def add_case(name, gp, B, seeds, cfg, table, rtab_rows, flags_rows_all, all_acts, starts, ors, obs, insts_rep, tag,
                 ents=None, raised=False):
        """insts_rep: number of times the B instances are listed explicitly (evaluate on a batchified td).
        ents: outdict["entropy"] of the returned rows (store_all_logp passes); raised: the constructor's assertion fired."""
        _, tm, td_ = TEMPS[cfg.temp]
        scale = td_
        insts = []
        for b in range(B):
            tab = [(list(p), (list(m), d)) for (bb, p), (m, d) in table.items() if bb == b]
            rt, ft, seen_r = [], [], set()
            for r, acts in enumerate(all_acts):
                if r % B != b or tuple(acts) in seen_r:
                    continue
                seen_r.add(tuple(acts))
                rt.append((acts, rew_int(rtab_rows[r])))
                if flags_rows_all is not None:
                    ft.append((acts, flags_rows_all[r]))
            insts.append(coq_inst(seeds[b], scale, tab, rt, ft))
        mode_n = {"greedy": 0, "sampling": 1, "evaluate": 2}[cfg.mode]
        tol = Fraction(1, 100000) if cfg.dtype == "float32" else Fraction(1, 10 ** 9)
        rtol = Fraction(3, 100000) if cfg.dtype == "float32" else Fraction(1, 10 ** 8)
        obs_s = clist("(%s, %s, %s, %s)" % (cnatlist(a), clist(cq(p) for p in ps), cq(ll), cz(rw)) for a, ps, ll, rw in obs)
        rms, rmp, rns, rnsamp = cfg.raw_tuple()
        opt = lambda v: "None" if v is None else "(Some %s)" % cz(v)
        # fuel = max_steps + 1 when the pass was given a budget; otherwise any fuel >= the episode length gives the same rows
        # (C11_forward_fuel_independent; the code's default max_steps is 1_000_000)
        fuel = 60 if cfg.max_steps is None else cfg.max_steps + 1
        etol = Fraction(5, 100000) if cfg.dtype == "float32" else Fraction(1, 10 ** 7)
        case = "mk11 %s %s %s %s %s %s %s %s %s %s %s %s %s %s %s %s %s %s %s %s %s %s" % (
            cnat(mode_n), cbool(cfg.sa), cbool(rms), cbool(rmp), opt(rns), opt(rnsamp), cz(cfg.dflt),
            cbool(cfg.sb and cfg.mode != "evaluate"), cnat(fuel),
            cz(tm), cz(td_), cnat(cfg.top_k), cq(Fraction(cfg.top_p)),
            clist(insts * insts_rep), cnatlist(starts), clist(cnatlist(o) for o in ors), obs_s, cq(tol), cq(rtol),
            clist(cq(Fraction(x)) for x in (ents or [])), cq(etol), cbool(raised))
        cases.append(case)
        if ents:
            ctx.count("stub_cases_with_entropy_value")
            ctx.count("stub_entropy_rows_compared_with_the_model", len(ents))
        meta.append({"env": name, "generator_params": gp, "B": B, "seeds": seeds, "config": cfg.as_dict(), "tag": tag,
                     "returned_actions": [o[0] for o in obs]})

    # ------------------------------------------------------------------ (a) the stub stream
    def scenario(name, gp, B, cfg, idx):
        nonlocal n_dropped_margin
        env = get(name, gp)
        gen = torch.Generator().manual_seed(rng.randrange(2 ** 31))
        torch.manual_seed(rng.randrange(2 ** 31))
        data = env.generator(batch_size=[B])
        td0 = env.reset(data.clone())
        data_obj = td_to_obj(data)
        seeds = [rng.randrange(1009) for _ in range(B)]
        tseed = rng.randrange(2 ** 31)
        _, tm, td_ = TEMPS[cfg.temp]
        scale = td_
        cfg.dflt = int(env.get_num_starts(td0))
        if cfg.raw is not None:      # grid stream: the raw arguments are resolved here (and again by the model)
            eff = resolve_cfg(*cfg.raw, cfg.dflt)
            ctx.count("grid_passes")
            if eff is None:
                cfgx = cfg.clone()
                try:
                    run_pass(env, td0, seeds, cfgx, torch_seed=tseed, StubDecoder=StubDecoder)
                    raised = False
                except dg.DecodeTimeout as exc:
                    fails.append((dg.signature(exc.fn_name), scenario_replay(name, gp, data_obj, B, seeds, cfgx, str(exc))))
                    return
                except AssertionError:
                    raised = True
                ctx.count("grid_passes_constructor_asserts")
                add_case(name, gp, B, seeds, cfgx, {}, [], None, [], [], [], [], 1, "grid-constructor", raised=raised)
                if not raised:
                    fails.append(("forward/grid: multistart and multisample together are accepted",
                                  scenario_replay(name, gp, data_obj, B, seeds, cfgx, "DecodingStrategy.__init__ asserts not (multistart and multisample)")))
                ctx.seen({"env": name, "gp": gp, "data": data_obj, "cfg": cfgx.as_dict()}, nontrivial=False)
                return
            cfg.ms, cfg.S = bool(eff[0]), int(eff[1])
            if cfg.S > 6:
                return
        forced = cfg.ms and cfg.S >= 1
        # 1. the pass without select_best: every rollout is returned
        cfg0 = cfg.clone(sb=False)
        ref = None
        if cfg.max_kind is not None:
            # the same pass without a budget: T = its number of decoder steps; its table (every prefix with the real mask / done)
            # and its actions (the oracle) are what the model is given, so that a truncated pass is compared with what the MODEL
            # returns for fuel = max_steps + 1, not with itself
            if cfg.max_kind == "short":
                from rl4co.envs import get_env as _ge
                env = _ge(name, generator_params=dict(gp), check_solution=False)
                td0 = env.reset(data.clone())
            try:
                resR, stubR = run_pass(env, td0, seeds, cfg0.clone(max_steps=None), torch_seed=tseed, StubDecoder=StubDecoder)
            except Exception:
                return
            T_iter = stubR.calls
            ms_val = {"exact": T_iter - 1, "plus1": T_iter, "short": T_iter - 2}[cfg.max_kind]
            if ms_val < 0 or (cfg.max_kind == "short" and T_iter < 2):
                return
            cfg.max_steps = cfg0.max_steps = ms_val
            ref = dict(stubR.table)
            for r, acts in enumerate(resR["actions"]):
                ref.setdefault((r % B, tuple(acts)), ((), True))
            ctx.count("max_steps_passes_" + cfg.max_kind)
        try:
            res, stub = run_pass(env, td0, seeds, cfg0, torch_seed=tseed, StubDecoder=StubDecoder)
            res_sum, _ = run_pass(env, td0, seeds, cfg0, torch_seed=tseed, ret_sum=True, StubDecoder=StubDecoder)
        except Exception as exc:     # the code raised on a well-formed call
            if isinstance(exc, dg.DecodeTimeout):
                fails.append((dg.signature(exc.fn_name), scenario_replay(name, gp, data_obj, B, seeds, cfg0, str(exc))))
                return
            if raised_in_env(exc):       # the environment rejected the episode (forced start nodes: C12), not the decode loop
                ctx.count("stub_passes_rejected_by_the_environment_itself")
                if not any("rejected by the environment" in n for n in ctx.notes):
                    ctx.notes.append("some passes were rejected by the environment's own checks (e.g. %s on %s with forced start nodes: "
                                     "'%s'); that is env / start-node behaviour (C12), such passes are skipped here" % (type(exc).__name__, name, str(exc)[:80]))
                return
            fails.append(("forward/%s: raises" % cfg0.decode_type(),
                          scenario_replay(name, gp, data_obj, B, seeds, cfg0, "%s: %s" % (type(exc).__name__, str(exc)[:300]))))
            return
        if stub.inconsistent:
            ctx.count("env_not_a_function_of_instance_and_prefix", len(stub.inconsistent))
        if not margin_ok(stub.table, seeds, scale, cfg):
            n_dropped_margin += 1
            return
        R = len(res["actions"])
        all_acts = res["actions"]
        table = dict(stub.table)
        if ref is not None:
            table.update(ref)                    # the un-budgeted pass: real mask / done of every prefix, also beyond a truncation
        else:
            for r, acts in enumerate(all_acts):  # the loop stopped: every row is done at its final prefix
                table.setdefault((r % B, tuple(acts)), ((), True))
        flags_rows = stub.flagrows if cfg.flags else None
        starts = [a[0] for a in all_acts] if forced else []
        oracle_acts = resR["actions"] if ref is not None and len(resR["actions"]) == R else all_acts
        ors = [(a[1:] if forced else a) for a in oracle_acts] if cfg.mode == "sampling" else [[] for _ in range(R)]
        steps_choice = sum(1 for (b, p), (m, d) in stub.table.items() if sum(m) >= 2)
        nontrivial = steps_choice >= 2 and len(all_acts[0]) >= 2
        ctx.seen({"env": name, "gp": gp, "data": data_obj, "cfg": cfg.as_dict(), "seeds": seeds, "or": ors}, nontrivial=nontrivial)
        ctx.count("stub_passes")
        ctx.count("stub_env_" + name)
        ctx.count("stub_decode_" + cfg0.decode_type() + ("" if cfg.ms or cfg.S == 0 else "_multisample"))
        ctx.count("stub_B%d" % B)
        ctx.count("stub_rows_total", R)
        lens = [next((t for t in range(len(a) + 1) if table.get((r % B, tuple(a[:t])), ((), False))[1]), len(a)) for r, a in enumerate(all_acts)]
        if len(set(lens)) > 1:
            ctx.count("stub_passes_rows_finish_at_different_steps")
        ctx.count("stub_padding_steps", sum(len(a) - l for a, l in zip(all_acts, lens)))
        if cfg.flags:
            ctx.count("stub_passes_with_mask_key_kind%d" % cfg.flags)
        if cfg.sa:
            ctx.count("stub_passes_store_all_logp")
        if cfg.top_k:
            ctx.count("stub_passes_top_k")
        if 0 < cfg.top_p < 1:
            ctx.count("stub_passes_top_p")
        obs = [(all_acts[r], [exp_fr(x) for x in res["ll_steps"][r]], exp_fr(res_sum["ll_sum"][r]), rew_int(res["reward"][r]))
               for r in range(R)]
        add_case(name, gp, B, seeds, cfg0, table, res["reward"], flags_rows, all_acts, starts, ors, obs, 1,
                 "rollout" if cfg.max_kind is None else "max_steps-" + cfg.max_kind, ents=res.get("entropy"))
        if cfg.max_kind is not None:
            # the budget is at least the episode (max_steps + 1 >= T): the pass must return what the un-budgeted pass returned
            if cfg.max_kind in ("exact", "plus1") and all_acts != resR["actions"]:
                fails.append(("forward/max_steps: rollout truncated although max_steps + 1 decoding steps complete the episode",
                              scenario_replay(name, gp, data_obj, B, seeds, cfg0,
                                              "the pass needs %d decoder steps; with max_steps=%d (the loop runs until step > max_steps, i.e. up to "
                                              "%d steps) it returned %s instead of %s" % (T_iter, cfg.max_steps, cfg.max_steps + 1, all_acts, resR["actions"]),
                                              {"returned_actions": all_acts, "expected_actions": resR["actions"]})))
            if cfg.max_kind == "short":
                ctx.count("max_steps_short_rows_truncated", sum(1 for a, f in zip(all_acts, resR["actions"]) if len(a) < len(f)))
        if idx < 4:
            ctx.sample({"stream": "stub", "env": name, "generator_params": gp, "B": B, "seeds": seeds, "config": cfg0.as_dict(),
                        "returned_actions": all_acts, "returned_ll_steps": [[round(x, 6) for x in row] for row in res["ll_steps"]],
                        "returned_ll_sum": [round(x, 6) for x in res_sum["ll_sum"]], "reward": [round(x, 5) for x in res["reward"]]})

        # spec-on-impl: LL = sum of exact step log-probs ; entropy = sum of step entropies
        tolf = 2e-5 if cfg.dtype == "float32" else 1e-9
        if not (0 < cfg.top_p < 1):
            sr = spec_rows(stub.table, seeds, scale, B, all_acts, cfg, forced, flags_rows)
            for r in range(R):
                ps, vecs = sr[r]
                if ps is None or any(p is None for p in ps):
                    continue
                if any(p == 0 for p in ps):
                    fails.append(("forward/%s: returned action has probability zero" % cfg0.decode_type(),
                                  scenario_replay(name, gp, data_obj, B, seeds, cfg0, "row %d actions %s" % (r, all_acts[r]))))
                    continue
                exp_steps = [math.log(p) for p in ps]
                got = res["ll_steps"][r]
                if len(got) != len(exp_steps) or max(abs(a - b_) for a, b_ in zip(got, exp_steps)) > tolf \
                        or abs(res_sum["ll_sum"][r] - sum(exp_steps)) > tolf * max(1, len(ps)):
                    fails.append(("forward/%s: log_likelihood != sum of step log-probs of the returned actions" % cfg0.decode_type(),
                                  scenario_replay(name, gp, data_obj, B, seeds, cfg0, "row %d" % r,
                                                  {"row": r, "returned_actions": all_acts[r], "expected_ll_steps": exp_steps,
                                                   "observed_ll_steps": got, "expected_ll_sum": sum(exp_steps),
                                                   "observed_ll_sum": res_sum["ll_sum"][r]})))
                if cfg.sa:
                    H = 0.0
                    for d in vecs:
                        if d is not None:
                            H -= sum(float(p) * math.log(p) for p in d if p > 0)
                    if abs(res["entropy"][r] - H) > 1e-4:
                        fails.append(("forward/%s: entropy != sum of step entropies" % cfg0.decode_type(),
                                      scenario_replay(name, gp, data_obj, B, seeds, cfg0, "row %d" % r,
                                                      {"row": r, "returned_actions": all_acts[r], "expected_entropy": H,
                                                       "observed_entropy": res["entropy"][r]})))
                ctx.count("spec_on_impl_rows")

        # 2. the same pass with select_best (same draws): the model picks from the recorded rewards
        if cfg.sb:                   # also without replicas (num_starts = 0): `if self.num_starts > 0 and self.select_best`
            cfg1 = cfg.clone(sb=True)
            try:
                res1, stub1 = run_pass(env, td0, seeds, cfg1, torch_seed=tseed, StubDecoder=StubDecoder)
                res1s, _ = run_pass(env, td0, seeds, cfg1, torch_seed=tseed, ret_sum=True, StubDecoder=StubDecoder)
            except Exception as exc:
                fails.append((dg.signature(exc.fn_name) if isinstance(exc, dg.DecodeTimeout) else
                              "forward/%s+select_best%s: raises" % (cfg1.decode_type(), "" if cfg.S >= 1 else "/no-replicas"),
                              scenario_replay(name, gp, data_obj, B, seeds, cfg1, "%s: %s" % (type(exc).__name__, str(exc)[:300]))))
                return
            if cfg.S == 0:
                ctx.count("stub_passes_select_best_without_replicas")
            obs1 = []
            for b in range(len(res1["actions"])):
                a = res1["actions"][b]
                cand = [r for r in range(R) if r % B == b and all_acts[r] == a]
                rw = rew_int(res["reward"][cand[0]]) if cand and abs(res["reward"][cand[0]] - res1["reward"][b]) <= 1e-6 * max(1.0, abs(res1["reward"][b])) \
                    else rew_int(res1["reward"][b])
                obs1.append((a, [exp_fr(x) for x in res1["ll_steps"][b]], exp_fr(res1s["ll_sum"][b]), rw))
                # spec-on-impl for select_best: the returned row is one of the instance's rollouts with the best reward
                best = max(res["reward"][r] for r in range(R) if r % B == b)
                if not cand or abs(res1["reward"][b] - best) > 1e-6 * max(1.0, abs(best)) or \
                        max(abs(x - y) for x, y in zip(res1["ll_steps"][b], res["ll_steps"][cand[0]])) > tolf:
                    fails.append(("select_best: returned row is not the instance's best rollout with its own actions and log-probs",
                                  scenario_replay(name, gp, data_obj, B, seeds, cfg1, "instance %d" % b,
                                                  {"all_rollout_actions": all_acts, "all_rewards": res["reward"],
                                                   "returned_actions": a, "returned_reward": res1["reward"][b]})))
            add_case(name, gp, B, seeds, cfg1, table, res["reward"], flags_rows, all_acts, starts, ors, obs1, 1, "select_best",
                     ents=res1.get("entropy"))
            ctx.count("stub_passes_select_best")
            ctx.evaluations += 1

        if cfg.light or cfg.max_kind == "short":      # grid corners: the pass itself; a truncated rollout cannot be re-evaluated
            return
        # 3. evaluate the returned actions (policy(td, env, actions=...)) on the same batch
        S_eff = cfg.S if cfg.S >= 1 else 0
        td_eval = batchify(td0, S_eff) if S_eff else td0
        cfgE = PassCfg("evaluate", 0, False, False, True, cfg.temp, cfg.top_k, cfg.top_p, cfg.flags, cfg.dtype, dflt=cfg.dflt)
        acts_t = torch.tensor(all_acts, dtype=torch.int64)
        try:
            resE, stubE = run_pass(env, td_eval, seeds, cfgE, actions=acts_t, StubDecoder=StubDecoder)
            resEs, _ = run_pass(env, td_eval, seeds, cfgE, actions=acts_t, ret_sum=True, StubDecoder=StubDecoder)
        except Exception as exc:
            if isinstance(exc, dg.DecodeTimeout):
                fails.append((dg.signature(exc.fn_name), scenario_replay(name, gp, data_obj, B, seeds, cfg0, str(exc), {"returned_actions": all_acts})))
                return
            if forced and isinstance(exc, AssertionError) and "Logprobs should not be -inf" in str(exc) and (cfg.top_k > 0 or 0 < cfg.top_p < 1):
                # the same mechanism as SIG_MS_EVAL: the forced start is scored as an ordinary step, and here it lies outside the
                # top-k support, so its log-prob is -inf and get_log_likelihood's assertion fires
                fails.append((SIG_MS_EVAL, scenario_replay(
                    name, gp, data_obj, B, seeds, cfg0,
                    "policy(batchify(td, %d), env, actions=<actions of the multistart pass>) raises '%s': the forced first move is scored as an "
                    "ordinary step and lies outside the top-k / top-p support (top_k=%d, top_p=%r)" % (cfg.S, str(exc)[:80], cfg.top_k, cfg.top_p), {"returned_actions": all_acts})))
                ctx.count("multistart_evaluate_raises_forced_move_outside_filter_support")
                return
            fails.append(("evaluate: raises on the actions a pass returned",
                          scenario_replay(name, gp, data_obj, B, seeds, cfg0, "%s: %s" % (type(exc).__name__, str(exc)[:300]),
                                          {"returned_actions": all_acts})))
            return
        ctx.evaluations += 1
        tableE = dict(stubE.table)
        for r, acts in enumerate(resE["actions"]):
            tableE.setdefault((r % B, tuple(acts)), ((), True))
        flagsE = stubE.flagrows if cfg.flags else None
        obsE = [(resE["actions"][r], [exp_fr(x) for x in resE["ll_steps"][r]], exp_fr(resEs["ll_sum"][r]), rew_int(resE["reward"][r]))
                for r in range(R)]
        add_case(name, gp, B, seeds, cfgE, tableE, resE["reward"], flagsE, resE["actions"], [], all_acts, obsE,
                 S_eff if S_eff else 1, "evaluate", ents=resE.get("entropy"))
        ctx.count("stub_evaluate_passes")
        # the round-trip property on the implementation
        for r in range(R):
            same_actions = resE["actions"][r] == all_acts[r]
            d_steps = max((abs(x - y) for x, y in zip(resE["ll_steps"][r], res["ll_steps"][r])), default=0.0) \
                if len(resE["ll_steps"][r]) == len(res["ll_steps"][r]) else math.inf
            d_rew = abs(resE["reward"][r] - res["reward"][r])
            if forced:
                # known candidate: the forced move (log-prob 0 in the rollout) is scored by evaluate
                d_tail = max((abs(x - y) for x, y in zip(resE["ll_steps"][r][1:], res["ll_steps"][r][1:])), default=0.0)
                if same_actions and d_tail <= tolf and d_rew <= 1e-6 and abs(resE["ll_steps"][r][0] - res["ll_steps"][r][0]) > 1e-3 \
                        and not (cfg.flags and flags_rows is not None and not flags_rows[r][0]):
                    fails.append((SIG_MS_EVAL, scenario_replay(
                        name, gp, data_obj, B, seeds, cfg0,
                        "policy(batchify(td, %d), env, actions=<actions of the multistart pass>) returns the same actions and reward, the same "
                        "per-step log-probs from step 1 on, but log-prob %.6f instead of 0 for the forced first move of row %d: "
                        "log_likelihood %.6f (rollout) vs %.6f (evaluate)" % (cfg.S, resE["ll_steps"][r][0], r, res_sum["ll_sum"][r], resEs["ll_sum"][r]),
                        {"row": r, "returned_actions": all_acts[r], "rollout_ll_steps": res["ll_steps"][r], "evaluate_ll_steps": resE["ll_steps"][r],
                         "rollout_ll_sum": res_sum["ll_sum"][r], "evaluate_ll_sum": resEs["ll_sum"][r]})))
                    continue
                if same_actions and d_tail <= tolf and d_rew <= 1e-6:
                    continue
            if not same_actions or d_steps > tolf or d_rew > 1e-6 * max(1.0, abs(res["reward"][r])) or \
                    abs(resEs["ll_sum"][r] - res_sum["ll_sum"][r]) > tolf * max(1, len(all_acts[r])) or \
                    (cfg.sa and abs(resE["entropy"][r] - res["entropy"][r]) > 1e-5):
                fails.append(("evaluate: round trip differs after %s" % cfg0.decode_type(),
                              scenario_replay(name, gp, data_obj, B, seeds, cfg0, "row %d" % r,
                                              {"row": r, "returned_actions": all_acts[r], "evaluate_actions": resE["actions"][r],
                                               "rollout_ll_steps": res["ll_steps"][r], "evaluate_ll_steps": resE["ll_steps"][r],
                                               "rollout_reward": res["reward"][r], "evaluate_reward": resE["reward"][r],
                                               "rollout_entropy": res.get("entropy", [None] * R)[r], "evaluate_entropy": resE["entropy"][r]})))
            ctx.count("roundtrip_rows_checked")
        # PPO mini-batches: a sub-batch may stop earlier than the batch of the rollout (fewer padding steps); the summed LL, which is
        # what the ratio uses, must still be that of the rollout (padding steps have log-prob 0 in these envs)
        if not forced and R >= 2 and len(set(lens)) > 1:
            r0 = min(range(R), key=lambda r: lens[r])
            try:
                sub = td_eval[r0:r0 + 1]
                stubS = StubDecoder([seeds[r0 % B]], td_, getattr(torch, cfg.dtype), cfg.flags, forced=False)
                from rl4co.models.common.constructive.base import ConstructivePolicy, NoEncoder
                polS = ConstructivePolicy(NoEncoder(), stubS, env_name=env.name)
                T_s = TEMPS[cfg.temp][0]
                with torch.no_grad():
                    outS = dg.call("ConstructivePolicy.forward", polS, sub.clone(), env, phase="test", actions=acts_t[r0:r0 + 1],
                                   return_sum_log_likelihood=False, temperature=T_s, top_k=cfg.top_k, top_p=cfg.top_p)
                llS = float(outS["log_likelihood"].sum())
                ctx.count("sub_batch_evaluations")
                ctx.count("sub_batch_evaluations_that_stop_earlier", int(outS["actions"].shape[1] < len(all_acts[r0])))
                if (abs(llS - res_sum["ll_sum"][r0]) > tolf * max(1, len(all_acts[r0])) or
                                       abs(float(outS["reward"][0]) - res["reward"][r0]) > 1e-6 * max(1.0, abs(res["reward"][r0]))):
                    fails.append(("evaluate/sub-batch: summed log-likelihood or reward of a row differs when it is evaluated without its batch-mates",
                                  scenario_replay(name, gp, data_obj, B, seeds, cfg0, "row %d alone: ll %.6f vs %.6f in the rollout" % (r0, llS, res_sum["ll_sum"][r0]),
                                                  {"row": r0, "returned_actions": all_acts[r0]})))
            except Exception as exc:
                if not raised_in_env(exc):
                    fails.append(("evaluate/sub-batch: raises", scenario_replay(name, gp, data_obj, B, seeds, cfg0, "%s: %s" % (type(exc).__name__, str(exc)[:200]))))
        # PPO ratio at the first inner step
        for r in range(R):
            if not forced:
                ratio = math.exp(sum(resE["ll_steps"][r]) - res_sum["ll_sum"][r])
                if abs(ratio - 1.0) > 1e-4:
                    fails.append(("ppo: probability ratio of unchanged policy is not one",
                                  scenario_replay(name, gp, data_obj, B, seeds, cfg0, "row %d ratio %r" % (r, ratio))))
        # multistart evaluated the way that aligns: Evaluate(multistart=True) on the tail of the actions
        if forced:
            try:
                torch.manual_seed(tseed)
                from rl4co.models.common.constructive.base import ConstructivePolicy, NoEncoder
                T_, tm_, td2 = TEMPS[cfg.temp]
                stubT = StubDecoder(seeds, td2, getattr(torch, cfg.dtype), 0, forced=True)
                polT = ConstructivePolicy(NoEncoder(), stubT, env_name=env.name)
                with torch.no_grad():
                    outT = dg.call("ConstructivePolicy.forward", polT, td0.clone(), env, phase="test", actions=acts_t[:, 1:], multistart=True,
                                   num_starts=cfg.S, return_sum_log_likelihood=False, temperature=T_, top_k=cfg.top_k, top_p=cfg.top_p)
                okT = [[int(a) for a in row] for row in outT["actions"]] == all_acts
                if cfg.flags == 0:
                    dT = float((outT["log_likelihood"] - torch.tensor(res["ll_steps"], dtype=outT["log_likelihood"].dtype)).abs().max())
                    if not okT or dT > tolf:
                        fails.append(("evaluate/multistart-tail: round trip differs", scenario_replay(name, gp, data_obj, B, seeds, cfg0, "max diff %r" % dT)))
                    ctx.count("multistart_tail_roundtrips")
            except Exception as exc:
                ctx.count("multistart_tail_roundtrip_raises")
                ctx.notes.append("multistart tail evaluation raised on %s: %s" % (name, str(exc)[:200])) if len(ctx.notes) < 8 else None

    n_scen = 600 if thorough else 64
    kinds = []
    for i in range(n_scen):
        mode = rng.choice(["greedy", "sampling", "sampling"])
        variant = rng.choice(["plain", "plain", "multistart", "multistart", "multisample"])
        if variant == "multisample":
            mode = "sampling"
        S = 0 if variant == "plain" else rng.choice([2, 2, 3])
        ms = variant == "multistart"
        sb = S >= 1 and rng.random() < 0.5
        sa = rng.random() < 0.4
        temp = rng.choice(["1", "1", "1/2", "2"])
        top_k = rng.choice([0, 0, 0, 2, 3])
        top_p = rng.choice([0.0, 0.0, 0.0, 0.0, 0.5, 0.9])
        flags = rng.choice([0, 0, 1, 2])
        dtype = rng.choice(["float32", "float64"])
        kinds.append(PassCfg(mode, S, ms, sb, sa, temp, top_k, top_p, flags, dtype))
    names = list(ENVS)
    # deterministic streams first (they are not cut by the time budget):
    # (1) the configuration grid select_best x multistart x num_starts in {0, 1, 2} x multisample, handed over RAW
    det = []
    gi = 0
    for sb_ in (False, True):
        for rms in (False, True):
            for rns in (0, 1, 2):
                for rmp in (False, True):
                    for rep_ in range(2 if thorough else 1):
                        det.append(("tsp", dict(num_loc=4 + gi % 2), 1 + (gi + rep_) % 3,
                                    PassCfg("greedy" if (gi + rep_) % 2 == 0 else "sampling", 0, False, sb_, sa=(gi % 3 == 0),
                                            dtype="float64" if gi % 4 < 2 else "float32", raw=(rms, rmp, rns, None), light=True)))
                    gi += 1
    # (2) max_steps at the boundary: the budget is exactly the episode (max_steps = T - 1), one more, one less
    for envn, gp_, S_, ms_ in (("tsp", dict(num_loc=5), 0, False), ("cvrp", dict(num_loc=4), 0, False), ("pctsp", dict(num_loc=4), 0, False),
                               ("tsp", dict(num_loc=4), 2, True)) + ((("sdvrp", dict(num_loc=4), 2, False), ("op", dict(num_loc=5), 0, False)) if thorough else ()):
        for kind_ in ("exact", "plus1", "short"):
            det.append((envn, gp_, 2, PassCfg("sampling" if (S_ and not ms_) or gi % 2 else "greedy", S_, ms_, False,
                                              sa=(gi % 2 == 1), dtype="float64" if gi % 3 else "float32", max_kind=kind_)))
            gi += 1
    stream = det + [(None, None, None, c) for c in kinds]
    for i, (name, gp, B, cfg) in enumerate(stream):
        if name is None:
            j = i - len(det)
            name = names[j % len(names)]
            pool = ENVS[name] + (ENVS_THOROUGH[name] if thorough else [])
            gp = rng.choice(pool)
            B = rng.choice([1, 2, 2, 3, 3, 4]) if cfg.S == 0 else rng.choice([1, 2, 2, 3])
        try:
            scenario(name, gp, B, cfg, i - len(det) if i >= len(det) else 100 + i)
        except Exception as exc:  # harness-level problem: fail closed
            import traceback
            ctx.broken.append("correspondence C11/decode-loop: harness error on %s %s: %s" % (name, cfg.as_dict(), traceback.format_exc()[-600:]))
            break
        if i >= len(det) and time.time() - t_start > (700 if thorough else 75):
            ctx.notes.append("stub stream cut after %d scenarios (time budget)" % (i + 1))
            break
    ctx.count("stub_cases_dropped_top_p_threshold_within_margin", n_dropped_margin)

    # ------------------------------------------------------------------ Coq evaluation of the model on the recorded cases
    t_coq = time.time()
    codes = None
    if cases:
        try:
            codes = coq_eval_shards("cases_C11_loop", HEADER, "c11_case", "check_c11", cases, shard=max(4, len(cases) // 16 + 1), timeout=600)
        except RuntimeError as e:
            ctx.broken.append("correspondence C11/decode-loop could not be evaluated: %s" % str(e)[-600:])
    if codes is not None:
        hist = {}
        for c in codes:
            hist[c] = hist.get(c, 0) + 1
        bad = [(i, c) for i, c in enumerate(codes) if c != 0]
        ctx.units["decode-loop (forward, strategies, select_best, get_log_likelihood) vs Decoding/DecodeLoop.v"] = {
            "cases": len(codes), "agree": hist.get(0, 0), "disagreements": len(bad),
            "codes": {str(k): v for k, v in sorted(hist.items())}, "coq_wall_s": round(time.time() - t_coq, 1)}
        names_ = {1: "model: post_decoder_hook raises", 2: "number of returned rows", 8: "model: a step raises", 9: "model: get_log_likelihood assertion fails",
                  3: "returned actions differ", 4: "a per-step probability differs", 5: "exp(summed LL) differs", 6: "reward of the returned row differs",
                  7: "entropy differs from the model's value (or: model says the constructor raises)", 10: "the code raised, the model returns"}
        if bad:
            i, c = bad[0]
            ctx.broken.append("correspondence C11/decode-loop: model and implementation differ on %d of %d passes (first: case %d, code %d = row %d, %s) %s"
                              % (len(bad), len(codes), i, c, c // 1000, names_.get(c % 1000 if c >= 1000 else c, "?"), meta[i]))
            ctx.extra["disagreeing_cases"] = [dict(meta[i], code=c) for i, c in bad[:10]]

    # ------------------------------------------------------------------ (b) real policies on the common loop
    real_policies(ctx, rng, thorough, fails, t_start)

    # ------------------------------------------------------------------ search when a proof or the correspondence broke
    if (ctx.broken or not proofs_ok) and not [s for s, _ in fails if s != SIG_MS_EVAL and "network draws random numbers" not in s]:
        # the property's executable specification (spec-on-impl above) on a larger fresh sample, around the configurations that
        # disagreed first
        extra_cfgs = []
        for mrow in ctx.extra.get("disagreeing_cases", []):
            c = mrow["config"]
            for _ in range(6):
                extra_cfgs.append((mrow["env"], mrow["generator_params"], mrow["B"],
                                   cfg_from_dict(dict(c, mode=c["mode"] if c["mode"] != "evaluate" else "sampling", max_steps=None))))
        for i in range(120):
            cfg = rng.choice(kinds)
            name = rng.choice(names)
            extra_cfgs.append((name, rng.choice(ENVS[name]), rng.choice([1, 2, 3]), cfg))
        t_search = time.time()
        for i, (name, gp, B, cfg) in enumerate(extra_cfgs):
            try:
                scenario(name, gp, B, cfg, 1000 + i)
            except Exception:
                break
            ctx.count("search_scenarios")
            if time.time() - t_search > 240:
                break

    # ------------------------------------------------------------------ decision
    ctx.extra["spec_on_impl_failures"] = len(fails)
    ctx.extra["decode_guard"] = dg.evidence()
    by_sig = {}
    for sig, rep in fails:
        size = len(str(rep.get("instance", ""))) + 1000 * rep.get("batch_size", 1) + (0 if "rollout_ll_steps" in rep or "expected_ll_steps" in rep else 10 ** 6)
        if sig not in by_sig or size < by_sig[sig][0]:
            by_sig[sig] = (size, rep)
    ctx.extra["spec_on_impl_signatures"] = sorted(by_sig)
    for sig, (_, rep) in sorted(by_sig.items()):
        ctx.failure(sig, rep, tag=sig.split(":")[0].replace(" ", "_").replace("/", "_"))



# ----------------------------------------------------------------------------------------------- real policies (registry)
def _am(env_name):
    from rl4co.models.zoo.am.policy import AttentionModelPolicy
    return AttentionModelPolicy(env_name=env_name, embed_dim=32, num_encoder_layers=1, num_heads=2)


def _ham(env_name):
    from rl4co.models.zoo.ham.policy import HeterogeneousAttentionModelPolicy
    return HeterogeneousAttentionModelPolicy(env_name=env_name, embed_dim=32, num_encoder_layers=1, num_heads=2)


def _symnco(env_name):
    from rl4co.models.zoo.symnco.policy import SymNCOPolicy
    return SymNCOPolicy(env_name=env_name, embed_dim=32, num_encoder_layers=1, num_heads=2)


def _matnet(env_name):
    from rl4co.models.zoo.matnet.policy import MatNetPolicy
    return MatNetPolicy(env_name=env_name, embed_dim=32, num_encoder_layers=1, num_heads=2)


def _polynet(env_name):
    from rl4co.models.zoo.polynet.policy import PolyNetPolicy
    return PolyNetPolicy(k=2, env_name=env_name, embed_dim=32, num_encoder_layers=1, num_heads=2)


def _l2d(env_name):
    from rl4co.models.zoo.l2d.policy import L2DPolicy
    return L2DPolicy(env_name=env_name, embed_dim=32, num_encoder_layers=1)


def _l2dattn(env_name):
    from rl4co.models.zoo.l2d.policy import L2DAttnPolicy
    return L2DAttnPolicy(env_name=env_name, embed_dim=32, num_encoder_layers=1, num_heads=2)


def _nargnn(env_name):
    from rl4co.models.zoo.nargnn.policy import NARGNNPolicy
    return NARGNNPolicy(env_name=env_name, embed_dim=16, num_layers_heatmap_generator=2, num_layers_graph_encoder=2)


POLICY_CTORS = {"AttentionModelPolicy": _am, "HeterogeneousAttentionModelPolicy": _ham, "SymNCOPolicy": _symnco,
                "MatNetPolicy": _matnet, "PolyNetPolicy": _polynet, "L2DPolicy": _l2d, "L2DAttnPolicy": _l2dattn,
                "NARGNNPolicy": _nargnn}
# networks that are, by design, not a function of (instance, state) alone: the per-row-function check is restricted / skipped
REPLICA_DEPENDENT = {"PolyNetPolicy"}      # the strategy vector z depends on the replica index: only replica 0 is comparable with a flat decode
RNG_IN_FORWARD = {"MatNetPolicy"}          # random one-hot column embedding drawn per forward pass, shape depends on the batch: own finding


def dynamic_embedding_envs():
    """Names in rl4co.models.nn.env_embeddings.dynamic's registry whose dynamic embedding is not the static one."""
    import inspect
    import re
    from rl4co.models.nn.env_embeddings import dynamic
    text = inspect.getsource(dynamic.env_dynamic_embedding)
    return sorted(n for n, c in re.findall(r'"(\w+)":\s*(\w+)', text) if c != "StaticEmbedding")
REAL_POLICIES = [
    ("AttentionModelPolicy", "tsp", dict(num_loc=7)), ("AttentionModelPolicy", "cvrp", dict(num_loc=7)),
    ("AttentionModelPolicy", "op", dict(num_loc=7)), ("AttentionModelPolicy", "pctsp", dict(num_loc=7)),
    ("AttentionModelPolicy", "sdvrp", dict(num_loc=6)), ("AttentionModelPolicy", "pdp", dict(num_loc=6)),
    ("HeterogeneousAttentionModelPolicy", "pdp", dict(num_loc=6)), ("SymNCOPolicy", "tsp", dict(num_loc=7)),
    ("MatNetPolicy", "atsp", dict(num_loc=6)), ("PolyNetPolicy", "tsp", dict(num_loc=7)),
    ("L2DPolicy", "jssp", dict(num_jobs=3, num_machines=3)), ("L2DPolicy", "fjsp", dict(num_jobs=3, num_machines=3)),
    ("L2DAttnPolicy", "fjsp", dict(num_jobs=3, num_machines=3)),
    ("NARGNNPolicy", "tsp", dict(num_loc=7)),
]


def build_real(label, envname, gp, wseed):
    import torch
    from rl4co.envs import get_env
    torch.manual_seed(wseed)
    env = get_env(envname, generator_params=dict(gp))
    pol = POLICY_CTORS[label](envname)
    pol.eval()
    return env, pol


def per_row_function_check(pol, env, td0, acts, lls, B, S, ms, tseed, replica0_only):
    """None, or the first (row, step) at which the S-fold pass's per-step log-prob differs (> 1e-4) from what the flat batch
    batchify(td, S) / the instance alone assign to the same forced actions."""
    import torch
    from rl4co.utils.ops import batchify
    TOL = 1e-4
    R = acts.shape[0]
    start = 1 if ms else 0
    rows = list(range(B if replica0_only else R))

    def first_diff(ll_other, r_other, r, against):
        T = min(ll_other.shape[1], lls.shape[1])
        d = (ll_other[r_other, start:T].double() - lls[r, start:T].double()).abs()
        if d.numel() and float(d.max()) > TOL:
            t = int((d > TOL).nonzero()[0]) + start
            return {"row": r, "step": t, "observed": float(lls[r, t]), "expected": float(ll_other[r_other, t]), "against": against,
                    "observed_ll_steps": [float(x) for x in lls[r]], "expected_ll_steps": [float(x) for x in ll_other[r_other]]}
        return None

    torch.manual_seed(tseed)
    with torch.no_grad():
        outF = dg.call("ConstructivePolicy.forward", pol, batchify(td0, S).clone(), env, phase="test", actions=acts, return_sum_log_likelihood=False)
    for r in rows:
        bad = first_diff(outF["log_likelihood"], r, r, "the flat batch batchify(td, %d) is decoded" % S)
        if bad is not None:
            return bad
    # the instance alone: prefer rows whose replica index differs from their instance index
    cand = [r for r in rows if r // S != r % B] + rows
    for r in list(dict.fromkeys(cand))[:2]:
        b = r % B
        torch.manual_seed(tseed)
        with torch.no_grad():
            outA = dg.call("ConstructivePolicy.forward", pol, td0[b:b + 1].clone(), env, phase="test", actions=acts[r:r + 1], return_sum_log_likelihood=False)
        bad = first_diff(outA["log_likelihood"], 0, r, "instance %d is decoded alone" % b)
        if bad is not None:
            return bad
    return None

# ----------------------------------------------------------------------------------------------- (b) real policies
def real_policies(ctx, rng, thorough, fails, t_start):
    import torch
    from rl4co.envs import get_env
    from rl4co.utils import decoding as D
    from rl4co.utils.ops import batchify

    specs = list(REAL_POLICIES)

    records = []
    orig_step = D.DecodingStrategy.step

    def wrapped(self, logits, mask, td=None, action=None, **kw):
        rec = {"logits": logits.detach().clone().double(), "mask": None if mask is None else mask.detach().clone(),
               "T": self.temperature, "C": self.tanh_clipping, "top_k": self.top_k, "top_p": self.top_p, "ml": self.mask_logits}
        out = orig_step(self, logits, mask, td, action=action, **kw)
        rec["action"] = self.actions[-1].detach().clone()
        records.append(rec)
        return out

    def spec_logp(rec):
        x = rec["logits"].clone()
        if rec["C"] > 0:
            x = torch.tanh(x) * rec["C"]
        if rec["ml"] and rec["mask"] is not None:
            x = x.masked_fill(~rec["mask"], -math.inf)
        x = x / rec["T"]
        return torch.log_softmax(x, dim=-1)

    cur = {}

    def fail(label, envname, gp, B, dt, what, extra=None):
        rep = {"unit": "decode-loop/real-policy", "policy": label, "env": envname, "generator_params": gp, "batch_size": B,
               "decode_type": dt, "what": what, "weight_seed": cur.get("wseed"), "torch_seed": cur.get("tseed"), "decode_kwargs": cur.get("kw")}
        rep.update(extra or {})
        return rep

    TOL = 1e-4
    covered, skipped = [], []
    dyn_envs = dynamic_embedding_envs()
    dyn_covered = set()
    D.DecodingStrategy.step = wrapped
    try:
        for label, envname, gp in specs:
            if time.time() - t_start > (1000 if thorough else 140):
                skipped.append("%s/%s (time budget)" % (label, envname))
                continue
            try:
                wseed = rng.randrange(2 ** 31)
                env, pol = build_real(label, envname, gp, wseed)
            except Exception as exc:
                skipped.append("%s/%s (cannot be constructed here: %s)" % (label, envname, str(exc)[:120]))
                continue
            B = 3
            reps = 3 if thorough else 1
            for rep_i in range(reps):
                data = env.generator(batch_size=[B])
                td0 = env.reset(data.clone())
                for dt, kw in (("greedy", {}), ("sampling", {}), ("multistart_greedy", dict(num_starts=2)),
                               ("multistart_sampling", dict(num_starts=2, select_best=True)), ("sampling", dict(num_samples=2))):
                    ms = "multistart" in dt
                    S = kw.get("num_starts", kw.get("num_samples", 0))
                    sb = kw.get("select_best", False)
                    try:
                        del records[:]
                        tseed = rng.randrange(2 ** 31)
                        cur.update(wseed=wseed, tseed=tseed, kw=dict(kw))
                        torch.manual_seed(tseed)
                        with torch.no_grad():
                            out = dg.call("ConstructivePolicy.forward", pol, td0.clone(), env, phase="test", decode_type=dt, return_actions=True,
                                          return_entropy=True, return_sum_log_likelihood=False, **kw)
                        recs = list(records)
                        torch.manual_seed(tseed)
                        del records[:]
                        with torch.no_grad():
                            out_s = dg.call("ConstructivePolicy.forward", pol, td0.clone(), env, phase="test", decode_type=dt, return_actions=True, **kw)
                    except dg.DecodeTimeout as exc:
                        fails.append((dg.signature(exc.fn_name), fail(label, envname, gp, B, dt, str(exc), {"instance": td_to_obj(data)})))
                        continue
                    except Exception as exc:
                        skipped.append("%s/%s/%s (pass raises: %s)" % (label, envname, dt, str(exc)[:100]))
                        continue
                    ctx.evaluations += 1
                    ctx.count("real_policy_passes")
                    ctx.count("real_" + label)
                    acts = out["actions"]
                    lls = out["log_likelihood"].double()
                    R = recs[0]["logits"].shape[0]
                    Tn = len(recs) + (1 if ms else 0)
                    # per-step spec log-probs of the recorded selected actions, for every rollout row
                    sel = torch.stack([r["action"] for r in recs], 1)                      # [R, T]
                    lp = torch.stack([spec_logp(r).gather(1, r["action"].unsqueeze(1)).squeeze(1) for r in recs], 1)   # [R, T]
                    ent_steps = []
                    for r in recs:
                        l = spec_logp(r)
                        p = l.exp()
                        ent_steps.append(-(torch.where(p > 0, p * l, torch.zeros_like(p))).sum(-1))
                    ent = torch.stack(ent_steps, 1).sum(1)
                    if sb:
                        # returned rows must be among the rollouts of their instance, with that rollout's log-probs
                        Bn = acts.shape[0]
                        for b in range(Bn):
                            okrow = False
                            for j in range(S):
                                r = j * Bn + b
                                if r < R and [int(x) for x in acts[b, 1:]] == [int(x) for x in sel[r]] and \
                                        float((lls[b, 1:] - lp[r]).abs().max()) <= TOL and abs(float(lls[b, 0])) <= TOL:
                                    okrow = True
                            if not okrow:
                                fails.append(("real-policy/select_best: returned row is not one of the instance's rollouts with its own log-probs",
                                              fail(label, envname, gp, B, dt, "instance %d" % b, {"instance": td_to_obj(data)})))
                        ctx.count("real_select_best_rows", Bn)
                        continue
                    free = acts[:, 1:] if ms else acts
                    d_act = not torch.equal(free, sel)
                    ll_free = lls[:, 1:] if ms else lls
                    d_ll = float((ll_free - lp).abs().max())
                    d_forced = float(lls[:, 0].abs().max()) if ms else 0.0
                    d_sum = float((out_s["log_likelihood"].double() - lp.sum(1)).abs().max())
                    d_ent = float((out["entropy"].double() - ent).abs().max())
                    if d_act or d_ll > TOL or d_forced > TOL or d_sum > TOL * Tn or d_ent > TOL * Tn:
                        fails.append(("real-policy/%s: log_likelihood / entropy are not those of the returned actions" % dt,
                                      fail(label, envname, gp, B, dt, "actions aligned %s, max |ll - spec| %.3g, forced %.3g, sum %.3g, entropy %.3g"
                                           % (not d_act, d_ll, d_forced, d_sum, d_ent), {"instance": td_to_obj(data)})))
                    ctx.seen({"policy": label, "env": envname, "data": td_to_obj(data), "dt": dt, "kw": kw}, nontrivial=True)
                    ctx.evaluations -= 1
                    ctx.count("real_rows_checked", R)
                    if rep_i == 0 and dt == "sampling" and not kw and len(ctx.samples) < 6:
                        ctx.sample({"stream": "real-policy", "policy": label, "env": envname, "decode_type": dt,
                                    "actions": [[int(a) for a in row] for row in acts], "returned_ll": [round(float(x), 5) for x in out_s["log_likelihood"]],
                                    "sum_of_recorded_step_logprobs": [round(float(x), 5) for x in lp.sum(1)]})
                    # THE MODEL'S KEY HYPOTHESIS on the implementation: the decoder is a per-row function of (instance, state).
                    # Row r of an S-fold pass (instance r mod B) must get the per-step log-probs that the flat batch batchify(td, S)
                    # and the instance decoded alone give to the same forced actions (multistart: from step 1 on, the forced move
                    # is the separate known finding).
                    if S >= 2 and B >= 2 and label not in RNG_IN_FORWARD:
                        bad = per_row_function_check(pol, env, td0, acts, lls, B, S, ms, tseed, label in REPLICA_DEPENDENT)
                        ctx.count("real_per_row_function_checks")
                        if envname in dyn_envs:
                            ctx.count("real_per_row_function_checks_dynamic_embedding_env")
                            dyn_covered.add(envname)
                        if bad is not None:
                            fails.append(("real-policy/%s/%s: per-step log-probs of a multistart/multisample row are not those of its own instance" % (label, envname),
                                          fail(label, envname, gp, B, dt,
                                               "row %d (instance %d, replica %d of %d) step %d: log-prob %.6f in the %d-fold pass, %.6f when %s with the same forced "
                                               "actions" % (bad["row"], bad["row"] % B, bad["row"] // B, S, bad["step"], bad["observed"], S, bad["expected"], bad["against"]),
                                               dict(bad, instance=td_to_obj(data), num_starts=S, check="per-row-function",
                                                    actions=[[int(a) for a in row] for row in acts]))))
                    # evaluate round trip on the same batch.  The network may draw random numbers in its forward pass (MatNet's
                    # random one-hot column embedding): pass A restores the RNG state of the rollout, so that the network is the
                    # same function in both passes (the hypothesis of the model); pass B does not.
                    ekw = dict(num_samples=S) if (S and not ms) else {}
                    td_eval = batchify(td0, S) if (S and ms) else td0
                    try:
                        del records[:]
                        torch.manual_seed(tseed)
                        with torch.no_grad():
                            outE = dg.call("ConstructivePolicy.forward", pol, td_eval.clone(), env, phase="test", actions=acts, return_entropy=True,
                                           return_sum_log_likelihood=False, **ekw)
                        torch.manual_seed(tseed + 1)
                        with torch.no_grad():
                            outB = dg.call("ConstructivePolicy.forward", pol, td_eval.clone(), env, phase="test", actions=acts, return_entropy=True,
                                           return_sum_log_likelihood=False, **ekw)
                    except Exception as exc:
                        fails.append((dg.signature(exc.fn_name) if isinstance(exc, dg.DecodeTimeout) else "real-policy/evaluate: raises on the actions a pass returned",
                                      fail(label, envname, gp, B, dt, "%s: %s" % (type(exc).__name__, str(exc)[:200]), {"instance": td_to_obj(data)})))
                        continue
                    llE = outE["log_likelihood"].double()
                    same_shape = llE.shape == lls.shape
                    if ms:
                        d_tail = float((llE[:, 1:] - lls[:, 1:]).abs().max()) if same_shape else math.inf
                        d0 = float((llE[:, 0] - lls[:, 0]).abs().max()) if same_shape else math.inf
                        d_rw = float((outE["reward"] - out["reward"]).abs().max())
                        ctx.count("real_multistart_evaluations")
                        if d0 > 1e-3 and d_rw <= 1e-5:
                            fails.append((SIG_MS_EVAL, fail(
                                label, envname, gp, B, dt,
                                "real policy: evaluate on the actions of a multistart pass scores the forced first move: per-step log-prob "
                                "%.5f..%.5f instead of 0; later steps differ by at most %.3g" % (float(llE[:, 0].min()), float(llE[:, 0].max()), d_tail),
                                {"instance": td_to_obj(data), "rollout_ll_sum": [float(x) for x in lls.sum(1)], "evaluate_ll_sum": [float(x) for x in llE.sum(1)]})))
                        continue
                    d_e = float((llE - lls).abs().max()) if same_shape else math.inf
                    d_rw = float((outE["reward"] - out["reward"]).abs().max())
                    d_en = float((outE["entropy"] - out["entropy"]).abs().max())
                    ctx.count("real_roundtrips")
                    if not torch.equal(outE["actions"], acts) or d_e > TOL or d_rw > 1e-5 or d_en > TOL * Tn:
                        fails.append(("real-policy/evaluate: round trip differs after %s" % dt,
                                      fail(label, envname, gp, B, dt, "max |ll diff| %.3g reward %.3g entropy %.3g" % (d_e, d_rw, d_en),
                                           {"instance": td_to_obj(data)})))
                    else:
                        llB = outB["log_likelihood"].double()
                        d_b = float((llB - lls).abs().max()) if llB.shape == lls.shape else math.inf
                        if d_b > TOL:
                            ctx.count("real_roundtrips_that_need_the_rng_state_restored")
                            fails.append(("real-policy/%s: network draws random numbers in its forward pass, evaluate does not reproduce the rollout's log-probs" % label,
                                          fail(label, envname, gp, B, dt,
                                               "with the torch RNG state of the rollout restored evaluate(actions) reproduces the per-step log-probs (max diff %.3g); "
                                               "without it they differ by %.3g: the network is not the same function in the two passes (PPO ratio != 1 at the "
                                               "first inner step)" % (d_e, d_b), {"instance": td_to_obj(data)})))
            covered.append("%s/%s" % (label, envname))
    finally:
        D.DecodingStrategy.step = orig_step
    ctx.units["real policies on the common loop (spec-on-impl, wrapper around DecodingStrategy.step)"] = {
        "policies": covered, "skipped": skipped, "passes": ctx.dist.get("real_policy_passes", 0),
        "round_trips": ctx.dist.get("real_roundtrips", 0),
        "per_row_function_checks": ctx.dist.get("real_per_row_function_checks", 0),
        "dynamic_embedding_envs_in_registry": dyn_envs, "dynamic_embedding_envs_checked": sorted(dyn_covered),
        "per_row_function_check_restricted": {"PolyNetPolicy": "replica 0 only (strategy vector depends on the replica index by design)",
                                              "MatNetPolicy": "skipped (random numbers drawn in the forward pass: its own finding)"}}
    missing = [e for e in dyn_envs if e not in dyn_covered]
    if missing:
        ctx.notes.append("dynamic-embedding envs of the registry for which no S-fold pass could be checked here: %s" % missing)
    if skipped:
        ctx.notes.append("real-policy stream skipped: " + "; ".join(skipped[:12]))


# ----------------------------------------------------------------------------------------------- replay
def replay(obj):
    import json
    import torch
    from rl4co.envs import get_env
    from rl4co.utils.ops import batchify
    print("signature :", obj.get("signature"))
    print("what      :", obj.get("what"))
    if obj.get("unit") == "decode-loop/real-policy" and "instance" in obj and obj.get("weight_seed") is not None:
        env, pol = build_real(obj["policy"], obj["env"], obj["generator_params"], obj["weight_seed"])
        B = obj["batch_size"]
        td0 = env.reset(obj_to_td(obj["instance"], B))
        kw = dict(obj.get("decode_kwargs") or {})
        S = kw.get("num_starts", kw.get("num_samples", 0))
        ms = "multistart" in obj["decode_type"]
        torch.manual_seed(obj["torch_seed"])
        with torch.no_grad():
            out = pol(td0.clone(), env, phase="test", decode_type=obj["decode_type"], return_actions=True, return_entropy=True,
                      return_sum_log_likelihood=False, **kw)
        print("policy %s on %s, decode_type %s %s" % (obj["policy"], obj["env"], obj["decode_type"], kw))
        print("rollout   : actions", out["actions"].tolist())
        print("rollout   : log_likelihood per row", [round(float(x), 6) for x in out["log_likelihood"].sum(-1)], "entropy", [round(float(x), 5) for x in out["entropy"]])
        if obj.get("check") == "per-row-function":
            bad = per_row_function_check(pol, env, td0, out["actions"], out["log_likelihood"].double(), B, S, ms, obj["torch_seed"],
                                         obj["policy"] in REPLICA_DEPENDENT)
            print("recorded  : row %s step %s observed %s expected %s (%s)" % (obj.get("row"), obj.get("step"), obj.get("observed"), obj.get("expected"), obj.get("against")))
            if bad is None:
                print("observed now: every row of the %d-fold pass gets the per-step log-probs of its own instance (flat batch and alone): property holds" % S)
            else:
                print("observed now: row %d step %d: %.6f in the %d-fold pass, %.6f when %s" % (bad["row"], bad["step"], bad["observed"], S, bad["expected"], bad["against"]))
                print("   S-fold pass per-step log-probs :", [round(x, 5) for x in bad["observed_ll_steps"]])
                print("   own instance per-step log-probs:", [round(x, 5) for x in bad["expected_ll_steps"]])
            print("expected (property): equal to 1e-4 (from step 1 on for multistart)")
            return 0
        if not kw.get("select_best"):
            ekw = dict(num_samples=S) if (S and not ms) else {}
            tdE = batchify(td0, S) if (S and ms) else td0
            for name_, seed_ in (("evaluate, RNG state of the rollout restored", obj["torch_seed"]), ("evaluate, RNG state not restored", obj["torch_seed"] + 1)):
                torch.manual_seed(seed_)
                with torch.no_grad():
                    oE = pol(tdE.clone(), env, phase="test", actions=out["actions"], return_entropy=True, return_sum_log_likelihood=False, **ekw)
                print("%-45s: log_likelihood per row %s  max per-step difference to the rollout %.3g" % (
                    name_, [round(float(x), 6) for x in oE["log_likelihood"].sum(-1)],
                    float((oE["log_likelihood"] - out["log_likelihood"]).abs().max()) if oE["log_likelihood"].shape == out["log_likelihood"].shape else float("nan")))
            print("expected (property): evaluate reproduces the rollout's per-step log-probabilities, reward and entropy")
        return 0
    if obj.get("unit") != "decode-loop/stub" or "instance" not in obj:
        print(json.dumps({k: v for k, v in obj.items() if k != "instance"}, indent=1)[:3000])
        print("(record of a real-policy or proof-obligation failure: re-run ./check C11 to re-evaluate it on the current tree)")
        return 0
    env = get_env(obj["env"], generator_params=dict(obj["generator_params"]))
    B = obj["batch_size"]
    data = obj_to_td(obj["instance"], B)
    td0 = env.reset(data)
    c = obj["config"]
    cfg = cfg_from_dict(c)
    Stub = make_stub_cls()
    print("config    :", c)
    try:
        res, stub = run_pass(env, td0, obj["seeds"], cfg, torch_seed=0, StubDecoder=Stub)
        res_s, _ = run_pass(env, td0, obj["seeds"], cfg, torch_seed=0, ret_sum=True, StubDecoder=Stub)
    except Exception as exc:
        print("observed now: the pass RAISES %s: %s" % (type(exc).__name__, str(exc)[:300]))
        print("expected (property): the pass returns (select_best without replicas returns the plain rollout)")
        return 1
    if c.get("max_steps") is not None:
        ref, stubR = run_pass(env, td0, obj["seeds"], cfg.clone(max_steps=None), torch_seed=0, StubDecoder=Stub)
        print("the same pass without max_steps needs %d decoder steps and returns %s" % (stubR.calls, ref["actions"]))
        print("with max_steps=%d (loop: `step += 1; if step > max_steps: break`, i.e. up to %d steps) it returns %s" % (
            c["max_steps"], c["max_steps"] + 1, res["actions"]))
    print("observed now: actions", res["actions"])
    print("observed now: per-step log-likelihood", res["ll_steps"])
    print("observed now: log_likelihood (sum)", res_s["ll_sum"], " reward", res["reward"])
    for k in ("expected_ll_steps", "observed_ll_steps", "expected_ll_sum", "observed_ll_sum", "rollout_ll_steps", "evaluate_ll_steps",
              "rollout_ll_sum", "evaluate_ll_sum", "expected_entropy", "observed_entropy"):
        if k in obj:
            print("recorded  %-20s: %s" % (k, obj[k]))
    if cfg.mode != "evaluate" and not cfg.sb:
        S = cfg.S if cfg.S >= 1 else 0
        cfgE = PassCfg("evaluate", 0, False, False, True, cfg.temp, cfg.top_k, cfg.top_p, cfg.flags, cfg.dtype)
        tdE = batchify(td0, S) if S else td0
        try:
            resE, _ = run_pass(env, tdE, obj["seeds"], cfgE, actions=torch.tensor(res["actions"]), StubDecoder=Stub)
            print("evaluate(actions) now: per-step log-likelihood", resE["ll_steps"])
            print("evaluate(actions) now: sums", [sum(r) for r in resE["ll_steps"]], "vs rollout", res_s["ll_sum"])
        except Exception as exc:
            print("evaluate(actions) now RAISES: %s: %s" % (type(exc).__name__, str(exc)[:200]))
        print("expected (property): identical per-step log-probabilities, reward and entropy")
    return 0
