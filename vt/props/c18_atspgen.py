"""C18, unit atspgen -- ATSPGenerator: the tmat_class loop is Floyd-Warshall; the emitted matrix satisfies the
triangle inequality (Properties/C18_atspgen.v: fw_triangle, gen_atsp_wf).

Correspondence
  (b) model vs code, exact: the real ATSPGenerator._generate is run with a dist_sampler that returns chosen
      dyadic matrices (k/64, integer min/max_dist), so every float32 operation of the generator is exact; the
      Gallina post-processing [gen_atsp] must reproduce the emitted cost matrix bit for bit (check_gen).
      Matrices: random dense, random sparse-with-heavy-fill (long shortest paths: every pass matters), chains in
      a random node order (the pass through the LAST node matters), duplicates/zeros.
  (a) property on the implementation: check_prop on the matrices of (b) (tolerance 0) and on matrices emitted by
      the unmodified generator with its default Uniform sampler for several (num_loc, min_dist, max_dist)
      (tolerance 2^-20: float32 additions are rounded, the theorem is exact)."""
import time

from vt.c18_util import bulk, ensure_dirs, FixedSampler, quiet_logs, zmat, run_jobs
from vt.common import cz

HEADER = ("From Coq Require Import List ZArith.\nFrom RL4CO Require Import Harness.HC18_atsp.\n"
          "Import ListNotations.\nOpen Scope Z_scope.\n")

SIG_TRI = "atsp: tmat_class output violates the triangle inequality"
SIG_FMT = "atsp: cost matrix outside the documented format (shape / negative entry / non-zero diagonal)"


def _matrices(rng, n, kind):
    """n x n matrix of multiples of 1/64 in [0, 1] (diagonal arbitrary: the generator overwrites it)"""
    if kind == "dense":
        return [[rng.randint(0, 64) / 64.0 for _ in range(n)] for _ in range(n)]
    if kind == "sparse":
        return [[(rng.randint(1, 6) if rng.random() < 0.3 else rng.randint(48, 64)) / 64.0 for _ in range(n)] for _ in range(n)]
    if kind == "chain":       # cheap arcs only along a random Hamiltonian path; the rest expensive
        order = list(range(n))
        rng.shuffle(order)
        m = [[1.0 for _ in range(n)] for _ in range(n)]
        for a, b in zip(order, order[1:]):
            m[a][b] = rng.randint(1, 3) / 64.0
        return m
    if kind == "lastnode":    # the only shortcut runs through node n-1
        m = [[rng.randint(40, 64) / 64.0 for _ in range(n)] for _ in range(n)]
        for a in range(n - 1):
            m[a][n - 1] = rng.randint(1, 4) / 64.0
            m[n - 1][a] = rng.randint(1, 4) / 64.0
        return m
    raise ValueError(kind)


def gen_with_sampler(torch, n, mats, mn, mx, tmat=True):
    from rl4co.envs.routing.atsp.generator import ATSPGenerator
    U = torch.tensor(mats, dtype=torch.float32)
    g = ATSPGenerator(num_loc=n, min_dist=mn, max_dist=mx, tmat_class=tmat, dist_sampler=FixedSampler(U))
    td = g(len(mats))
    return td["cost_matrix"]


def run_unit(ctx, proofs_ok):
    import torch
    torch.set_num_threads(2)
    quiet_logs()
    ensure_dirs('atsp')
    from rl4co.envs.routing.atsp.generator import ATSPGenerator
    rng = ctx.rng
    thorough = ctx.tier == "thorough"
    t0 = time.time()

    # ------------------------------------------------------------------ (b) model vs code on exact-grid raw samples
    cases, metas, pcases = [], [], []
    sizes = [1, 2, 3, 4, 5, 6, 8, 10] + ([7, 12, 16, 20, 25] if thorough else [])
    reps = 6 if thorough else 2
    EB = 6            # exact grid 1/64
    GB = 30           # grid for generated floats (floor; the tolerance covers it)
    for n in sizes:
        for kind in ("dense", "sparse", "chain", "lastnode"):
            for (mn, mx) in ((0, 1), (1, 3), (0, 2)):
                for tm in (True, True, False):
                    if not tm and kind != "dense":
                        continue
                    B = reps
                    mats = [_matrices(rng, n, kind) for _ in range(B)]
                    try:
                        R = gen_with_sampler(torch, n, mats, float(mn), float(mx), tmat=tm)
                    except Exception as e:  # the generator must not raise on in-range samples
                        ctx.broken.append("correspondence C18/atsp: generator raised on in-range samples: %r" % (e,))
                        continue
                    for b in range(B):
                        Rb = R[b].tolist()
                        cases.append("(%s, %d%%nat, %s, %s, %s, %s, %s)" % (
                            "true" if tm else "false", n, cz(1 << EB), cz(mn), cz(mx), zmat(mats[b], bits=EB), zmat(Rb, bits=EB)))
                        meta = {"unit": "atsp", "kind": "model_vs_code", "num_loc": n, "min_dist": mn, "max_dist": mx,
                                "tmat_class": tm, "matrix_kind": kind, "raw_samples": mats[b], "observed_cost_matrix": Rb}
                        metas.append(meta)
                        if tm:
                            pcases.append("(%d%%nat, %s, %s)" % (n, cz(0), zmat(Rb, bits=EB)))
                        ctx.seen({"atsp_b": mats[b], "mn": mn, "mx": mx, "tm": tm}, nontrivial=n >= 3)
                        ctx.count("atsp_exact_n%d" % n)
    pm = [m for m in metas if m["tmat_class"]]
    n_fail = 0
    if metas:
        ctx.sample({k: metas[len(metas) // 2][k] for k in ("unit", "kind", "num_loc", "matrix_kind", "raw_samples", "observed_cost_matrix")})

    # ------------------------------------------------------------------ (a) property on unmodified generator output
    cases2, metas2 = [], []
    sizes2 = [2, 3, 5, 8, 13] + ([10, 20, 30, 50] if thorough else [20])
    B2 = 24 if thorough else 4
    confs2 = [(n, mn, mx, (B2 if n <= 20 else max(2, B2 // 4))) for n in sizes2 for (mn, mx) in ((0.0, 1.0), (0.5, 2.0), (0.0, 10.0))]
    if thorough:          # bulk: >= 10^4 small matrices from the unmodified generator
        confs2 += [(n, 0.0, 1.0, 50 * bulk(10)) for n in (4, 5, 6) for _ in range(7)]
    for (n, mn, mx, Bn) in confs2:
        if True:
            seed = rng.randrange(2 ** 31)
            torch.manual_seed(seed)
            g = ATSPGenerator(num_loc=n, min_dist=mn, max_dist=mx, tmat_class=True)
            td = g(Bn)
            cm = td["cost_matrix"]
            ok_shape = tuple(cm.shape[1:]) == (n, n) and cm.dtype == torch.float32
            lo_ok = bool((cm <= mx + 1e-6).all())
            if not ok_shape or not lo_ok:
                ctx.failure(SIG_FMT, {"unit": "atsp", "kind": "generated", "num_loc": n, "min_dist": mn, "max_dist": mx,
                                      "torch_seed": seed, "shape": list(cm.shape), "dtype": str(cm.dtype),
                                      "max_entry": float(cm.max()), "what": "shape/dtype/upper bound"}, tag="atsp")
            for b in range(cm.shape[0]):
                Rb = cm[b].tolist()
                tol = int((1 << GB) * max(1.0, mx)) >> 20
                cases2.append("(%d%%nat, %s, %s)" % (n, cz(tol), zmat(Rb, exact=False, bits=GB)))
                metas2.append({"unit": "atsp", "kind": "generated", "num_loc": n, "min_dist": mn, "max_dist": mx,
                               "torch_seed": seed, "row": b, "batch": int(cm.shape[0]), "observed_cost_matrix": Rb if Bn < 100 else None})
                ctx.seen({"atsp_a": [seed, b, n, mn, mx]}, nontrivial=n >= 3)
                ctx.count("atsp_generated_n%d" % n)
    res = run_jobs(ctx, "atsp", HEADER, [
        ("gen", "bool * nat * Z * Z * Z * list (list Z) * list (list Z)", "check_gen", cases, metas),
        ("prop_exact", "nat * Z * list (list Z)", "check_prop", pcases, pm),
        ("prop_gen", "nat * Z * list (list Z)", "check_prop", cases2, metas2)], cap=120 if not thorough else 600)
    codes, pcodes, codes2 = res["gen"], res["prop_exact"], res["prop_gen"]
    disagree = []
    if codes is not None:
        disagree = [(m, c) for m, c in zip(metas, codes) if c != 0]
        for m, c in disagree[:1]:
            ctx.broken.append("correspondence C18/atsp: model gen_atsp and ATSPGenerator differ (code %d) on n=%d %s tmat=%s"
                              % (c, m["num_loc"], m["matrix_kind"], m["tmat_class"]))
    if pcodes is not None:
        for m, c in zip(pm, pcodes):
            if c in (6, 10):
                n_fail += 1
                r = dict(m)
                r.update({"what": "cost matrix emitted with tmat_class=True violates d[a][b] <= d[a][k] + d[k][b] on exact dyadic data",
                          "expected": "triangle inequality", "code": c})
                ctx.failure(SIG_TRI, r, tag="atsp")
            elif c != 0:
                n_fail += 1
                r = dict(m)
                r.update({"what": "emitted matrix not n x n / negative / diagonal non-zero", "code": c})
                ctx.failure(SIG_FMT, r, tag="atsp")
    ill = 0
    if codes2 is not None:
        for m, c in zip(metas2, codes2):
            if c == 10:
                ill += 1
            elif c == 6:
                n_fail += 1
                r = dict(m)
                r["what"] = "generated cost matrix violates the triangle inequality by more than 2^-20 * max_dist"
                ctx.failure(SIG_TRI, r, tag="atsp")
            elif c != 0:
                n_fail += 1
                r = dict(m)
                r["what"] = "generated matrix not n x n / negative / diagonal non-zero (code %d)" % c
                ctx.failure(SIG_FMT, r, tag="atsp")
    ctx.count("atsp_ill_conditioned_triangle_within_rounding", ill)
    ctx.units["atspgen"] = {
        "model_vs_code_cases": len(cases), "model_vs_code_disagreements": len(disagree),
        "property_on_exact_outputs": len(pcases), "property_on_generated": len(cases2),
        "triangle_only_within_float_rounding": ill, "property_failures": n_fail,
        "proved": "fw_triangle (any n), gen_atsp_wf", "coq_s": round(time.time() - t0, 1)}
    ctx.notes.append("atsp: float32 rounding of the additions inside the loop is not modelled; on generator output the triangle "
                     "inequality is evaluated with tolerance 2^-20*max_dist (%d of %d matrices hold only within that tolerance); "
                     "dist distributions that can return negative samples (normal) are outside the hypotheses; tmat_class=False: nothing claimed"
                     % (ill, len(cases2)))


def replay(obj):
    import torch
    quiet_logs()
    print("signature:", obj.get("signature"))
    n = obj["num_loc"]
    if obj.get("kind") == "model_vs_code":
        R = gen_with_sampler(torch, n, [obj["raw_samples"]], float(obj["min_dist"]), float(obj["max_dist"]), tmat=obj["tmat_class"])[0]
    else:
        from rl4co.envs.routing.atsp.generator import ATSPGenerator
        torch.manual_seed(obj["torch_seed"])
        R = ATSPGenerator(num_loc=n, min_dist=obj["min_dist"], max_dist=obj["max_dist"], tmat_class=True)(obj["batch"])["cost_matrix"][obj["row"]]
    worst = None
    for a in range(n):
        for b in range(n):
            for k in range(n):
                gap = float(R[a][b]) - (float(R[a][k]) + float(R[k][b]))
                if worst is None or gap > worst[0]:
                    worst = (gap, a, b, k)
    print("cost matrix now:", R.tolist())
    print("expected: d[a][b] <= d[a][k] + d[k][b] for all a, b, k")
    print("observed: max over (a,b,k) of d[a][b] - d[a][k] - d[k][b] = %.9g at (a,b,k)=%s" % (worst[0], worst[1:]))
    bad = worst[0] > 2 ** -20 * max(1.0, float(obj["max_dist"]))
    print("still fails" if bad else "no longer fails")
    return 1 if bad else 0
