"""C18 -- generators emit well-formed, solvable instances: units routing, atspgen (ATSP generator; the name `atsp` is taken by
the routing-environment adapter), sched, graph."""
from vt.props._units import run_units


def run(ctx, proofs_ok):
    run_units(ctx, proofs_ok)
    ctx.rule = ("(b) model-vs-code: the real generators are run on chosen raw samples (fixed samplers / patched torch RNG calls) with "
                "exactly representable data (dyadic numbers, integral point sets) and the Gallina post-processing must reproduce the "
                "emitted instance exactly; (a) property evaluation: wfb / solvableb and the documented ranges evaluated in Coq on "
                "instances drawn from the unmodified generators (torch seeded from VERIF_SEED) over sizes incl. off-table ones, all "
                "MTVRP presets, scheduling shapes. non-trivial = size >= 3 (or >= 2 jobs/sets); distinct by hash of the raw samples "
                "or of (torch seed, row, parameters)")
    ctx.assumptions += [
        "raw samples are arbitrary numbers inside the sampler's documented range (0 <= u < 1, randint bounds, argsort returns a permutation); the torch RNG itself is not modelled",
        "float32 rounding inside generator arithmetic is not modelled (exact-grid inputs in the model-vs-code tie, tolerances in the property evaluation)",
    ]


def replay(obj):
    import importlib
    unit = obj.get("unit_module") or obj.get("unit") or ""
    unit = {"atsp": "atspgen", "cvrp": "routing", "cvrptw": "routing", "mtvrp": "routing", "op": "routing", "svrp": "routing", "pdp": "routing",
            "mtsp": "routing", "pctsp": "routing", "mdcpdp": "routing", "fjsp": "sched", "jssp": "sched", "ffsp": "sched",
            "smtwtp": "sched", "flp": "graph", "mcp": "graph"}.get(unit, unit)
    try:
        mod = importlib.import_module("vt.props.c18_%s" % unit)
    except ModuleNotFoundError:
        print("no executable replay for unit %r" % unit)
        return 0
    return mod.replay(obj)
