"""C17 -- datasets, collation and baseline wrapping preserve instance identity and order.

Proof obligations: Properties/C17.v (Data/Dataset.v): for every TensorDict, every bundled dataset class, every
batch size b >= 1 (final partial batch included), sequential or any permutation, with or without an extra key,
what the loader emits is the original instances (zipped with their extra values); RolloutBaseline.rollout /
wrap_dataset attach pol(instance i) to instance i for every evaluation batch size, given a row-wise policy.

Correspondence (this file): the real classes are driven EXHAUSTIVELY over N <= 7 tagged instances x the three
classes x b = 1..N+1 x shuffle off/on x extra key off/on (+ wrong-length extras, N = 0, b = 0); every emitted batch
is turned into tags (which original instance's slice is this, bit for bit, dtype and shape included) and compared
with the model evaluated inside Coq on the same inputs (with shuffle, the observed sampler order is handed to the
model as the permutation oracle and checked to be a permutation).  RolloutBaseline is driven on a real TSPEnv
(5 nodes, exact integral point sets) with a stub row-wise policy through setup/_update_policy, wrap_dataset and
the REINFORCE module's setup / on_train_epoch_end / train_dataloader.
Histories of wrappings (Data/DatasetStore.v): the SAME dataset object is wrapped k = 2..3 times with different tagged
extras (ds.add_key, and the real RolloutBaseline: wrap_dataset -> epoch -> _update_policy / epoch_callback with another
policy -> wrap_dataset again -> epoch), reads through different loaders (batch sizes, shuffle, partial final batch,
single items, older wrappers) interleaved; every emitted extra must be the value of the wrapper read through / of the
CURRENT baseline policy for exactly that instance; the whole trace is compared with the store model in Coq.
Decision table (Data/BaselineUpdate.v): the REAL RolloutBaseline.epoch_callback is driven with table policies of tagged
rewards (clearly better / worse / better but not significant / equal / n = 2 / constant differences / n = 1 / random rows and
their shifted+scaled twins); observed: was self.policy replaced, bl_vals / mean / evaluation set refreshed, what the next
wrap_dataset attaches; compared with the exact decision model (scipy's one-sided p at the model's t^2 as the oracle of the
abstract p-value function, its monotonicity checked on the sampled points).
Spec-on-impl (every run): the property's executable statement is evaluated on the implementation's own output;
a failure is reported through ctx.failure.  DataLoader workers > 0 are NOT exercised (runtime behaviour)."""
import math
import types
from fractions import Fraction

from vt.common import Ctx, cz, cnat, cnatlist, clist, cq, coq_eval_shards

HEADER = ("From Coq Require Import List ZArith.\nFrom RL4CO Require Import Data.Dataset Harness.HC17.\n"
          "Import ListNotations.\n")
HEADER_UPD = ("From Coq Require Import List ZArith QArith.\nFrom RL4CO Require Import Data.BaselineUpdate Harness.HC17_update.\n"
              "Import ListNotations.\nOpen Scope Q_scope.\n")

CLASSES = ["TensorDictDataset", "FastTdDataset", "TensorDictDatasetFastGeneration"]
KX = 9            # number of the key "extra"
KID = {"locs": 0, "ids": 1, "flag": 2, "h": 3, "cnt": 4}
POOL = 8          # content ids 0..7
BADZ = -999983    # a value that is not exactly representable where it should be

_T = {}           # lazily built torch objects


def T():
    if _T:
        return _T
    import torch
    from tensordict import TensorDict
    import rl4co.data.dataset as D
    _T["torch"] = torch
    _T["TensorDict"] = TensorDict
    _T["D"] = D
    c = torch.arange(POOL)
    pool = {
        "locs": (torch.arange(6, dtype=torch.float32).reshape(1, 3, 2) + 8.0 * c.reshape(-1, 1, 1).float()) / 64.0,
        "ids": (10 * c + 3).to(torch.int64),
        "flag": torch.stack([torch.tensor([((int(i) + 1) >> 2) & 1, ((int(i) + 1) >> 1) & 1, (int(i) + 1) & 1],
                                          dtype=torch.bool) for i in c]),
        "h": torch.stack([torch.tensor([[int(i) / 4.0, -float(int(i))]], dtype=torch.float16) for i in c]),
        "cnt": torch.stack([torch.tensor([[[int(i)]], [[int(i) * int(i)]]], dtype=torch.int32) for i in c]),
    }
    _T["pool"] = pool
    return _T


def make_td(content, keys):
    t = T()
    idx = t["torch"].tensor(list(content), dtype=t["torch"].long)
    return t["TensorDict"]({k: t["pool"][k][idx].clone() for k in keys}, batch_size=[len(content)])


def identify(key, sl, pool=None):
    """content id of the original instance whose slice under `key` equals `sl` bit for bit (dtype, shape), else -1"""
    t = T()
    ref = (pool or t["pool"]).get(key)
    if ref is None or not hasattr(sl, "dtype"):
        return -1
    for c in range(ref.shape[0]):
        r = ref[c]
        if sl.dtype == r.dtype and tuple(sl.shape) == tuple(r.shape) and t["torch"].equal(sl, r):
            return c
    return -1


def scaled(v, scale):
    f = Fraction(float(v)) * scale
    return int(f) if f.denominator == 1 else BADZ


def observe_batches(batches, extra=None, pool=None, kid=KID, tagmul=16, escale=64):
    """-> (obs, problems).  obs = [(n, [(kid, [tags])...])...] in the batch's own key order.
    extra = dict(key=name, dtype=torch dtype, shape=tuple of trailing dims) when an extra key is expected."""
    obs, problems = [], []
    for bt in batches:
        if not (hasattr(bt, "keys") and hasattr(bt, "batch_size")):
            raise TypeError("loader emitted a %s, not a TensorDict" % type(bt).__name__)
        if len(bt.batch_size) < 1:
            raise TypeError("emitted TensorDict has no batch dimension")
        n = int(bt.batch_size[0])
        if len(bt.batch_size) != 1:
            problems.append("batch_size %s is not one-dimensional" % (tuple(bt.batch_size),))
        cols = []
        for k in bt.keys():
            v = bt[k]
            rows = int(v.shape[0]) if v.dim() > 0 else 0
            if extra is not None and k == extra["key"]:
                if v.dtype != extra["dtype"] or tuple(v.shape[1:]) != tuple(extra["shape"]):
                    problems.append("extra dtype/shape %s %s, expected %s %s" % (v.dtype, tuple(v.shape[1:]), extra["dtype"], extra["shape"]))
                    tags = [BADZ] * rows
                else:
                    tags = [scaled(v[r], escale) for r in range(rows)]
                cols.append((KX, tags))
            else:
                kk = kid.get(k, 15)
                tags = []
                for r in range(rows):
                    c = identify(k, v[r], pool)
                    tags.append(c * tagmul + kk if c >= 0 else -1)
                cols.append((kk, tags))
        obs.append((n, cols))
    return obs, problems


def spec_on_obs(content, kids, shuffle, extra_vals, obs, tagmul=16):
    """The property, evaluated on what the implementation emitted.  None = holds, else (mechanism, detail)."""
    exp_keys = set(kids) | ({KX} if extra_vals is not None else set())
    rows = []
    for bi, (n, cols) in enumerate(obs):
        d = dict(cols)
        if set(d) != exp_keys or len(cols) != len(d):
            return "keys-lost-or-added", "batch %d has keys %s, expected %s" % (bi, sorted(d), sorted(exp_keys))
        if any(len(col) != n for col in d.values()) or n < 1:
            return "batch-dimension-inconsistent", "batch %d: batch_size %d, column lengths %s" % (bi, n, [len(c) for c in d.values()])
        for r in range(n):
            cs = set()
            for k in kids:
                tag = d[k][r]
                cs.add(tag // tagmul if (tag >= 0 and tag % tagmul == k) else -1)
            if len(cs) != 1 or -1 in cs:
                return "instance-fields-mixed-or-altered", "batch %d row %d: per-key instance ids %s (-1 = no original slice with this value, dtype and shape)" % (bi, r, sorted(cs))
            rows.append((cs.pop(), d[KX][r] if extra_vals is not None else None))
    seq = [c for c, _ in rows]
    if sorted(seq) != sorted(content):
        return "instances-lost-or-duplicated", "emitted %s from dataset %s" % (seq, list(content))
    if not shuffle and seq != list(content):
        return "instances-not-in-original-order", "emitted %s from dataset %s" % (seq, list(content))
    if extra_vals is not None:
        for c, e in rows:
            if e != extra_vals[list(content).index(c)]:
                return "extra-not-paired-with-its-instance", "instance %d came with extra %s, its own is %s" % (c, e, extra_vals[list(content).index(c)])
    return None


# ------------------------------------------------------------------------------------------ Coq terms
def c_zlist(xs):
    return "[" + "; ".join(cz(x) for x in xs) + "]"


def c_td(n, cols):
    return "(mk %s [%s])" % (cnat(n), "; ".join("(%s, %s)" % (cnat(k), c_zlist(col)) for k, col in cols))


def c_opt(x):
    return "None" if x is None else "(Some %s)" % x


def c_obs(obs):
    return c_opt(None if obs is None else "[" + "; ".join(c_td(n, cols) for n, cols in obs) + "]")


def c_shuffle(order):
    return c_opt(None if order is None else cnatlist(order))


def order_from_obs(content, obs, tagmul=16):
    """the sampler order, read off the first key of the emitted rows (position in the dataset of each emitted instance);
    an unidentifiable row gives position len(content), which the model-side permutation test rejects"""
    pos = {c: i for i, c in enumerate(content)}
    order = []
    for n, cols in obs:
        inst_cols = [(k, col) for k, col in cols if k != KX]
        if not inst_cols:
            return None
        k, col = inst_cols[0]
        for tag in col:
            order.append(pos.get(tag // tagmul, len(content)) if tag >= 0 else len(content))
    return order


# ------------------------------------------------------------------------------------------ datasets x loader
def run_loader_case(spec):
    """spec: cls, content, keys, b, shuffle_seed (None = sequential), extra (None | dict(dtype, vals64)).
    Runs the real classes; returns dict(obs=..|None, error=str|None, problems=[...])."""
    t = T()
    torch, D = t["torch"], t["D"]
    from torch.utils.data import DataLoader
    td = make_td(spec["content"], spec["keys"])
    res = {"obs": None, "error": None, "problems": []}
    extra_info = None
    try:
        ds = getattr(D, spec["cls"])(td)
        if spec.get("extra") is not None:
            dt = getattr(torch, spec["extra"]["dtype"])
            ex = torch.tensor([v / 64.0 for v in spec["extra"]["vals64"]], dtype=torch.float64).to(dt)
            ds = ds.add_key("extra", ex)
            extra_info = {"key": "extra", "dtype": dt, "shape": ()}
        kw = {}
        if spec.get("shuffle_seed") is not None:
            g = torch.Generator()
            g.manual_seed(int(spec["shuffle_seed"]))
            kw = {"shuffle": True, "generator": g}
        dl = DataLoader(ds, batch_size=spec["b"], collate_fn=ds.collate_fn, **kw)
        batches = [x for x in dl]
        res["obs"], res["problems"] = observe_batches(batches, extra_info)
    except Exception as e:  # noqa: BLE001 -- an exception is an observable (the model says None)
        res["error"] = "%s: %s" % (type(e).__name__, str(e)[:160])
    return res


def loader_specs(ctx):
    rng, tier = ctx.rng, ctx.tier
    nmax = 7 if tier == "quick" else POOL
    seeds_per = 1 if tier == "quick" else 3
    specs = []
    allkeys = list(KID)
    for N in range(1, nmax + 1):
        for cls in CLASSES:
            # a fresh instance set per (N, class): N distinct contents (when N <= 8) in random order, 1..5 keys in random order
            content = rng.sample(range(POOL), N) if N <= POOL else None
            if content is None:
                continue
            keys = rng.sample(allkeys, rng.randint(1, len(allkeys)))
            for b in range(1, N + 2):
                for use_extra in (False, True):
                    extra = None
                    if use_extra:
                        dt = rng.choice(["float32", "float32", "float64", "int64"])
                        vals = [rng.randint(-8, 8) * 64 for _ in range(N)] if dt == "int64" else [rng.randint(-512, 512) for _ in range(N)]
                        extra = {"dtype": dt, "vals64": vals}
                    specs.append({"cls": cls, "content": content, "keys": keys, "b": b, "shuffle_seed": None, "extra": extra, "kind": "main"})
                    for _ in range(seeds_per):
                        specs.append({"cls": cls, "content": content, "keys": keys, "b": b,
                                      "shuffle_seed": rng.randint(0, 2 ** 31 - 1), "extra": extra, "kind": "main"})
            # wrong-length extras (the code must refuse, not truncate)
            for L in (N - 1, N + 1, N + 3):
                if L < 0:
                    continue
                specs.append({"cls": cls, "content": content, "keys": keys, "b": rng.randint(1, N + 1), "shuffle_seed": None,
                              "extra": {"dtype": "float32", "vals64": [rng.randint(-512, 512) for _ in range(L)]}, "kind": "mismatch"})
    # outside the quantifier, still modelled: empty instance set, batch size 0
    for cls in CLASSES:
        keys = rng.sample(allkeys, 2)
        specs.append({"cls": cls, "content": [], "keys": keys, "b": 2, "shuffle_seed": None, "extra": None, "kind": "edge"})
        specs.append({"cls": cls, "content": [], "keys": keys, "b": 2, "shuffle_seed": 5, "extra": None, "kind": "edge"})
        specs.append({"cls": cls, "content": [2, 5, 1], "keys": keys, "b": 0, "shuffle_seed": None, "extra": None, "kind": "edge"})
    return specs


def loader_case_term(spec, res):
    content, kids = spec["content"], [KID[k] for k in spec["keys"]]
    tdm = c_td(len(content), [(KID[k], [c * 16 + KID[k] for c in content]) for k in spec["keys"]])
    order = None
    if spec["shuffle_seed"] is not None:
        order = order_from_obs(content, res["obs"]) if res["obs"] is not None else list(range(len(content)))
        if order is None:
            order = []
    extra = None
    if spec["extra"] is not None:
        extra = "(%s, %s)" % (cnat(KX), c_zlist(spec["extra"]["vals64"]))
    return "LC %s %s %s %s %s %s" % (cnat(CLASSES.index(spec["cls"])), tdm, cnat(spec["b"]), c_shuffle(order),
                                     c_opt(extra), c_obs(res["obs"])), kids


def unit_name(spec):
    return spec["cls"] + ("/extra" if spec.get("extra") is not None else "")


# ------------------------------------------------------------------------------------------ RolloutBaseline
PTS = [(5, 0), (-5, 0), (9, 0), (-9, 0), (16, 0), (-16, 0), (35, 0), (-35, 0), (0, 12)]


def tour_len_int(pts, tour=None):
    """length of the closed tour 0,1,..,n-1,0 (or `tour`) over integer points whose pairwise distances are integers"""
    if tour is not None:
        pts = [pts[i] for i in tour]
    L = 0
    for a, b in zip(pts, pts[1:] + pts[:1]):
        d2 = (a[0] - b[0]) ** 2 + (a[1] - b[1]) ** 2
        d = math.isqrt(d2)
        assert d * d == d2
        L += d
    return L


class World:
    """a real TSPEnv over a fixed pool of 8 exact 5-node instances, and a stub row-wise policy"""

    def __init__(self, rng=None, insts=None, tours=None):
        t = T()
        torch, TensorDict = t["torch"], t["TensorDict"]
        import torch.nn as nn
        from rl4co.envs.routing.tsp.generator import TSPGenerator
        self.tours = [tuple(x) for x in (tours or [(0, 1, 2, 3, 4)])]    # one stub policy per fixed tour
        if insts is None:
            insts, lens = [], [set() for _ in self.tours]
            while len(insts) < POOL:          # 8 instances with pairwise different rewards (a mis-pairing is then visible),
                pts = rng.sample(PTS, 5)      # and per instance a different reward under every tour (a stale value is then visible)
                Ls = [tour_len_int(pts, tr) for tr in self.tours]
                if any(L in seen for L, seen in zip(Ls, lens)) or len(set(Ls)) != len(Ls):
                    continue
                for L, seen in zip(Ls, lens):
                    seen.add(L)
                insts.append(pts)
        insts = [[tuple(p) for p in inst] for inst in insts]
        self.insts = insts
        self.tables = [[-tour_len_int(p, tr) for p in insts] for tr in self.tours]   # reward * 128, exact, per stub policy
        self.table = self.tables[0]
        self.pool = {"locs": torch.tensor([[[x / 128.0, y / 128.0] for (x, y) in p] for p in insts], dtype=torch.float32)}
        world = self

        class PoolGen(TSPGenerator):
            def __init__(self):
                super().__init__(num_loc=5)
                self.plan = []

            def _generate(self, batch_size):
                content = self.plan.pop(0)
                assert [len(content)] == list(batch_size), (content, batch_size)
                idx = torch.tensor(content, dtype=torch.long)
                return TensorDict({"locs": world.pool["locs"][idx].clone()}, batch_size=batch_size)

        class StubPolicy(nn.Module):
            """row-wise and deterministic: the reward of the fixed tour world.tours[tid] computed by the real env"""

            def __init__(self, tid=0):
                super().__init__()
                self.w = nn.Parameter(torch.zeros(1))
                self.log = []
                self.tid = tid

            def forward(self, td, env=None, phase=None, decode_type=None, **kw):
                B = td["locs"].shape[0]
                self.log.append([identify("locs", td["locs"][r], world.pool) for r in range(B)])
                actions = torch.tensor(world.tours[self.tid], dtype=torch.long)[None].expand(B, 5)
                return {"reward": env.get_reward(td, actions)}

        self.PoolGen, self.StubPolicy = PoolGen, StubPolicy

    def env(self, cls):
        from rl4co.envs import TSPEnv
        D = T()["D"]
        return TSPEnv(generator=self.PoolGen(), dataset_cls=getattr(D, cls))


def rollout_spec_fail(world, content, shuffle, extra_scaled, obs):
    """property on the implementation: extra[i] = pol(instance i); pairs stay together"""
    exp = [world.table[c] for c in content]
    if extra_scaled is not None and list(extra_scaled) != exp:
        return "reward-not-aligned-with-instance", "rewards*128 %s for instances %s whose own rewards*128 are %s" % (list(extra_scaled), list(content), exp)
    if obs is not None:
        return spec_on_obs(content, [0], shuffle, exp, obs, tagmul=1)
    return None


# ------------------------------------------------------------------------------------------ histories of wrappings
HIST_SIG = "ExtraKeyDataset: extra of an earlier wrapper survives re-wrapping the same dataset"
TOURS = [(0, 1, 2, 3, 4), (0, 2, 1, 3, 4), (0, 1, 3, 2, 4), (0, 3, 1, 2, 4)]


def _loader_kw(seed):
    if seed is None:
        return {}
    g = T()["torch"].Generator()
    g.manual_seed(int(seed))
    return {"shuffle": True, "generator": g}


def _item_obs(it, einfo, pool, kid, tagmul, escale):
    """one record returned by wrapper[i] -> [(key number, tag)] in the record's own key order"""
    out = []
    for k in it.keys():
        v = it[k]
        if k == einfo["key"]:
            good = hasattr(v, "dtype") and v.dtype == einfo["dtype"] and tuple(v.shape) == tuple(einfo["shape"])
            out.append((KX, scaled(v, escale) if good else BADZ))
        else:
            c = identify(k, v, pool)
            out.append((kid.get(k, 15), c * tagmul + kid.get(k, 15) if c >= 0 else -1))
    return out


def play_events(ds, events, make_wrapper, einfo, pool, kid, tagmul, escale):
    """Runs a history on the real objects.  events: wrap / get / pass / base dicts; make_wrapper(ev) -> (wrapper, extra values
    scaled).  -> one observation per event, stopping after the first event that raises:
    {"wrap": [...]} | {"item": [(k, tag)..]} | {"batches": obs, "problems": [...]} | {"raise": text}"""
    from torch.utils.data import DataLoader
    wrappers, out = [], []
    for ev in events:
        try:
            if ev["op"] in ("wrap", "wrappol"):
                w, vals = make_wrapper(ev)
                wrappers.append(w)
                out.append({"wrap": vals})
            elif ev["op"] == "get":
                out.append({"item": _item_obs(wrappers[ev["w"]][ev["i"]], einfo, pool, kid, tagmul, escale)})
            else:
                d = wrappers[ev["w"]] if ev["op"] == "pass" else ds
                dl = DataLoader(d, batch_size=ev["b"], collate_fn=d.collate_fn, **_loader_kw(ev.get("seed")))
                obs, probs = observe_batches([x for x in dl], einfo, pool, kid, tagmul, escale)
                out.append({"batches": obs, "problems": probs})
        except Exception as e:  # noqa: BLE001 -- an exception is an observable (the model says None)
            out.append({"raise": "%s: %s" % (type(e).__name__, str(e)[:160])})
            break
    return out


def wrapper_extra(ds, w, escale):
    """the extra values the new wrapper holds, dataset order (FastGeneration: the column of the one dataset object)"""
    ex = w.extra if hasattr(w, "extra") else ds.data["extra"]
    return [scaled(v, escale) for v in ex]


def run_history(spec):
    """plain history: the same dataset object, ds.add_key("extra", tagged values) k times, reads interleaved"""
    t = T()
    torch, D = t["torch"], t["D"]
    ds = getattr(D, spec["cls"])(make_td(spec["content"], spec["keys"]))
    dt = getattr(torch, spec["dtype"])

    def make_wrapper(ev):
        ex = torch.tensor([v / 64.0 for v in ev["vals64"]], dtype=torch.float64).to(dt)
        w = ds.add_key("extra", ex)
        return w, wrapper_extra(ds, w, 64)

    return play_events(ds, spec["events"], make_wrapper, {"key": "extra", "dtype": dt, "shape": ()}, None, KID, 16, 64)


def judge_history(cls, content, kids, tagmul, events, wrap_expected, outs):
    """The property on what the implementation emitted along a history.  wrap_expected[j] = the values wrapper j must
    carry (dataset order): the extras it was given / the CURRENT baseline policy's reward of each instance.
    -> None | (unit, mechanism, detail)"""
    unit = "ExtraKeyDataset" if cls != "TensorDictDatasetFastGeneration" else "TensorDictDatasetFastGeneration.add_key"
    nw = 0
    for j, (ev, o) in enumerate(zip(events, outs)):
        if ev["op"] == "base":
            continue                      # reading the base dataset after wrapping: observation only (never judged)
        if "raise" in o:
            return unit, "history-raises", "event %d %s raises %s" % (j, {k: v for k, v in ev.items() if k != "vals64"}, o["raise"])
        if ev["op"] in ("wrap", "wrappol"):
            exp = wrap_expected[nw]
            nw += 1
            if list(o["wrap"]) != list(exp):
                return ("RolloutBaseline.wrap_dataset(%s)" % cls if ev["op"] == "wrappol" else unit,
                        "reward-not-aligned-with-instance" if ev["op"] == "wrappol" else "wrapper-holds-other-extras",
                        "event %d: wrapper %d holds %s, expected %s for instances %s" % (j, nw - 1, list(o["wrap"]), list(exp), list(content)))
            continue
        w = ev["w"] if cls != "TensorDictDatasetFastGeneration" else nw - 1      # FastGeneration: every handle is the one object
        exp = wrap_expected[w]
        if ev["op"] == "get":
            obs = [(1, [(k, [v]) for k, v in o["item"]])]
            sub = [content[ev["i"]]]
            bad = spec_on_obs(sub, kids, False, [exp[ev["i"]]], obs, tagmul)
        else:
            obs = o["batches"]
            bad = spec_on_obs(content, kids, ev.get("seed") is not None, exp, obs, tagmul)
            if bad is None and o["problems"]:
                bad = ("dtype-or-shape-changed", "; ".join(o["problems"][:3]))
        if bad is None:
            continue
        if bad[0] == "extra-not-paired-with-its-instance":
            # whose value is it?  tagged extras: the value of an EARLIER wrapper for the same instance = a survivor
            pos = {c: i for i, c in enumerate(content)}
            stale = []
            for n, cols in obs:
                d = dict(cols)
                for r in range(n):
                    tag = d[kids[0]][r]
                    c = tag // tagmul
                    e = d[KX][r]
                    if c in pos and e != exp[pos[c]]:
                        older = [w2 for w2 in range(nw) if w2 != w and wrap_expected[w2][pos[c]] == e]
                        stale.append((c, e, exp[pos[c]], older))
            if stale and all(older and min(older) < w for (_, _, _, older) in stale):
                c, e, x, older = stale[0]
                return ("ExtraKeyDataset" if unit == "ExtraKeyDataset" else unit,
                        "extra of an earlier wrapper survives re-wrapping the same dataset",
                        "event %d (%s through wrapper %d): instance %d came with %s = wrapper %d's value for it, wrapper %d's own is %s (%d of the emitted items carry an earlier wrapper's value)"
                        % (j, ev["op"], w, c, e, older[0], w, x, len(stale)))
        return unit, bad[0] + "-in-history", "event %d (%s through wrapper %d): %s" % (j, ev["op"], w, bad[1])
    return None


def history_specs(ctx):
    """k = 2..3 wrappings of one dataset object with tagged extras (unique per wrapper and position), reads in between"""
    rng = ctx.rng
    reps = 6 if ctx.tier == "quick" else 24
    specs = []
    allkeys = list(KID)
    for cls in CLASSES:
        shared = cls != "TensorDictDatasetFastGeneration"        # separate wrapper objects (an old one can still be read)
        for rep in range(reps):
            N = rng.randint(2, 7 if ctx.tier == "quick" else POOL)
            content = rng.sample(range(POOL), N)
            keys = rng.sample(allkeys, rng.randint(1, 3))
            k = 2 + rep % 2
            dt = rng.choice(["float32", "float32", "float64", "int64"])
            events = []

            def a_pass(w):
                return {"op": "pass", "w": w, "b": rng.randint(1, N + 1), "seed": rng.choice([None, rng.randint(0, 2 ** 31 - 1)])}

            for j in range(k):
                vals = [(j + 1) * 100 + 10 * i + rng.randint(0, 9) for i in range(N)]
                events.append({"op": "wrap", "vals64": [v * 64 for v in vals] if dt == "int64" else vals})
                mode = "epoch" if rep < 2 else rng.choice(["epoch", "epoch", "partial", "epoch+partial", "two-epochs", "none"])
                if j == k - 1:
                    mode = "epoch"
                if "epoch" in mode:
                    events.append(a_pass(j))
                if mode == "two-epochs":
                    events.append(a_pass(j))
                if "partial" in mode and shared:
                    for i in rng.sample(range(N), rng.randint(1, N)):
                        events.append({"op": "get", "w": j, "i": i})
                if j >= 1 and shared and rng.random() < 0.6:      # an OLDER wrapper is read again, then the current one
                    w_old = rng.randrange(j)
                    events.append(a_pass(w_old) if rng.random() < 0.5 else {"op": "get", "w": w_old, "i": rng.randrange(N)})
                    events.append(a_pass(j))
            b_part = next((b for b in range(2, N + 1) if N % b), N)      # a final partial batch where N allows one
            events.append({"op": "pass", "w": k - 1, "b": b_part, "seed": None})
            events.append({"op": "pass", "w": k - 1, "b": rng.randint(1, N + 1), "seed": rng.randint(0, 2 ** 31 - 1)})
            specs.append({"cls": cls, "content": content, "keys": keys, "dtype": dt, "events": events})
    return specs


def c_hist_case(ci, disc, tdm, idkey, content, tagmul, events, outs, tables=None):
    """-> Coq term of type hcase"""
    evs, obs = [], []
    for ev, o in zip(events, outs):
        raised = "raise" in o
        if ev["op"] == "wrap":
            evs.append("HWrap %s" % c_zlist(ev["vals64"]))
            obs.append("HOWrap %s" % c_opt(None if raised else c_zlist(o["wrap"])))
        elif ev["op"] == "wrappol":
            evs.append("HWrapPol %s %s" % (c_zlist(tables[ev["tid"] if ev.get("tid") is not None else ev["wanted_tid"]]), cnat(ev["bb"])))
            obs.append("HOWrap %s" % c_opt(None if raised else c_zlist(o["wrap"])))
        elif ev["op"] == "get":
            evs.append("HGet %s %s" % (cnat(ev["w"]), cnat(ev["i"])))
            obs.append("HOItem %s" % c_opt(None if raised else "[" + "; ".join("(%s, %s)" % (cnat(k), cz(v)) for k, v in o["item"]) + "]"))
        else:
            order = None
            if ev.get("seed") is not None:
                order = (order_from_obs(content, o["batches"], tagmul) if not raised else None) or list(range(len(content)))
            head = "HPass %s" % cnat(ev["w"]) if ev["op"] == "pass" else "HBase"
            evs.append("%s %s %s" % (head, cnat(ev["b"]), c_shuffle(order)))
            obs.append("HOBatches %s" % c_obs(None if raised else o["batches"]))
    return "HC %s %s %s %s %s [%s] [%s]" % (cnat(ci), cnat(disc), tdm, cnat(idkey), cnat(KX), "; ".join(evs), "; ".join(obs))


def rollout_history_spec(rng, world, cls, nmax):
    """RolloutBaseline on ONE training set: setup(policy 0) -> wrap_dataset -> epoch(s) -> the baseline policy is replaced
    (_update_policy / epoch_callback with a better candidate) -> wrap_dataset(the same dataset) -> epoch(s) [-> once more]"""
    while True:
        M = rng.randint(2, 5)
        content_m = rng.sample(range(POOL), M)
        sums = [sum(tb[c] for c in content_m) for tb in world.tables]
        if len(set(sums)) == len(sums):
            break
    tids = sorted(range(len(world.tours)), key=lambda i: sums[i])      # ascending mean reward: each candidate beats the incumbent
    k = rng.choice([2, 3])
    N = rng.randint(2, nmax)
    steps = []
    for j in range(k):
        passes = [{"b": rng.randint(1, N + 1), "seed": rng.choice([None, rng.randint(0, 2 ** 31 - 1)])} for _ in range(rng.choice([1, 1, 2]))]
        steps.append({"tid": tids[j], "via": None if j == 0 else rng.choice(["_update_policy", "epoch_callback"]), "passes": passes})
    return {"cls": cls, "content": rng.sample(range(POOL), N), "eval_content": content_m, "bb": rng.randint(1, N + 1), "steps": steps}


def run_rollout_history(world, spec):
    """-> (events, outs, current policy id per wrapping).  The events are what the history did to the training set's
    dataset object: wrappol (wrap_dataset under the policy that IS the baseline's at that moment) and loader passes."""
    t = T()
    torch = t["torch"]
    from rl4co.models.rl.reinforce.baselines import RolloutBaseline
    env = world.env(spec["cls"])
    bb, M, N = spec["bb"], len(spec["eval_content"]), len(spec["content"])
    einfo = {"key": "extra", "dtype": torch.float32, "shape": ()}
    bl = RolloutBaseline(bl_alpha=1.0)        # one-sided p < 1: a candidate with a better mean always replaces the incumbent
    env.generator.plan = [list(spec["eval_content"])]
    bl.setup(world.StubPolicy(spec["steps"][0]["tid"]), env, batch_size=bb, device="cpu", dataset_size=M)
    env.generator.plan = [list(spec["content"])]
    ds = env.dataset(N, phase="train")
    events, current = [], []
    state = {"j": 0}

    def make_wrapper(ev):
        st = spec["steps"][state["j"]]
        state["j"] += 1
        if st["via"] is not None:
            env.generator.plan = [list(spec["eval_content"])]
            cand = world.StubPolicy(st["tid"])
            if st["via"] == "_update_policy":
                bl._update_policy(cand, env, bb, "cpu", M)
            else:
                bl.epoch_callback(cand, env, bb, "cpu", state["j"], M)
        ev["tid"] = int(bl.policy.tid)         # the baseline policy as it IS now
        current.append(ev["tid"])
        w = bl.wrap_dataset(ds, env, batch_size=bb, device="cpu")
        return w, wrapper_extra(ds, w, 128)

    for j, st in enumerate(spec["steps"]):
        events.append({"op": "wrappol", "bb": bb, "tid": None, "via": st["via"], "wanted_tid": st["tid"]})
        for ps in st["passes"]:
            events.append({"op": "pass", "w": j, "b": ps["b"], "seed": ps["seed"]})
    outs = play_events(ds, events, make_wrapper, einfo, world.pool, {"locs": 0}, 1, 128)
    return events, outs, current


def judge_rollout_history(world, spec, events, outs):
    cur = [ev["tid"] for ev in events if ev["op"] == "wrappol" and ev["tid"] is not None]
    exp = [[world.tables[tid][c] for c in spec["content"]] for tid in cur]
    while len(exp) < len(spec["steps"]):
        exp.append([None] * len(spec["content"]))
    return judge_history(spec["cls"], spec["content"], [0], 1, events, exp, outs)


# ------------------------------------------------------------------------------------------ epoch_callback: the decision
DEC_SIG = "RolloutBaseline.epoch_callback: baseline update decision differs from (better mean and significant)"


def decision_stats(cand, bl):
    """exact (Fractions of 1/64): better-mean?, n, t^2 (None = no finite statistic), zero-variance?"""
    n = len(cand)
    better = Fraction(sum(cand), n) > Fraction(sum(bl), len(bl))
    d = [Fraction(b - c, 64) for c, b in zip(cand, bl)]          # (-cand) - (-bl)
    S, Q2 = sum(d), sum(x * x for x in d)
    den = n * Q2 - S * S
    t2 = S * S * (n - 1) / den if (n >= 2 and den != 0) else None
    return better, n, t2, (n >= 2 and den == 0)


def oracle_p(t2, df):
    """scipy's own one-sided p-value at |t| = sqrt(t2): the oracle for the model's abstract function pv"""
    from scipy.stats import t as student
    return float(student.sf(math.sqrt(float(t2)), df))


def expected_decision(spec):
    """the property: replace iff the candidate's mean is strictly better AND the one-sided paired t-test gives p < alpha.
    -> (expected: True/False/None = the statistic is undefined (n = 1), p or None, t2 or None)"""
    cand = [spec["cand_table"][c] for c in spec["eval_content"]]
    bl = [spec["bl_table"][c] for c in spec["eval_content"]]
    better, n, t2, zero_var = decision_stats(cand, bl)
    if not better:
        return False, None, t2
    if n < 2:
        return None, None, None
    if zero_var:
        return spec["alpha"] > 0, 0.0, None
    p = oracle_p(t2, n - 1)
    return p < spec["alpha"], p, t2


def decision_specs(ctx):
    """the decision table + random rows; rewards are tagged per pool instance in units of 1/64 (exact in float32), all negative
    (costs).  A row fixes the candidate-minus-incumbent difference PER POSITION of the evaluation set."""
    rng = ctx.rng
    out = []

    def add(kind, M, diff_at, alpha, a=None):
        """diff_at(position) -> candidate reward - incumbent reward (*64) at that position of the evaluation set"""
        a = a or [-(320 + rng.randint(0, 63)) for _ in range(POOL)]
        content = rng.sample(range(POOL), M)
        b = [x + rng.randint(-8, 8) for x in a]                # instances outside the evaluation set: anything
        for pos, c in enumerate(content):
            b[c] = a[c] + diff_at(pos)
        spec = {"kind_row": kind, "cls": rng.choice(CLASSES), "eval_content": content, "fresh_content": rng.sample(range(POOL), M),
                "train_content": rng.sample(range(POOL), rng.randint(2, 6)), "bb": rng.randint(1, M + 1),
                "bl_table": a, "cand_table": b, "alpha": alpha}
        exp, p, t2 = expected_decision(spec)
        if p is not None and t2 is not None and abs(p - alpha) < 1e-4:
            return None                        # too close to the threshold for float32 p-values: not a decidable row
        out.append(spec)
        return spec

    reps = 2 if ctx.tier == "quick" else 6
    for _ in range(reps):
        M = rng.randint(4, 6)
        jit = [rng.randint(0, 8) for _ in range(POOL)]
        add("clearly-better", M, lambda q: 64 + jit[q], 0.05)                              # t ~ -50: p ~ 1e-6
        add("clearly-worse", M, lambda q: -64 - jit[q], 0.05)
        add("better-not-significant", 4, lambda q: (128 if q % 2 == 0 else -100) + jit[q] % 3, 0.05)    # mean +14, sd ~ 130: p ~ 0.4
        add("equal-identical", rng.randint(2, 5), lambda q: 0, 0.05)
        add("equal-means-different-vectors", 4, lambda q: (16, -16, 40, -40)[q], 0.05)
        add("n=2-significant", 2, lambda q: (64, 68)[q], 0.05)                             # t = -33, one-sided p = 0.0096
        add("n=2-not-significant", 2, lambda q: (64, 192)[q], 0.05)                        # t = -2,  one-sided p = 0.148
        add("constant-differences", rng.randint(2, 5), lambda q: 32, 0.05)                 # zero variance: t = -inf, p = 0
        add("constant-differences-alpha-0", rng.randint(2, 5), lambda q: 32, 0.0)
        add("n=1-better", 1, lambda q: 64, 0.05)                                           # nan statistic: the assert fails
        add("n=1-worse", 1, lambda q: -64, 0.05)
    n_rand = 10 if ctx.tier == "quick" else 60
    tries = 0
    while n_rand > 0 and tries < 1000:
        tries += 1
        amp = rng.choice([4, 16, 64])
        off = rng.choice([0, 0, 8, 24])
        ds = [rng.randint(-amp, amp) + off for _ in range(POOL)]
        base = add("random", rng.randint(2, 6), lambda q: ds[q], rng.choice([0.01, 0.05, 0.2, 0.5]))
        if base is None:
            continue
        n_rand -= 1
        # the same row shifted and scaled (exact: powers of two, still negative): the decision must not change
        # (C17_update_shift_invariant / C17_update_scale_invariant)
        k, c = rng.choice([2, 4]), 64 * rng.randint(-3, 0)
        v = dict(base, kind_row="random-shifted-scaled", bl_table=[k * x + c for x in base["bl_table"]],
                 cand_table=[k * x + c for x in base["cand_table"]])
        e2 = expected_decision(v)
        assert e2[0] == expected_decision(base)[0]
        if e2[1] is None or e2[2] is None or abs(e2[1] - v["alpha"]) >= 1e-4:
            out.append(v)
    return out


def run_decision_case(world, spec):
    """drives the REAL RolloutBaseline: setup(incumbent) -> epoch_callback(candidate) -> wrap_dataset(training set)"""
    t = T()
    torch = t["torch"]
    import torch.nn as nn
    from torch.utils.data import DataLoader
    from rl4co.models.rl.reinforce.baselines import RolloutBaseline

    class TablePolicy(nn.Module):
        """row-wise: the reward of an instance is looked up by the instance's identity"""

        def __init__(self, tag, table):
            super().__init__()
            self.w = nn.Parameter(torch.zeros(1))
            self.tag, self.table = tag, list(table)

        def forward(self, td, env=None, phase=None, decode_type=None, **kw):
            ids = [identify("locs", td["locs"][r], world.pool) for r in range(td["locs"].shape[0])]
            return {"reward": torch.tensor([self.table[i] / 64.0 for i in ids], dtype=torch.float32)}

    def ids_of(ds):
        return [identify("locs", b["locs"][r], world.pool) for b in DataLoader(ds, batch_size=3, collate_fn=ds.collate_fn)
                for r in range(b["locs"].shape[0])]

    env = world.env(spec["cls"])
    M, bb = len(spec["eval_content"]), spec["bb"]
    res = {"error": None}
    bl = RolloutBaseline(bl_alpha=spec["alpha"])
    env.generator.plan = [list(spec["eval_content"])]
    bl.setup(TablePolicy("incumbent", spec["bl_table"]), env, batch_size=bb, device="cpu", dataset_size=M)
    res["before"] = {"bl_vals_x64": [scaled(v, 64) for v in bl.bl_vals.tolist()], "mean": float(bl.mean), "dataset_ids": ids_of(bl.dataset)}
    ds_before = bl.dataset
    env.generator.plan = [list(spec["fresh_content"])]
    try:
        bl.epoch_callback(TablePolicy("candidate", spec["cand_table"]), env, bb, "cpu", 1, M)
    except Exception as e:  # noqa: BLE001
        res["error"] = "%s: %s" % (type(e).__name__, str(e)[:120])
    res["replaced"] = None if res["error"] else (bl.policy.tag == "candidate")
    res["after"] = {"policy": bl.policy.tag, "bl_vals_x64": [scaled(v, 64) for v in bl.bl_vals.tolist()], "mean": float(bl.mean),
                    "dataset_ids": ids_of(bl.dataset), "same_dataset_object": bl.dataset is ds_before,
                    "fresh_set_generated": len(env.generator.plan) == 0}
    if res["error"] is None:
        env.generator.plan = [list(spec["train_content"])]
        tr = env.dataset(len(spec["train_content"]), phase="train")
        w = bl.wrap_dataset(tr, env, batch_size=bb, device="cpu")
        res["next_wrap_extra_x64"] = wrapper_extra(tr, w, 64)
    return res


def judge_decision(spec, res):
    """-> None | (unit, mechanism, detail)"""
    exp, p, t2 = expected_decision(spec)
    unit = "RolloutBaseline.epoch_callback"
    row = "%s row, n=%d, alpha=%s, incumbent %s, candidate %s (rewards*64 on the evaluation set), one-sided p=%s" % (
        spec["kind_row"], len(spec["eval_content"]), spec["alpha"], [spec["bl_table"][c] for c in spec["eval_content"]],
        [spec["cand_table"][c] for c in spec["eval_content"]], p)
    if exp is None:
        return None                            # n = 1 and a better mean: nan statistic, outside the decision's domain (correspondence only)
    if res["error"] is not None:
        return unit, "raises on a decidable challenge", "%s: %s" % (row, res["error"])
    if res["replaced"] != exp:
        return unit, "baseline update decision differs from (better mean and significant)", \
            "%s: expected %s, the baseline policy was %s" % (row, "REPLACED" if exp else "KEPT", "replaced" if res["replaced"] else "kept")
    a = res["after"]
    cur = spec["cand_table"] if res["replaced"] else spec["bl_table"]
    want_ids = spec["fresh_content"] if res["replaced"] else spec["eval_content"]
    want_vals = [cur[c] for c in want_ids]
    want_mean = sum(want_vals) / 64.0 / len(want_vals)
    if a["dataset_ids"] != list(want_ids) or a["bl_vals_x64"] != want_vals or abs(a["mean"] - want_mean) > 1e-5 * max(1.0, abs(want_mean)) \
            or a["same_dataset_object"] == res["replaced"]:
        return unit, "stored baseline values are not the current policy's on the stored evaluation set", \
            "%s: after the callback (%s) the baseline holds dataset %s, bl_vals*64 %s, mean %s; expected dataset %s, bl_vals*64 %s, mean %s" % (
                row, "replaced" if res["replaced"] else "kept", a["dataset_ids"], a["bl_vals_x64"], a["mean"], list(want_ids), want_vals, want_mean)
    want_extra = [cur[c] for c in spec["train_content"]]
    if res["next_wrap_extra_x64"] != want_extra:
        return "RolloutBaseline.wrap_dataset(%s)" % spec["cls"], "reward-not-aligned-with-instance", \
            "%s: the training set wrapped after the callback carries %s, the current policy's values are %s" % (row, res["next_wrap_extra_x64"], want_extra)
    return None


def c_dec_case(spec, res):
    cand = [Fraction(spec["cand_table"][c], 64) for c in spec["eval_content"]]
    bl = [Fraction(spec["bl_table"][c], 64) for c in spec["eval_content"]]
    _, n, t2, _ = decision_stats([spec["cand_table"][c] for c in spec["eval_content"]], [spec["bl_table"][c] for c in spec["eval_content"]])
    p = oracle_p(t2, n - 1) if t2 is not None else 0.0
    ql = lambda xs: "[" + "; ".join(cq(x) for x in xs) + "]"
    obs = "None" if res["error"] is not None else "(Some %s)" % ("true" if res["replaced"] else "false")
    return "DC %s %s %s %s %s %s" % (ql(cand), ql(bl), cq(Fraction(spec["alpha"])), c_opt(None if t2 is None else cq(t2)), cq(Fraction(p)), obs), \
        (None if t2 is None else (n - 1, t2, p))


def run(ctx: Ctx, proofs_ok: bool):
    import logging
    logging.getLogger("rl4co").setLevel(logging.ERROR)      # 'val_file not set. Generating dataset instead' x N
    t = T()
    torch = t["torch"]
    from torch.utils.data import DataLoader
    rng = ctx.rng
    torch.manual_seed(rng.randint(0, 2 ** 31 - 1))
    ctx.rule = ("EXHAUSTIVE over (N, class, b, shuffle off/on, extra off/on) within bounds; instance contents, key subsets, extra values and "
                "permutations sampled.  N = 1..7 (thorough 1..8) distinct tagged instances (random subset/order of 8 contents; 1..5 keys "
                "of dtypes float32[3,2], int64[], bool[3], float16[1,2], int32[2,1,1] in random key order) x 3 dataset classes x "
                "batch sizes 1..N+1 x sequential/shuffled (seeded generator; observed order = permutation oracle) x extra key off/on "
                "(float32/float64/int64), + wrong-length extras, N = 0, b = 0.  RolloutBaseline: real TSPEnv(5 nodes, integral point sets), "
                "stub row-wise policy, evaluation batch sizes 1..N+1, training batch sizes 1..N+1, shuffle off/on; setup/_update_policy; "
                "REINFORCE.setup/on_train_epoch_end/train_dataloader.  HISTORIES: one dataset object of each class wrapped k = 2..3 times "
                "(add_key with extras tagged uniquely per wrapper and position; real RolloutBaseline with 4 stub policies whose rewards differ on "
                "every instance: setup -> wrap_dataset -> epoch(s) -> _update_policy / epoch_callback -> wrap_dataset of the SAME dataset -> epoch(s)), "
                "reads interleaved (loaders b = 1..N+1, sequential/shuffled, final partial batch, single items, older wrappers), whole trace "
                "compared with the store model.  DECISION TABLE: real epoch_callback with table policies (rewards k/64 per pool instance, all "
                "negative), 11 designed rows x 2 + 10 random rows + their shifted/scaled twins, n = 1..6, alpha in {0, .01, .05, .2, .5}, rows "
                "within 1e-4 of the threshold rejected.  non-trivial = N >= 2 and (>= 2 batches or shuffled or extra key)")
    ctx.assumptions += [
        "torch DataLoader contract (K3, trusted, observed): SequentialSampler = 0..n-1, RandomSampler = a permutation, BatchSampler(drop_last=False) = consecutive chunks; num_workers = 0 only (workers > 0 NOT exercised)",
        "the baseline policy acts row by row (Section hypothesis polB_rowwise, shared with C14); the stub policy of the harness satisfies it by construction",
        "torch.stack / tensor and TensorDict indexing return the same slices with the same dtype and shape (torch semantics; checked on the implementation side by bit-exact identification of every emitted slice)",
        "TensorDicts with one batch dimension and tensor leaves (what env.generator produces); nested TensorDicts / non-tensor data not modelled",
    ]
    ctx.trusted.append("torch.utils.data.DataLoader / samplers (modelled as a contract: chunks of the sampler's index stream), single-process loading only")

    failures = []      # (signature, replay_obj)

    def report(unit, mech, detail, replay_obj):
        replay_obj = dict(replay_obj)
        replay_obj.update({"unit": unit, "what": "%s -- %s" % (mech, detail)})
        failures.append(("%s: %s" % (unit, mech), replay_obj))

    # ================================================================== 1. dataset classes x loader
    specs = loader_specs(ctx)
    cases, metas = [], []
    for spec in specs:
        res = run_loader_case(spec)
        term, kids = loader_case_term(spec, res)
        cases.append(term)
        metas.append((spec, res))
        N = len(spec["content"])
        nb = len(res["obs"]) if res["obs"] is not None else 0
        ctx.seen({"l": spec}, nontrivial=(spec["kind"] == "main" and N >= 2 and (nb >= 2 or spec["shuffle_seed"] is not None or spec["extra"] is not None)))
        ctx.count("loader_cases_" + spec["kind"])
        ctx.count("loader_cases_%s" % spec["cls"])
        if spec["kind"] == "main":
            ctx.count("loader_N=%d" % N)
            ctx.count("loader_shuffled" if spec["shuffle_seed"] is not None else "loader_sequential")
            ctx.count("loader_with_extra" if spec["extra"] is not None else "loader_without_extra")
            if N % spec["b"] != 0 and spec["b"] <= N:
                ctx.count("loader_final_partial_batch")
            # ---- spec-on-impl: the property itself on the implementation's output
            ev = None if spec["extra"] is None else spec["extra"]["vals64"]
            robj = {"kind": "loader", "spec": spec, "observed": res["obs"], "error": res["error"]}
            if res["obs"] is None:
                report(unit_name(spec), "reading-back-raises", res["error"], robj)
            else:
                bad = spec_on_obs(spec["content"], kids, spec["shuffle_seed"] is not None, ev, res["obs"])
                if bad is None and res["problems"]:
                    bad = ("dtype-or-shape-changed", "; ".join(res["problems"][:3]))
                if bad is not None:
                    report(unit_name(spec), bad[0], bad[1], robj)
        if len(ctx.samples) < 3 and spec["kind"] == "main" and N == 5 and spec["b"] == 2 and spec["extra"] is not None and spec["shuffle_seed"] is not None:
            ctx.sample({"unit": unit_name(spec), "spec": spec, "emitted_tags(content*16+key)": res["obs"]})
    try:
        codes = coq_eval_shards("cases_C17_load", HEADER, "lcase", "check_load", cases, shard=80)
    except RuntimeError as e:
        codes = None
        ctx.broken.append("correspondence C17/loader could not be evaluated: %s" % str(e)[-600:])
    if codes is not None:
        nz = [(i, c) for i, c in enumerate(codes) if c != 0]
        ctx.units["datasets x DataLoader"] = {"cases": len(codes), "disagreements": len(nz),
                                              "exceptions_agreed": sum(1 for (s, r) in metas if r["obs"] is None)}
        if nz:
            i, c = nz[0]
            spec, res = metas[i]
            ctx.broken.append("correspondence C17/loader: model and implementation differ on %d case(s); first: code %d "
                              "(100*batch + 1 size/2 keys/3 column/4 count; 5 model-raises-impl-returns; 6 impl-raises: %s; 9002 emitted order is not a permutation) spec=%s observed=%s"
                              % (len(nz), c, res["error"], spec, res["obs"]))

    # ================================================================== 2. RolloutBaseline on a real env
    from rl4co.models.rl.reinforce.baselines import RolloutBaseline
    world = World(rng)
    nmax = 7 if ctx.tier == "quick" else 8
    ucases, umetas, rcases, rmetas = [], [], [], []
    table_term = c_zlist(world.table)

    def seq_pass(ds, n):
        out = [x for x in DataLoader(ds, batch_size=max(n, 1), collate_fn=ds.collate_fn)]
        return out

    for cls in CLASSES:
        ci = CLASSES.index(cls)
        env = world.env(cls)
        for N in range(1, nmax + 1):
            for bb in range(1, N + 2):
                # ---- setup / _update_policy: bl_vals over the baseline's own dataset (env.dataset)
                M = rng.randint(1, nmax)
                content_m = rng.sample(range(POOL), M)
                env.generator.plan = [content_m]
                bl = RolloutBaseline()
                pol = world.StubPolicy()
                err = None
                try:
                    bl.setup(pol, env, batch_size=bb, device="cpu", dataset_size=M)
                    calls = [list(x) for x in bl.policy.log]
                    vals = [scaled(v, 128) for v in bl.bl_vals.tolist()]
                    if str(bl.bl_vals.dtype) != "float32":
                        vals = None
                        err = "bl_vals dtype %s" % bl.bl_vals.dtype
                except Exception as e:  # noqa: BLE001
                    calls, vals, err = [], None, "%s: %s" % (type(e).__name__, str(e)[:160])
                tdm = c_td(M, [(0, content_m)])
                ucases.append("UC %s %s %s %s %s %s %s" % (cnat(ci), tdm, cnat(0), table_term, cnat(bb),
                                                          "[" + "; ".join(c_zlist(c) for c in calls) + "]",
                                                          c_opt(None if vals is None else c_zlist(vals))))
                umetas.append({"cls": cls, "content": content_m, "bb": bb, "calls": calls, "vals": vals, "error": err})
                ctx.seen({"u": [cls, content_m, bb]}, nontrivial=M >= 2)
                ctx.count("rollout_update_policy_cases")
                robj = {"kind": "update_policy", "cls": cls, "content": content_m, "bb": bb, "pool_points": world.insts,
                        "table_reward_x128": world.table, "observed_bl_vals_x128": vals, "error": err}
                if vals is None:
                    report("RolloutBaseline._update_policy(%s)" % cls, "raises-or-wrong-dtype", err, robj)
                else:
                    bad = rollout_spec_fail(world, content_m, False, vals, None)
                    if bad:
                        report("RolloutBaseline._update_policy(%s)" % cls, bad[0], bad[1], robj)
                if err is not None:
                    continue
                # ---- wrap_dataset on a fresh training set, then loaders of every batch size
                content = rng.sample(range(POOL), N)
                env.generator.plan = [content]
                ds = env.dataset(N, phase="train")
                bl.policy.log.clear()
                werr, w, extra_sc, wcalls = None, None, None, []
                try:
                    w = bl.wrap_dataset(ds, env, batch_size=bb, device="cpu")
                    wcalls = [list(x) for x in bl.policy.log]
                    fo, fp = observe_batches(seq_pass(w, N), {"key": "extra", "dtype": torch.float32, "shape": ()}, world.pool, {"locs": 0}, 1, 128)
                    extra_sc = [v for _, cols in fo for k, col in cols if k == KX for v in col]
                    if fp:
                        werr = "; ".join(fp[:2])
                except Exception as e:  # noqa: BLE001
                    werr = "%s: %s" % (type(e).__name__, str(e)[:160])
                tdn = c_td(N, [(0, content)])
                for b in range(1, N + 2):
                    for sh in (False, True):
                        obs, order, lerr = None, None, werr
                        seed = rng.randint(0, 2 ** 31 - 1) if sh else None
                        if w is not None and werr is None:
                            try:
                                kw = {}
                                if sh:
                                    g = torch.Generator()
                                    g.manual_seed(seed)
                                    kw = {"shuffle": True, "generator": g}
                                dl = DataLoader(w, batch_size=b, collate_fn=w.collate_fn, **kw)
                                obs, probs = observe_batches([x for x in dl], {"key": "extra", "dtype": torch.float32, "shape": ()},
                                                             world.pool, {"locs": 0}, 1, 128)
                                if probs:
                                    lerr = "; ".join(probs[:2])
                            except Exception as e:  # noqa: BLE001
                                lerr = "%s: %s" % (type(e).__name__, str(e)[:160])
                        if sh:
                            order = order_from_obs(content, obs, tagmul=1) if obs is not None else list(range(N))
                        rcases.append("RC %s %s %s %s %s %s %s %s %s %s %s" % (
                            cnat(ci), tdn, cnat(0), table_term, cnat(KX), cnat(bb), cnat(b), c_shuffle(order),
                            "[" + "; ".join(c_zlist(c) for c in wcalls) + "]",
                            c_opt(None if extra_sc is None else c_zlist(extra_sc)), c_obs(obs)))
                        meta = {"path": "wrap_dataset", "cls": cls, "content": content, "bb": bb, "b": b, "shuffle_seed": seed,
                                "calls": wcalls, "extra_x128": extra_sc, "observed": obs, "error": lerr}
                        rmetas.append(meta)
                        ctx.seen({"r": [cls, content, bb, b, seed]}, nontrivial=N >= 2)
                        ctx.count("rollout_wrap_loader_cases")
                        ctx.count("rollout_eval_batches_partial" if N % bb and bb <= N else "rollout_eval_batches_even")
                        robj = dict(meta, kind="wrap_dataset", pool_points=world.insts, table_reward_x128=world.table)
                        unit = "RolloutBaseline.wrap_dataset(%s)" % cls
                        if obs is None or extra_sc is None:
                            report(unit, "raises-or-wrong-dtype", lerr, robj)
                        else:
                            bad = rollout_spec_fail(world, content, sh, extra_sc, obs)
                            if bad:
                                report(unit, bad[0], bad[1], robj)
                        if len(ctx.samples) < 5 and N == 5 and bb == 2 and b == 3 and sh:
                            ctx.sample({"unit": unit, "dataset_instances(pool ids)": content, "reward_x128_per_pool_id": world.table,
                                        "policy_saw": wcalls, "extra_x128": extra_sc, "emitted(locs id / extra x128)": obs})

    # ---- REINFORCE module: setup, on_train_epoch_end (wrap_dataset), train_dataloader (dataloader construction)
    from rl4co.models.rl import REINFORCE
    mod_cases = 0
    for cls in CLASSES:
        ci = CLASSES.index(cls)
        for sh in (False, True):
            for rep in range(2 if ctx.tier == "quick" else 4):
                N = rng.randint(2, nmax)
                b = rng.randint(1, N + 1)
                bb = rng.randint(1, N + 1)
                nv = rng.randint(1, 4)
                env = world.env(cls)
                first = rng.sample(range(POOL), N)
                content = rng.sample(range(POOL), N)
                # generator calls in order: train (setup), val, test, baseline eval set, then the next epoch's train set
                env.generator.plan = [first, rng.sample(range(POOL), nv), rng.sample(range(POOL), 2), rng.sample(range(POOL), nv), content]
                meta = {"path": "REINFORCE", "cls": cls, "content": content, "bb": bb, "b": b, "shuffle": sh}
                obs, order, extra_sc, wcalls, err = None, None, None, [], None
                try:
                    m = REINFORCE(env, world.StubPolicy(), baseline="rollout", batch_size=b, val_batch_size=bb, train_data_size=N,
                                  val_data_size=nv, test_data_size=2, shuffle_train_dataloader=sh, generate_default_data=False,
                                  dataloader_num_workers=0)
                    m.setup("fit")
                    m.trainer = types.SimpleNamespace(max_epochs=3, current_epoch=0)
                    m.on_train_epoch_end()           # warm-up over (alpha = 1): the new training set is wrapped with the rollout values
                    k = -(-N // bb)
                    wcalls = [list(x) for x in m.baseline.baseline.policy.log[-k:]]
                    w = m.train_dataset
                    fo, _ = observe_batches(seq_pass(w, N), {"key": "extra", "dtype": torch.float32, "shape": ()}, world.pool, {"locs": 0}, 1, 128)
                    extra_sc = [v for _, cols in fo for kk, col in cols if kk == KX for v in col]
                    torch.manual_seed(rng.randint(0, 2 ** 31 - 1))
                    obs, probs = observe_batches([x for x in m.train_dataloader()], {"key": "extra", "dtype": torch.float32, "shape": ()},
                                                 world.pool, {"locs": 0}, 1, 128)
                    if probs:
                        err = "; ".join(probs[:2])
                except Exception as e:  # noqa: BLE001
                    err = "%s: %s" % (type(e).__name__, str(e)[:200])
                    obs = None
                if sh:
                    order = order_from_obs(content, obs, tagmul=1) if obs is not None else list(range(N))
                rcases.append("RC %s %s %s %s %s %s %s %s %s %s %s" % (
                    cnat(ci), c_td(N, [(0, content)]), cnat(0), table_term, cnat(KX), cnat(bb), cnat(b), c_shuffle(order),
                    "[" + "; ".join(c_zlist(c) for c in wcalls) + "]",
                    c_opt(None if not extra_sc else c_zlist(extra_sc)), c_obs(obs)))
                meta.update({"calls": wcalls, "extra_x128": extra_sc, "observed": obs, "error": err})
                rmetas.append(meta)
                mod_cases += 1
                ctx.seen({"m": [cls, content, bb, b, sh, rep]}, nontrivial=True)
                ctx.count("reinforce_module_cases")
                robj = dict(meta, kind="reinforce_module", pool_points=world.insts, table_reward_x128=world.table)
                unit = "REINFORCE.on_train_epoch_end+train_dataloader(%s)" % cls
                if obs is None or not extra_sc:
                    report(unit, "raises-or-not-wrapped", err, robj)
                else:
                    bad = rollout_spec_fail(world, content, sh, extra_sc, obs)
                    if bad:
                        report(unit, bad[0], bad[1], robj)

    # ================================================================== 2b. histories of wrappings of ONE dataset object
    hcases, hcases_sd, hmetas = [], [], []      # _sd: the same cases against the setdefault discipline (diagnosis only)
    for spec in history_specs(ctx):
        outs = run_history(spec)
        kids = [KID[k] for k in spec["keys"]]
        evs = spec["events"][:len(outs)]
        tdm = c_td(len(spec["content"]), [(KID[k], [c * 16 + KID[k] for c in spec["content"]]) for k in spec["keys"]])
        hcases.append(c_hist_case(CLASSES.index(spec["cls"]), 0, tdm, kids[0], spec["content"], 16, evs, outs))
        hcases_sd.append(c_hist_case(CLASSES.index(spec["cls"]), 1, tdm, kids[0], spec["content"], 16, evs, outs))
        hmetas.append({"kind": "history", "spec": spec, "observed": outs})
        nwr = sum(1 for e in spec["events"] if e["op"] == "wrap")
        ctx.seen({"h": spec}, nontrivial=True)
        ctx.count("history_cases_%s" % spec["cls"])
        ctx.count("history_wrappings=%d" % nwr)
        ctx.count("history_loader_passes", sum(1 for e in spec["events"] if e["op"] == "pass"))
        ctx.count("history_single_reads", sum(1 for e in spec["events"] if e["op"] == "get"))
        seen_w, older = -1, 0
        for e in spec["events"]:
            if e["op"] == "wrap":
                seen_w += 1
            elif e["w"] < seen_w:
                older += 1
        ctx.count("history_reads_through_an_older_wrapper", older)
        wexp = [e["vals64"] for e in spec["events"] if e["op"] == "wrap"]
        bad = judge_history(spec["cls"], spec["content"], kids, 16, evs, wexp, outs)
        if bad:
            report(bad[0], bad[1], bad[2], {"kind": "history", "spec": spec, "observed": outs})
        if spec["cls"] == "TensorDictDataset" and nwr == 3 and sum(1 for m in hmetas if m["kind"] == "history") <= 6 and len(ctx.samples) < 7:
            ctx.sample({"unit": "history of wrappings (TensorDictDataset)", "spec": spec, "observed per event": outs})

    hworld = World(rng, tours=TOURS)
    htables = hworld.tables
    not_replaced = 0
    for cls in CLASSES:
        for rep in range(3 if ctx.tier == "quick" else 10):
            spec = rollout_history_spec(rng, hworld, cls, nmax)
            try:
                evs, outs, current = run_rollout_history(hworld, spec)
                err = None
            except Exception as e:  # noqa: BLE001 -- setup itself failed
                evs, outs, current, err = [], [], [], "%s: %s" % (type(e).__name__, str(e)[:200])
            robj = {"kind": "rollout_history", "spec": spec, "pool_points": hworld.insts, "tours": [list(x) for x in hworld.tours],
                    "tables_reward_x128": htables, "events": evs, "observed": outs, "error": err}
            ctx.seen({"rh": spec}, nontrivial=True)
            ctx.count("rollout_history_cases_%s" % cls)
            ctx.count("rollout_history_wrappings=%d" % len(spec["steps"]))
            for st in spec["steps"][1:]:
                ctx.count("rollout_history_policy_replaced_via_%s" % st["via"])
            unit = "RolloutBaseline.wrap_dataset(%s)" % cls
            if err is not None:
                report(unit, "history-raises", err, robj)
                continue
            not_replaced += sum(1 for st, tid in zip(spec["steps"], current) if st["tid"] != tid)
            evs = evs[:len(outs)]
            tdn = c_td(len(spec["content"]), [(0, spec["content"])])
            hcases.append(c_hist_case(CLASSES.index(cls), 0, tdn, 0, spec["content"], 1, evs, outs, htables))
            hcases_sd.append(c_hist_case(CLASSES.index(cls), 1, tdn, 0, spec["content"], 1, evs, outs, htables))
            hmetas.append(robj)
            bad = judge_rollout_history(hworld, spec, evs, outs)
            if bad:
                report(bad[0], bad[1], bad[2], robj)
            if cls == "TensorDictDataset" and rep == 0:
                ctx.sample({"unit": "RolloutBaseline history (TensorDictDataset)", "spec": spec, "reward_x128_per_policy_and_pool_id": htables,
                            "events": evs, "observed per event (locs id / extra x128)": outs})
    if not_replaced:
        ctx.notes.append("C17 histories: %d time(s) the baseline policy was NOT replaced although the candidate's mean reward was better "
                         "(bl_alpha = 1); the histories were judged against the policy the baseline actually held" % not_replaced)
    try:
        codes = coq_eval_shards("cases_C17_hist", HEADER, "hcase", "check_hist", hcases, shard=16)
    except RuntimeError as e:
        codes = None
        ctx.broken.append("correspondence C17/histories could not be evaluated: %s" % str(e)[-600:])
    if codes is not None:
        nz = [(i, c) for i, c in enumerate(codes) if c != 0]
        ctx.units["histories of wrappings of one dataset object (store model, Data/DatasetStore.v)"] = {
            "cases": len(codes), "plain add_key histories": sum(1 for m in hmetas if m["kind"] == "history"),
            "RolloutBaseline histories": sum(1 for m in hmetas if m["kind"] == "rollout_history"), "disagreements": len(nz)}
        if nz:
            i, c = nz[0]
            m = hmetas[i]
            diag = ""
            try:       # does the implementation now behave like the discipline refuted in C17_store_setdefault_refuted?
                sd = coq_eval_shards("cases_C17_hist_sd", HEADER, "hcase", "check_hist", [hcases_sd[j] for j, _ in nz], shard=16)
                diag = "; %d of the %d disagreeing histories AGREE with the setdefault discipline (C17_store_setdefault_refuted)" % (sum(1 for x in sd if x == 0), len(nz))
            except RuntimeError:
                pass
            ctx.broken.append("correspondence C17/histories: store model and implementation differ on %d case(s)%s; first: code %d "
                              "(100000*event + 12 wrapper's extras / 20+k single item / 100*batch+k emitted batch / 5,6 raise mismatch / 7 length / 8 kind; 9002 order not a permutation) %s"
                              % (len(nz), diag, c, {k: v for k, v in m.items() if k in ("kind", "spec", "events")}))

    # ================================================================== 2c. epoch_callback: the decision table
    dcases, dmetas, pts = [], [], []
    for spec in decision_specs(ctx):
        try:
            res = run_decision_case(hworld, spec)
        except Exception as e:  # noqa: BLE001 -- setup or the next wrap failed
            res = {"error": "%s: %s" % (type(e).__name__, str(e)[:200]), "replaced": None, "after": None, "outside_callback": True}
        exp, p, t2 = expected_decision(spec)
        robj = {"kind": "decision", "spec": spec, "pool_points": hworld.insts, "tours": [list(x) for x in hworld.tours],
                "expected_replaced": exp, "oracle_one_sided_p": p, "t_squared": None if t2 is None else str(t2), "observed": res}
        ctx.seen({"d": spec}, nontrivial=len(spec["eval_content"]) >= 2)
        ctx.count("decision_rows_%s" % spec["kind_row"])
        ctx.count("decision_expected_%s" % {True: "replace", False: "keep", None: "undefined(n=1)"}[exp])
        if res.get("outside_callback"):
            report("RolloutBaseline.epoch_callback", "setup-or-next-wrap-raises", res["error"], robj)
            continue
        term, pt = c_dec_case(spec, res)
        dcases.append(term)
        dmetas.append(robj)
        if pt is not None:
            pts.append(pt)
        bad = judge_decision(spec, res)
        if bad:
            report(bad[0], bad[1], bad[2], robj)
        if spec["kind_row"] in ("clearly-better", "better-not-significant", "n=2-not-significant") and sum(1 for x in ctx.samples if x.get("unit") == "epoch_callback decision") < 3:
            ctx.sample({"unit": "epoch_callback decision", "spec": spec, "expected_replaced": exp, "oracle_p": p, "observed": res})
    try:
        codes = coq_eval_shards("cases_C17_dec", HEADER_UPD, "dcase", "check_decision", dcases, shard=200)
        uniq = sorted(set((df, t2, p) for df, t2, p in pts))
        mono = coq_eval_shards("cases_C17_pmono", HEADER_UPD, "list (nat * Q * Q)", "check_pmono",
                               ["[" + "; ".join("(%s, %s, %s)" % (cnat(df), cq(t2), cq(Fraction(p))) for df, t2, p in uniq) + "]"])
    except RuntimeError as e:
        codes = None
        ctx.broken.append("correspondence C17/epoch_callback decision could not be evaluated: %s" % str(e)[-600:])
    if codes is not None:
        nz = [(i, c) for i, c in enumerate(codes) if c != 0]
        ctx.units["RolloutBaseline.epoch_callback decision (Data/BaselineUpdate.v)"] = {
            "cases": len(codes), "disagreements": len(nz), "oracle points (df, t^2, p) checked monotone": len(uniq),
            "monotonicity violations among the sampled points": mono[0]}
        if mono[0] != 0:
            ctx.broken.append("assumption C17/pv_mono: scipy's one-sided p-value is not monotone decreasing in t^2 on %d sampled pair(s)" % mono[0])
        if nz:
            i, c = nz[0]
            ctx.broken.append("correspondence C17/epoch_callback decision: model and implementation differ on %d case(s); first: code %d "
                              "(1 decision differs; 3 the harness's t^2 is not the model's; 5 model raises, impl returns; 6 impl raises) %s"
                              % (len(nz), c, {k: v for k, v in dmetas[i].items() if k in ("spec", "expected_replaced", "oracle_one_sided_p", "observed")}))

    for name, fn, typ, cs, ms in (("update", "check_update", "ucase", ucases, umetas), ("rollout", "check_rollout", "rcase", rcases, rmetas)):
        try:
            codes = coq_eval_shards("cases_C17_" + name, HEADER, typ, fn, cs, shard=120)
        except RuntimeError as e:
            ctx.broken.append("correspondence C17/%s could not be evaluated: %s" % (name, str(e)[-600:]))
            continue
        nz = [(i, c) for i, c in enumerate(codes) if c != 0]
        ctx.units["RolloutBaseline." + ("setup/_update_policy" if name == "update" else "wrap_dataset + loader (+ REINFORCE module: %d)" % mod_cases)] = {
            "cases": len(codes), "disagreements": len(nz)}
        if nz:
            i, c = nz[0]
            ctx.broken.append("correspondence C17/%s: model and implementation differ on %d case(s); first: code %d "
                              "(11 batches the policy saw; 12 attached rewards; 100*batch+k emitted batch; 5/6 raise mismatch; 9002 order not a permutation) %s"
                              % (name, len(nz), c, {k: v for k, v in ms[i].items() if k != "observed"}))

    # ================================================================== 3. observations outside the property (information only)
    try:
        obs_info = observations(ctx, hworld)
    except Exception as e:  # noqa: BLE001 -- informational only: must never decide anything
        obs_info = {"error": "%s: %s" % (type(e).__name__, str(e)[:200])}
        ctx.notes.append("C17 observations (outside the property) could not be reproduced on this tree: %s" % obs_info["error"])
    ctx.units["observations (outside the property's quantifier; never reported)"] = obs_info

    # ================================================================== decision
    if (ctx.broken or not proofs_ok) and not failures:
        # the model no longer matches the code (or a proof broke): look for an input on which the PROPERTY fails, on a larger sample
        failures.extend(search_more(ctx))
    ctx.extra["spec_on_impl_failures"] = len(failures)
    seen = set()
    for sig, robj in sorted(failures, key=lambda f: (f[0], len(str(f[1])))):
        if sig in seen:
            continue
        seen.add(sig)       # smallest replay per signature
        ctx.failure(sig, robj, tag=sig.split(":")[0].split("(")[0].replace("/", "_").replace(".", "_")[:24])


def search_more(ctx):
    """larger sample, spec-on-impl only (no model): N up to 12, every class, several batch sizes and seeds"""
    rng = ctx.rng
    out = []
    allkeys = list(KID)
    for _ in range(300):
        N = rng.randint(2, POOL)
        spec = {"cls": rng.choice(CLASSES), "content": rng.sample(range(POOL), N), "keys": rng.sample(allkeys, rng.randint(1, 5)),
                "b": rng.randint(1, N + 1), "shuffle_seed": rng.choice([None, rng.randint(0, 10 ** 6)]),
                "extra": rng.choice([None, {"dtype": "float32", "vals64": [rng.randint(-512, 512) for _ in range(N)]}]), "kind": "main"}
        res = run_loader_case(spec)
        ctx.count("search_cases")
        robj = {"kind": "loader", "spec": spec, "observed": res["obs"], "error": res["error"]}
        if res["obs"] is None:
            out.append(("%s: reading-back-raises" % unit_name(spec), dict(robj, what=res["error"])))
            continue
        bad = spec_on_obs(spec["content"], [KID[k] for k in spec["keys"]], spec["shuffle_seed"] is not None,
                          None if spec["extra"] is None else spec["extra"]["vals64"], res["obs"])
        if bad:
            out.append(("%s: %s" % (unit_name(spec), bad[0]), dict(robj, what=bad[1])))
    tier = ctx.tier
    ctx.tier = "thorough"                      # the larger history sample
    try:
        hspecs = history_specs(ctx)
    finally:
        ctx.tier = tier
    for spec in hspecs:
        outs = run_history(spec)
        ctx.count("search_cases")
        bad = judge_history(spec["cls"], spec["content"], [KID[k] for k in spec["keys"]], 16, spec["events"][:len(outs)],
                            [e["vals64"] for e in spec["events"] if e["op"] == "wrap"], outs)
        if bad:
            out.append(("%s: %s" % (bad[0], bad[1]), {"kind": "history", "spec": spec, "observed": outs, "unit": bad[0],
                                                       "what": "%s -- %s" % (bad[1], bad[2])}))
    return out


def observations(ctx, world=None):
    """Behaviours of ExtraKeyDataset outside C17's quantifier (one extra key, read through a loader over a WRAPPER, whole
    epochs between wrappings), reproduced for information; the model states them as *_observation_outside_property
    lemmas.  Never reported."""
    t = T()
    torch, D = t["torch"], t["D"]
    from torch.utils.data import DataLoader
    out = {}
    content, keys = [3, 0, 6, 2], ["locs", "ids"]
    ev = [70 * 64, 71 * 64, 72 * 64, 73 * 64]

    def obs_of(ds, b, extra_keys):
        try:
            bs = [x for x in DataLoader(ds, batch_size=b, collate_fn=ds.collate_fn)]
            res = []
            for bt in bs:
                cols = []
                for k in bt.keys():
                    if k in extra_keys:
                        cols.append((extra_keys[k], [scaled(v, 64) for v in bt[k]]))
                    else:
                        cols.append((KID[k], [identify(k, bt[k][r]) * 16 + KID[k] for r in range(bt[k].shape[0])]))
                res.append((int(bt.batch_size[0]), cols))
            return res, None
        except Exception as e:  # noqa: BLE001
            return None, "%s: %s" % (type(e).__name__, str(e)[:100])

    tdm = c_td(4, [(KID[k], [c * 16 + KID[k] for c in content]) for k in keys])
    ex = torch.tensor([v / 64.0 for v in ev])
    ocases, notes = [], []
    for pre in ([0], [0, 1, 2, 3]):
        ds = D.TensorDictDataset(make_td(content, keys))
        w = ds.add_key("extra", ex)
        for i in pre:
            w[i]
        o, err = obs_of(ds, 2, {"extra": KX})
        notes.append({"after reading indices %s through the wrapper, DataLoader(base, 2)" % pre: err or "emits keys %s" % [[k for k, _ in cols] for _, cols in o]})
        ocases.append("OC %s (%s, %s) %s %s %s" % (tdm, cnat(KX), c_zlist(ev), cnatlist(pre), cnat(2), c_obs(o)))
    out["getitem-mutates-wrapped-dataset-items"] = notes
    ncases, nnotes = [], []
    e2 = [90 * 64, 91 * 64, 92 * 64, 93 * 64]
    for ci, cls in enumerate(CLASSES):
        ds = getattr(D, cls)(make_td(content, keys))
        w2 = ds.add_key("a", ex).add_key("b", torch.tensor([v / 64.0 for v in e2]))
        o, err = obs_of(w2, 4, {"a": 8, "b": KX})
        nnotes.append({cls: err or "keys emitted after add_key('a').add_key('b'): %s" % [k for k, _ in o[0][1]]})
        ncases.append("NC %s %s (%s, %s) (%s, %s) %s %s" % (cnat(ci), tdm, cnat(8), c_zlist(ev), cnat(KX), c_zlist(e2), cnat(4), c_obs(o)))
    out["nested-add_key-drops-earlier-extra-key"] = nnotes
    # (3) the records of the base dataset are written by every read through a wrapper: after wrap / epoch / re-wrap / epoch
    #     the BASE dataset emits an extra column with the latest reader's values (harmless: a later wrapper overwrites it)
    hcases, hnotes = [], []
    spec = {"cls": "TensorDictDataset", "content": content, "keys": keys, "dtype": "float32", "events": [
        {"op": "wrap", "vals64": ev}, {"op": "pass", "w": 0, "b": 3, "seed": None}, {"op": "base", "b": 4, "seed": None},
        {"op": "wrap", "vals64": e2}, {"op": "pass", "w": 1, "b": 2, "seed": None}, {"op": "base", "b": 4, "seed": None},
        {"op": "get", "w": 0, "i": 2}, {"op": "base", "b": 4, "seed": None}]}
    houts = run_history(spec)
    hcases.append(c_hist_case(0, 0, tdm, KID[keys[0]], content, 16, spec["events"][:len(houts)], houts))
    hnotes.append({"wrap / epoch / base / re-wrap / epoch / base / old_wrapper[2] / base: extra column the base dataset emits":
                   [[col for k, col in o["batches"][0][1] if k == KX] if "batches" in o else o.get("raise") for e, o in zip(spec["events"], houts) if e["op"] == "base"]})
    # (4) RolloutBaseline.wrap_dataset(ds) again after a PARTIAL pass through the previous wrapper: the rollout over the base
    #     dataset meets a first record that has the key and a later one that has not -> KeyError in collate_fn
    if world is not None:
        rspec = {"cls": "TensorDictDataset", "content": [3, 0, 6, 2], "eval_content": [1, 4], "bb": 2,
                 "steps": [{"tid": 0, "via": None, "passes": []}, {"tid": 1, "via": "_update_policy", "passes": []}]}
        t_ = T()
        from rl4co.models.rl.reinforce.baselines import RolloutBaseline
        env = world.env("TensorDictDataset")
        bl = RolloutBaseline()
        env.generator.plan = [[1, 4]]
        bl.setup(world.StubPolicy(0), env, batch_size=2, device="cpu", dataset_size=2)
        env.generator.plan = [rspec["content"]]
        ds = env.dataset(4, phase="train")
        evs2 = [{"op": "wrappol", "bb": 2, "tid": 0, "wanted_tid": 0}, {"op": "get", "w": 0, "i": 0}, {"op": "wrappol", "bb": 2, "tid": 0, "wanted_tid": 0}]

        def mk(ev_):
            w_ = bl.wrap_dataset(ds, env, batch_size=2, device="cpu")
            return w_, wrapper_extra(ds, w_, 128)

        o2 = play_events(ds, evs2, mk, {"key": "extra", "dtype": t_["torch"].float32, "shape": ()}, world.pool, {"locs": 0}, 1, 128)
        hcases.append(c_hist_case(0, 0, c_td(4, [(0, rspec["content"])]), 0, rspec["content"], 1, evs2[:len(o2)], o2, world.tables))
        hnotes.append({"wrap_dataset(ds); wrapper[0]; wrap_dataset(ds) again": o2[-1].get("raise", "returns")})
    out["base-dataset-records-carry-the-latest-readers-extra"] = hnotes
    try:
        c1 = coq_eval_shards("cases_C17_obs_alias", HEADER, "ocase", "check_obs_alias", ocases)
        c2 = coq_eval_shards("cases_C17_obs_nested", HEADER, "ncase", "check_obs_nested", ncases)
        c3 = coq_eval_shards("cases_C17_obs_hist", HEADER, "hcase", "check_hist", hcases)
        out["model_agrees"] = all(c == 0 for c in c1 + c2 + c3)
        out["codes"] = c1 + c2 + c3
    except RuntimeError as e:
        out["model_agrees"] = None
        out["error"] = str(e)[-300:]
    if out.get("model_agrees") is not True:
        ctx.notes.append("C17 observation lemmas (outside the property) no longer describe the implementation: %s" % out)
    # two further remarks seen while reading, crashes rather than mis-pairings (not modelled)
    out["remarks"] = [
        "RolloutBaseline._update_policy(..., dataset=X) ignores X (self.dataset is only assigned when dataset is None)",
        "REINFORCE(baseline='rollout_only'): RL4COLitModule.setup wraps the training set before baseline.setup -> AttributeError 'policy'",
    ]
    return out


def replay(obj):
    """./check --replay file : re-run the recorded case on the current tree, print observed vs recorded"""
    import json
    print("signature:", obj.get("signature"))
    print("what     :", obj.get("what"))
    if obj.get("kind") == "loader":
        spec = obj["spec"]
        res = run_loader_case(spec)
        kids = [KID[k] for k in spec["keys"]]
        bad = None
        if res["obs"] is not None:
            bad = spec_on_obs(spec["content"], kids, spec["shuffle_seed"] is not None,
                              None if spec["extra"] is None else spec["extra"]["vals64"], res["obs"])
        print("spec     :", json.dumps(spec))
        print("recorded :", obj.get("observed"), obj.get("error"))
        print("now      :", res["obs"], res["error"], res["problems"])
        print("property on the current tree:", "HOLDS on this case" if (bad is None and res["obs"] is not None and not res["problems"]) else "FAILS: %s" % (bad or res["error"] or res["problems"],))
        return 0
    if obj.get("kind") == "history":
        spec = obj["spec"]
        outs = run_history(spec)
        evs = spec["events"][:len(outs)]
        bad = judge_history(spec["cls"], spec["content"], [KID[k] for k in spec["keys"]], 16, evs,
                            [e["vals64"] for e in spec["events"] if e["op"] == "wrap"], outs)
        print("dataset  :", spec["cls"], "instances (content ids)", spec["content"], "keys", spec["keys"], "extra dtype", spec["dtype"])
        print("tags     : instance fields = content id * 16 + key number; extra = value * 64 (unique per wrapper and position)")
        for j, ev in enumerate(spec["events"]):
            rec = obj.get("observed", [])
            print("event %2d : %s" % (j, json.dumps(ev)))
            print("   recorded:", json.dumps(rec[j]) if j < len(rec) else "(not reached)")
            print("   now     :", json.dumps(outs[j]) if j < len(outs) else "(not reached)")
        print("property on the current tree:", "HOLDS on this case" if bad is None else "FAILS: %s: %s -- %s" % bad)
        return 0
    if obj.get("kind") == "decision" and obj.get("pool_points"):
        import logging
        logging.getLogger("rl4co").setLevel(logging.ERROR)
        world = World(insts=obj["pool_points"], tours=obj["tours"])
        spec = obj["spec"]
        exp, p, t2 = expected_decision(spec)
        print("row      :", spec["kind_row"], " class:", spec["cls"], " alpha:", spec["alpha"], " eval batch size:", spec["bb"])
        print("evaluation set (pool ids):", spec["eval_content"], " incumbent rewards*64:", [spec["bl_table"][c] for c in spec["eval_content"]],
              " candidate rewards*64:", [spec["cand_table"][c] for c in spec["eval_content"]])
        print("property : replace iff the candidate's mean is strictly better and the one-sided paired t-test gives p < alpha; here t^2 = %s, p = %s -> %s"
              % (t2, p, {True: "REPLACE", False: "KEEP", None: "undefined (n = 1)"}[exp]))
        try:
            res = run_decision_case(world, spec)
            bad = judge_decision(spec, res)
            print("recorded :", json.dumps(obj.get("observed")))
            print("now      :", json.dumps(res))
            print("property on the current tree:", "HOLDS on this case" if bad is None else "FAILS: %s: %s -- %s" % bad)
        except Exception as e:  # noqa: BLE001
            print("property on the current tree: FAILS (raises) %s: %s" % (type(e).__name__, e))
        return 0
    if obj.get("kind") == "rollout_history" and obj.get("pool_points"):
        import logging
        logging.getLogger("rl4co").setLevel(logging.ERROR)
        world = World(insts=obj["pool_points"], tours=obj["tours"])
        spec = obj["spec"]
        print("training set (pool ids):", spec["content"], " baseline evaluation set:", spec["eval_content"], " eval batch size:", spec["bb"], " class:", spec["cls"])
        print("reward*128 of each pool instance under stub policy t:", {t: tb for t, tb in enumerate(world.tables)})
        try:
            evs, outs, current = run_rollout_history(world, spec)
            bad = judge_rollout_history(world, spec, evs[:len(outs)], outs)
            rec = obj.get("observed", [])
            for j, ev in enumerate(evs):
                print("event %2d : %s" % (j, json.dumps(ev)))
                print("   recorded:", json.dumps(rec[j]) if j < len(rec) else "(not reached)")
                print("   now     :", json.dumps(outs[j]) if j < len(outs) else "(not reached)")
            print("property on the current tree:", "HOLDS on this case" if bad is None else "FAILS: %s: %s -- %s" % bad)
        except Exception as e:  # noqa: BLE001
            print("property on the current tree: FAILS (raises) %s: %s" % (type(e).__name__, e))
        return 0
    if obj.get("kind") in ("wrap_dataset", "update_policy") and obj.get("pool_points"):
        t = T()
        torch = t["torch"]
        from torch.utils.data import DataLoader
        from rl4co.models.rl.reinforce.baselines import RolloutBaseline
        import logging
        logging.getLogger("rl4co").setLevel(logging.ERROR)
        world = World(insts=obj["pool_points"])
        env = world.env(obj["cls"])
        content, bb = obj["content"], obj["bb"]
        print("dataset instances (pool ids):", content, " their own rewards*128:", [world.table[c] for c in content], " eval batch size:", bb)
        bl = RolloutBaseline()
        try:
            if obj["kind"] == "update_policy":
                env.generator.plan = [content]
                bl.setup(world.StubPolicy(), env, batch_size=bb, device="cpu", dataset_size=len(content))
                now = [scaled(v, 128) for v in bl.bl_vals.tolist()]
                print("recorded bl_vals*128:", obj.get("observed_bl_vals_x128"), obj.get("error"))
                print("now      bl_vals*128:", now)
                bad = rollout_spec_fail(world, content, False, now, None)
            else:
                env.generator.plan = [[0]]
                bl.setup(world.StubPolicy(), env, batch_size=bb, device="cpu", dataset_size=1)
                env.generator.plan = [content]
                w = bl.wrap_dataset(env.dataset(len(content), phase="train"), env, batch_size=bb, device="cpu")
                ei = {"key": "extra", "dtype": torch.float32, "shape": ()}
                fo, _ = observe_batches([x for x in DataLoader(w, batch_size=len(content), collate_fn=w.collate_fn)], ei, world.pool, {"locs": 0}, 1, 128)
                extra_sc = [v for _, cols in fo for k, col in cols if k == KX for v in col]
                kw = {}
                if obj.get("shuffle_seed") is not None:
                    g = torch.Generator()
                    g.manual_seed(int(obj["shuffle_seed"]))
                    kw = {"shuffle": True, "generator": g}
                now, probs = observe_batches([x for x in DataLoader(w, batch_size=obj["b"], collate_fn=w.collate_fn, **kw)], ei, world.pool, {"locs": 0}, 1, 128)
                print("recorded extra*128:", obj.get("extra_x128"), " emitted (locs id / extra*128):", obj.get("observed"), obj.get("error"))
                print("now      extra*128:", extra_sc, " emitted (locs id / extra*128):", now, probs)
                bad = rollout_spec_fail(world, content, obj.get("shuffle_seed") is not None, extra_sc, now) or (("dtype-or-shape", probs) if probs else None)
            print("property on the current tree:", "HOLDS on this case" if bad is None else "FAILS: %s" % (bad,))
        except Exception as e:  # noqa: BLE001
            print("property on the current tree: FAILS (raises) %s: %s" % (type(e).__name__, e))
        return 0
    print(json.dumps({k: v for k, v in obj.items() if k not in ("pool_points",)}, indent=1)[:4000])
    print("(REINFORCE-module cases are re-run by ./check C17; tags: locs id = pool instance, extra = reward*128, table_reward_x128 = each pool instance's own reward)")
    return 0
