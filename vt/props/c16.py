"""C16 -- training losses are the stated policy-gradient surrogates, with their gradients.

Proof obligations: Properties/C16.v (dual-number models of the loss code AS CODED over every ordered field and
every tangent space; theorems relate them to the reference surrogates, value and gradient).

Correspondence: the REAL Lightning modules (REINFORCE with every bundled baseline, A2C, POMO, SymNCO, PPO) are
instantiated with a tiny TSP env and stub policies / critics whose outputs are leaf tensors with dyadic float64
values; `shared_step(..., phase="train")` is run, `loss` and the autograd gradients of all leaves are recorded,
and the Coq models are evaluated at Qc on the same inputs (Harness/HC16.v) -- values and tangents must agree to
1e-9.  exp / sqrt values enter the Qc evaluation as tables of what torch returned.

Spec-on-impl (every run, exact Fractions): loss = reference surrogate recomputed from the rollout, gradients =
reference gradients, baseline values carry no gradient, shared advantages sum to zero per instance, rewards of
real policies carry no gradient, invariance loss pairs the views of one instance; the VALUE of the invariance loss on
embeddings with rational norms (Pythagorean vectors) = mean over (batch, nodes) of the summed cosine similarities with
view 0 (Coq model Train/InvLoss.v + exact Fractions); POMO training with a single start is refused."""
import math
from fractions import Fraction

from vt.common import Ctx, cq, clist, cnat, cnatlist, cbool, coq_eval_shards

HEADER = ("From Coq Require Import List ZArith QArith Bool.\nFrom RL4CO Require Import Harness.HC16.\n"
          "Import ListNotations.\nOpen Scope Q_scope.\n")
TOL = Fraction(1, 10 ** 9)


def F(x):
    return Fraction(float(x))


def cqs(xs):
    return clist(cq(F(x)) for x in xs)


def copt(x):
    return "None" if x is None else "(Some %s)" % cq(Fraction(x))


def close(a, b, tol=TOL):
    a, b = Fraction(a), Fraction(b)
    return abs(a - b) <= tol * (1 + abs(b))


def mean(xs):
    xs = list(xs)
    return sum(xs) / len(xs)


class Fail:
    """collects concrete property failures on the implementation (search results)"""

    def __init__(self):
        self.items = {}

    def add(self, sig, replay):
        size = len(str(replay))
        if sig not in self.items or size < self.items[sig][0]:
            self.items[sig] = (size, replay)


# ============================================================================================== stubs
def make_stubs(torch, nn):
    class StubPolicy(nn.Module):
        """returns whatever the harness queued; remembers the dict it returned (calculate_loss mutates it)"""

        def __init__(self):
            super().__init__()
            self.w = nn.Parameter(torch.zeros(1))
            self.train_decode_type = "sampling"
            self.val_decode_type = "greedy"
            self.test_decode_type = "greedy"
            self.next = None
            self.fn = None

        def forward(self, td, env=None, phase="train", **kw):
            if self.fn is not None:
                return self.fn(td, kw)
            return self.next

    class StubCritic(nn.Module):
        def __init__(self):
            super().__init__()
            self.w = nn.Parameter(torch.zeros(1))
            self.v = None
            self.fn = None

        def forward(self, x, hidden=None):
            if self.fn is not None:
                return self.fn(x)
            return self.v

    return StubPolicy, StubCritic


def quiet(m):
    m.log_dict = lambda *a, **k: None
    return m


def dy(rng, lo, hi, den=64):
    return rng.randint(lo * den, hi * den) / den


def grads_of(torch, loss, leaves):
    """autograd gradients of all leaves (0 where a leaf is not connected / does not require grad)"""
    out = []
    req = [l for l in leaves if l is not None and l.requires_grad]
    gs = torch.autograd.grad(loss, req, allow_unused=True, retain_graph=True) if (req and getattr(loss, "requires_grad", False)) else []
    it = iter(gs)
    for l in leaves:
        if l is None:
            continue
        if l.requires_grad:
            g = next(it)
            out += [0.0] * l.numel() if g is None else [float(x) for x in g.reshape(-1)]
        else:
            out += [0.0] * l.numel()
    return out


# ============================================================================================== REINFORCE / A2C
KIND_NAMES = {0: "no", 1: "exponential", 2: "extra", 3: "rollout", 4: "critic", 5: "warmup-rollout",
              6: "warmup-critic", 7: "warmup-no"}


def run_reinforce_history(T, rng, kind, sizes, beta, n_epochs, scale, use_a2c, callbacks_plan, fails, want_rg=None):
    """drive one model instance through len(sizes) successive training steps; returns (coq_case, meta)"""
    torch, nn, env = T["torch"], T["nn"], T["env"]
    StubPolicy, StubCritic = T["stubs"]
    from rl4co.models.rl import A2C, REINFORCE
    from rl4co.models.rl.reinforce.baselines import (CriticBaseline, RolloutBaseline, WarmupBaseline, NoBaseline)

    class _Roll(RolloutBaseline):          # real eval(); the epoch-end challenge (a full dataset rollout) is not part of C16
        def epoch_callback(self, *a, **k):
            pass

    pol, blpol, critic = StubPolicy(), StubPolicy(), StubCritic()
    kw = dict(reward_scale=scale) if scale is not None else {}
    if kind == 0:
        model = REINFORCE(env, pol, baseline="no", **kw)
    elif kind == 1:
        model = (REINFORCE(env, pol, baseline="mean", **kw) if beta == 0 and rng.random() < 0.7 else
                 REINFORCE(env, pol, baseline="exponential", baseline_kwargs={"beta": float(beta)}, **kw))
    elif kind == 2:
        model = REINFORCE(env, pol, baseline=rng.choice(["no", "exponential", "mean"]), **kw)
    elif kind == 3:
        bl = _Roll()
        bl.policy = blpol
        model = REINFORCE(env, pol, baseline=bl, **kw)
    elif kind == 4:
        model = A2C(env, pol, critic=critic, **kw) if use_a2c else REINFORCE(env, pol, baseline=CriticBaseline(critic), **kw)
    else:
        if kind == 5:
            inner = _Roll()
            inner.policy = blpol
        elif kind == 6:
            inner = CriticBaseline(critic)
        else:
            inner = NoBaseline()
        model = REINFORCE(env, pol, baseline=WarmupBaseline(inner, n_epochs=n_epochs, warmup_exp_beta=float(beta)), **kw)
    quiet(model)
    name = ("A2C" if (kind == 4 and use_a2c) else "REINFORCE") + "/" + KIND_NAMES[kind]

    steps_coq, hist_replay = [], []
    ema = None                      # spec: EMA of the batch means
    alpha = Fraction(0)
    epoch = 0
    beta_f = Fraction(beta)
    sc = Fraction(scale) if scale is not None else Fraction(1)
    for si, n in enumerate(sizes):
        cbs = []
        for _ in range(callbacks_plan[si]):
            model.baseline.epoch_callback(model.policy, env=env, batch_size=4, device="cpu", epoch=epoch, dataset_size=4)
            cbs.append(epoch)
            if epoch < n_epochs:
                alpha = Fraction(epoch + 1, n_epochs)
            epoch += 1
        rg = (rng.random() < 0.34) if want_rg is None else want_rg
        r = [dy(rng, -8, 0) for _ in range(n)]
        l = [dy(rng, -6, 0) for _ in range(n)]
        aux = [dy(rng, -8, 0) for _ in range(n)] if kind in (2, 3, 4, 5, 6) else []
        if rng.random() < 0.15:
            r = [r[0]] * n
        rt = torch.tensor(r, dtype=torch.float64, requires_grad=rg)
        lt = torch.tensor(l, dtype=torch.float64, requires_grad=True)
        at = None
        batch = env.generator(batch_size=[n])
        if kind == 2:
            at = torch.tensor(aux, dtype=torch.float64, requires_grad=True)
            batch.set("extra", at)
        elif kind in (3, 5):
            blpol.next = {"reward": torch.tensor(aux, dtype=torch.float64)}
        elif kind in (4, 6):
            at = torch.tensor(aux, dtype=torch.float64, requires_grad=True)
            critic.v = at.view(n, 1)          # CriticNetwork returns [B, 1]
        out = {"reward": rt, "log_likelihood": lt}
        pol.next = out
        res = model.shared_step(batch, 0, phase="train")
        loss = res["loss"]
        g = grads_of(torch, loss, [rt if rg else rt.detach(), lt, at])
        if not rg:
            g = g  # reward block is zeros
        bl_val = out["bl_val"]
        bl_loss = out["bl_loss"]
        bl_flat = [float(x) for x in bl_val.reshape(-1)] if torch.is_tensor(bl_val) else [float(bl_val)]
        # ---------------- spec on impl (exact rationals) ----------------
        R, L, A_ = [Fraction(x) for x in r], [Fraction(x) for x in l], [Fraction(x) for x in aux]
        m = mean(R)
        uses_ema = kind == 1 or (kind >= 5 and alpha != 1)
        if uses_ema:
            ema = m if ema is None else beta_f * ema + (1 - beta_f) * m
        if kind == 0:
            b, bll, gaux = [Fraction(0)] * n, Fraction(0), []
        elif kind == 1:
            b, bll, gaux = [ema] * n, Fraction(0), []
        elif kind == 2:
            b, bll, gaux = A_, Fraction(0), None
        elif kind == 3:
            b, bll, gaux = A_, Fraction(0), []
        elif kind == 4:
            b, bll = A_, mean((v - x) ** 2 for v, x in zip(A_, R))
            gaux = [2 * (v - x) / n for v, x in zip(A_, R)]
        else:
            inner_b = A_ if kind in (5, 6) else [Fraction(0)] * n
            inner_l = mean((v - x) ** 2 for v, x in zip(A_, R)) if kind == 6 else Fraction(0)
            e_ = ema if alpha != 1 else Fraction(0)
            b = [alpha * ib + (1 - alpha) * e_ for ib in inner_b]
            bll = alpha * inner_l
            gaux = [alpha * 2 * (v - x) / n for v, x in zip(A_, R)] if kind == 6 else []
        ref = -mean((x - bb) / sc * y for x, bb, y in zip(R, b, L)) + bll
        gll = [-(x - bb) / sc / n for x, bb in zip(R, b)]
        replay = {"unit": name, "step": si, "sizes": sizes, "beta": float(beta), "n_epochs": n_epochs, "alpha": float(alpha),
                  "reward_scale": scale, "reward": r, "log_likelihood": l, "aux": aux, "reward_requires_grad": rg,
                  "observed": {"loss": float(loss), "bl_val": bl_flat, "grads": g}, "expected": {"loss": float(ref)},
                  "history": list(hist_replay)}
        if not close(F(loss), ref):
            fails.add("reinforce/%s: loss-differs-from-reference-surrogate" % KIND_NAMES[kind], replay)
        if not all(close(F(x), y) for x, y in zip(g[n:2 * n], gll)):
            fails.add("reinforce/%s: policy-gradient-differs-from-reference" % KIND_NAMES[kind], replay)
        if gaux is not None and gaux and not all(close(F(x), y) for x, y in zip(g[2 * n:], gaux)):
            fails.add("reinforce/%s: critic-gradient-not-only-through-baseline-loss" % KIND_NAMES[kind], replay)
        if not rg and kind != 2 and torch.is_tensor(bl_val) and bl_val.requires_grad:
            fails.add("reinforce/%s: baseline-value-carries-gradient" % KIND_NAMES[kind], replay)
        if not all(close(x, y) for x, y in zip([F(v) for v in bl_flat], b if len(bl_flat) == n and n > 1 else [b[0]])):
            fails.add("reinforce/%s: baseline-value-differs-from-stated" % KIND_NAMES[kind], replay)
        hist_replay.append({"reward": r, "log_likelihood": l, "aux": aux})
        steps_coq.append("{| rs_callbacks := %s; rs_rg := %s; rs_reward := %s; rs_ll := %s; rs_aux := %s; rs_loss := %s; "
                         "rs_reinforce := %s; rs_bl_loss := %s; rs_bl := %s; rs_grads := %s |}" % (
                             cnatlist(cbs), cbool(rg), cqs(r), cqs(l), cqs(aux), cq(F(loss)), cq(F(out["reinforce_loss"])),
                             cq(F(bl_loss)), cqs(bl_flat), cqs(g)))
    case = "(%s, %s, %s, %s, %s, %s)" % (cq(TOL), cnat(kind), cq(beta_f), cnat(n_epochs), copt(scale), clist(steps_coq))
    meta = {"unit": name, "kind": KIND_NAMES[kind], "sizes": sizes, "beta": float(beta), "n_epochs": n_epochs,
            "scale": scale, "callbacks": callbacks_plan}
    return case, meta


def unit_reinforce(ctx, T, fails, mult=1):
    rng = ctx.rng
    cases, metas = [], []
    size_cycle = list(range(1, 10))
    ci = 0
    reps = (8 if ctx.tier == "quick" else 10) * mult
    for kind in range(8):
        for rep in range(reps):
            nsteps = rng.randint(1, 4) if kind in (1, 5, 6, 7) else rng.randint(1, 2)
            sizes = []
            for _ in range(nsteps):
                sizes.append(size_cycle[ci % 9])
                ci += 1
            beta = rng.choice([0, 0, 8, 13, 16, 4]) / 16.0 if kind in (1, 5, 6, 7) else 0.0
            n_epochs = rng.choice([1, 2, 2, 3, 4]) if kind >= 5 else 1
            scale = rng.choice([None, None, None, 2, 4])
            plan = [0] * nsteps
            if kind >= 5:
                # reach alpha = 0, intermediate values and 1 inside one history
                plan = [rng.choice([0, 1, 1, 2]) if i else rng.choice([0, 0, 1]) for i in range(nsteps)]
                if rep == 0:
                    n_epochs, plan = 2, ([0, 1, 1, 0] + [0] * nsteps)[:max(nsteps, 3)]
                    sizes = (sizes + [2, 3, 4])[:len(plan)]
            use_a2c = (kind == 4 and rep % 2 == 0)
            case, meta = run_reinforce_history(T, rng, kind, sizes, beta, n_epochs, scale, use_a2c, plan, fails)
            cases.append(case)
            metas.append(meta)
            ctx.seen(meta | {"case": case[:4000]}, nontrivial=max(sizes) >= 2)
            ctx.count("reinforce_histories_" + meta["kind"])
            ctx.count("reinforce_steps", len(sizes))
            for s in sizes:
                ctx.count("batch_size_%d" % s)
            if kind in (1, 4, 5) and rep == 0:
                ctx.sample({"unit": meta["unit"], "meta": meta, "coq_case": case[:1500]}, cap=8)
    return cases, metas


# ============================================================================================== POMO
def unit_pomo(ctx, T, fails, mult=1):
    torch, nn, env = T["torch"], T["nn"], T["env"]
    StubPolicy, _ = T["stubs"]
    from rl4co.models.zoo import POMO
    rng = ctx.rng
    cases, metas = [], []
    for B in range(1, 10):
        for S in range(1, 5):
            for rep in range(mult):
                scale = rng.choice([None, None, 2])
                pol = StubPolicy()
                kw = dict(reward_scale=scale) if scale is not None else {}
                model = quiet(POMO(env, policy=pol, num_starts=S, num_augment=rng.choice([1, 8]), **kw))
                N = B * S
                rg = rng.random() < 0.3
                r = [dy(rng, -8, 0) for _ in range(N)]
                l = [dy(rng, -6, 0) for _ in range(N)]
                rt = torch.tensor(r, dtype=torch.float64, requires_grad=rg)
                lt = torch.tensor(l, dtype=torch.float64, requires_grad=True)
                out = {"reward": rt, "log_likelihood": lt}
                pol.next = out
                batch = env.generator(batch_size=[B])
                if S == 1:
                    # guard: with one start the shared baseline IS the reward, the advantage is identically zero
                    # (no learning signal); the code refuses such a training step
                    try:
                        model.shared_step(batch, 0, phase="train")
                        ctx.count("pomo_single_start_accepted")
                        fails.add("pomo/shared: training-with-a-single-start-is-not-refused",
                                  {"unit": "POMO.shared_step", "B": B, "num_starts": S, "phase": "train", "reward": r, "log_likelihood": l,
                                   "observed": "returned a loss", "expected": "AssertionError 'num_starts must be > 1 during training'"})
                    except AssertionError:
                        ctx.count("pomo_single_start_rejected_by_assert")
                    continue
                res = model.shared_step(batch, 0, phase="train")
                loss = res["loss"]
                g = grads_of(torch, loss, [rt, lt])
                sc = Fraction(scale) if scale else Fraction(1)
                R, L = [Fraction(x) for x in r], [Fraction(x) for x in l]
                # spec: row k belongs to instance k mod B (batchify stacks whole copies); baseline = mean over the instance
                bmean = [mean(R[k] for k in range(N) if k % B == b) for b in range(B)]
                ref = -mean((R[k] - bmean[k % B]) / sc * L[k] for k in range(N))
                gll = [-(R[k] - bmean[k % B]) / sc / N for k in range(N)]
                blv = out["bl_val"]
                replay = {"unit": "POMO.shared_step", "B": B, "num_starts": S, "reward_scale": scale, "reward": r,
                          "log_likelihood": l, "observed": {"loss": float(loss), "bl_val": [float(x) for x in blv.reshape(-1)], "grads": g},
                          "expected": {"loss": float(ref), "bl_val": [float(x) for x in bmean]}}
                if not close(F(loss), ref):
                    fails.add("pomo/shared: loss-differs-from-reference-surrogate", replay)
                if not all(close(F(x), y) for x, y in zip(g[N:], gll)):
                    fails.add("pomo/shared: policy-gradient-differs-from-reference", replay)
                if tuple(blv.shape) != (B, 1) or not all(close(F(x), y) for x, y in zip(blv.reshape(-1), bmean)):
                    fails.add("pomo/shared: baseline-is-not-the-instance-mean", replay)
                else:
                    for b in range(B):
                        if sum(R[k] - F(blv[b, 0]) for k in range(N) if k % B == b) != 0 and not close(
                                sum(R[k] - F(blv[b, 0]) for k in range(N) if k % B == b), 0):
                            fails.add("pomo/shared: advantages-do-not-average-to-zero-within-instance", replay)
                if not rg and blv.requires_grad:
                    fails.add("pomo/shared: baseline-value-carries-gradient", replay)
                cases.append("(%s, %s, %s, %s, %s, %s, %s, %s)" % (cq(TOL), cbool(rg), copt(scale), cnat(S), cqs(r), cqs(l),
                                                                   cq(F(loss)), cqs(g)))
                metas.append({"unit": "POMO.shared_step", "B": B, "S": S, "scale": scale})
                ctx.seen({"pomo": [B, S, r, l]}, nontrivial=B >= 2)
                ctx.count("pomo_cases")
                ctx.count("multistart_factor_%d" % S)
                if B == 3 and S == 2 and rep == 0:
                    ctx.sample({"unit": "POMO.shared_step", "B": B, "num_starts": S, "reward": r, "log_likelihood": l,
                                "impl_loss": float(loss), "impl_grad_ll": g[N:]}, cap=8)
    return cases, metas


# ============================================================================================== SymNCO
def unit_symnco(ctx, T, fails, mult=1):
    torch, nn, env = T["torch"], T["nn"], T["env"]
    StubPolicy, _ = T["stubs"]
    from rl4co.models.zoo import SymNCO
    from torch.nn.functional import cosine_similarity
    rng = ctx.rng
    cases, metas = [], []
    Bs = list(range(1, 10))
    for S in range(0, 5):
        for A in range(1, 5):
            for B in ([Bs[(S * 4 + A + i * 2) % 9] for i in range(3 * mult)] if ctx.tier == "quick" else Bs):
                beta = rng.choice([1, 0.5, 0.25, 2])
                alpha = rng.choice([0.25, 0.125, 0.5, 0])
                pol = StubPolicy()
                model = quiet(SymNCO(env, policy=pol, num_starts=S, num_augment=A, alpha=alpha, beta=beta))
                Sx, Ax = max(S, 1), max(A, 1)
                N = B * Sx * Ax
                rg = rng.random() < 0.3
                r = [dy(rng, -8, 0) for _ in range(N)]
                l = [dy(rng, -6, 0) for _ in range(N)]
                rt = torch.tensor(r, dtype=torch.float64, requires_grad=rg)
                lt = torch.tensor(l, dtype=torch.float64, requires_grad=True)
                gen = torch.Generator().manual_seed(rng.randrange(2 ** 31))
                pe = torch.randn(Ax * B, 5, 4, dtype=torch.float64, generator=gen).requires_grad_()
                out = {"reward": rt, "log_likelihood": lt, "proj_embeddings": pe}
                pol.next = out
                batch = env.generator(batch_size=[B])
                res = model.shared_step(batch, 0, phase="train")
                loss = res["loss"]
                if not torch.is_tensor(loss):        # S <= 1 and A <= 1: the code's loss is the python number 0
                    ctx.count("symnco_degenerate_no_loss")
                    continue
                inv = out["loss_inv"]
                inv_node = inv if torch.is_tensor(inv) else None
                g = grads_of(torch, loss, [rt, lt])
                if inv_node is not None:
                    gi = torch.autograd.grad(loss, [inv_node], allow_unused=True, retain_graph=True)[0]
                    g.append(0.0 if gi is None else float(gi))
                else:
                    g.append(0.0)
                # ---------------- spec on impl ----------------
                R, L = [Fraction(x) for x in r], [Fraction(x) for x in l]
                # position [b][i][j] of the regrouped tensor holds row j*(Sx*B) + i*B + b  (Train/LossShared.v unbatch2_index,
                # validated against the real unbatchify by the `unbatch` unit)
                idx = lambda b, i, j: j * (Sx * B) + i * B + b
                ps = ss = Fraction(0)
                gll = [Fraction(0)] * N
                if S > 1:
                    tot = Fraction(0)
                    for b in range(B):
                        for j in range(Ax):
                            grp = [idx(b, i, j) for i in range(Sx)]
                            mu = mean(R[k] for k in grp)
                            for k in grp:
                                tot += -(R[k] - mu) * L[k]
                                gll[k] += -(R[k] - mu) / N
                    ps = tot / N
                if A > 1:
                    tot = Fraction(0)
                    for b in range(B):
                        for i in range(Sx):
                            grp = [idx(b, i, j) for j in range(Ax)]
                            mu = mean(R[k] for k in grp)
                            for k in grp:
                                tot += -(R[k] - mu) * L[k]
                                gll[k] += Fraction(beta) * (-(R[k] - mu)) / N
                    ss = tot / N
                invf = F(inv) if inv_node is not None else Fraction(0)
                ref = ps + Fraction(beta) * ss + Fraction(alpha) * invf
                replay = {"unit": "SymNCO.shared_step", "B": B, "num_starts": S, "num_augment": A, "alpha": alpha, "beta": beta,
                          "reward": r, "log_likelihood": l,
                          "observed": {"loss": float(loss), "loss_ps": float(out["loss_ps"]), "loss_ss": float(out["loss_ss"]),
                                       "loss_inv": float(inv), "grads": g},
                          "expected": {"loss": float(ref), "loss_ps": float(ps), "loss_ss": float(ss)}}
                if not (close(F(loss), ref) and close(F(out["loss_ps"]), ps) and close(F(out["loss_ss"]), ss)):
                    fails.add("symnco/shared: loss-differs-from-reference-surrogate", replay)
                if not all(close(F(x), y) for x, y in zip(g[N:2 * N], gll)):
                    fails.add("symnco/shared: policy-gradient-differs-from-reference", replay)
                # invariance loss: views of ONE instance must be compared (row k of the augmented batch = instance k mod B)
                if inv_node is not None:
                    pv = pe.detach().view(Ax, B, 5, 4)
                    ref_inv = float(sum(cosine_similarity(pv[0], pv[i], dim=-1) for i in range(1, Ax)).mean())
                    if abs(float(inv) - ref_inv) > 1e-9 * (1 + abs(ref_inv)):
                        fails.add("symnco/invariance_loss: pairs-embeddings-of-different-instances", {
                            "unit": "symnco.losses.invariance_loss", "B": B, "num_augment": A,
                            "proj_embeddings_hex": [float(x).hex() for x in pe.detach().reshape(-1)], "proj_shape": list(pe.shape),
                            "observed": float(inv), "expected": ref_inv,
                            "what": "rearrange '(b a) ... -> b a ...' against the augmentation-major layout (row = a*B + b) of "
                                    "StateAugmentation/batchify: cosine similarities are taken between different instances when B > 1"})
                    ctx.count("invariance_loss_checked")
                if S > 1 and A > 1 and S != A:
                    ctx.count("symnco_inner_axes_permuted_S_ne_A")
                cases.append("(%s, %s, %s, %s, %s, %s, %s, %s, %s, (%s, %s, %s), %s)" % (
                    cq(TOL), cbool(rg), cnat(S), cnat(A), cq(Fraction(beta)), cq(Fraction(alpha)), cqs(r), cqs(l), cq(invf),
                    cq(F(loss)), cq(F(out["loss_ps"])), cq(F(out["loss_ss"])), cqs(g)))
                metas.append({"unit": "SymNCO.shared_step", "B": B, "S": S, "A": A, "alpha": alpha, "beta": beta})
                ctx.seen({"sym": [B, S, A, r, l]}, nontrivial=B >= 2 and (S > 1 or A > 1))
                ctx.count("symnco_cases")
                ctx.count("augment_factor_%d" % A)
                ctx.count("symnco_num_starts_%d" % S)
    return cases, metas


# ============================================================================================== invariance loss VALUE
SIG_INV_VALUE = "symnco/invariance_loss: value-is-not-the-mean-over-(batch,nodes)-of-the-summed-cosine-similarities-with-view-0"
# integer vectors with integer Euclidean norm (Pythagorean tuples), by dimension
PYTH = {2: [((3, 4), 5), ((1, 0), 1), ((5, 12), 13), ((8, 15), 17), ((0, 2), 2), ((20, 21), 29)],
        3: [((1, 2, 2), 3), ((2, 3, 6), 7), ((4, 4, 7), 9), ((0, 3, 4), 5), ((1, 0, 0), 1), ((2, 6, 9), 11)],
        4: [((1, 1, 1, 1), 2), ((2, 4, 5, 6), 9), ((1, 2, 2, 4), 5), ((0, 0, 3, 4), 5), ((1, 1, 3, 5), 6), ((0, 1, 0, 0), 1)]}


def unit_invloss(ctx, T, fails, mult=1):
    """the real symnco.losses.invariance_loss on embeddings with RATIONAL norms (Pythagorean vectors, signs / coordinate
    order / dyadic scale varied), so that every cosine is an exact rational: value compared with the Coq model
    (Train/InvLoss.v at Qc, norms supplied and checked) and with the exact Fraction recomputation below.  For B > 1 both
    follow the code's own '(b a)' pairing (the pairing itself is the known finding of unit_symnco)."""
    import random as _random
    torch = T["torch"]
    from rl4co.models.zoo.symnco.losses import invariance_loss
    irng = _random.Random("C16-invariance-value-%s" % ctx.seed)     # own stream: the other units' draws stay as they were
    EPS = Fraction(1, 10 ** 8)
    cases, metas = [], []

    def rand_vec(d):
        base, nrm = PYTH[d][irng.randrange(len(PYTH[d]))]
        xs = list(base)
        irng.shuffle(xs)
        xs = [x * irng.choice([1, -1]) for x in xs]
        sc = irng.choice([Fraction(1, 2), Fraction(1), Fraction(2), Fraction(4)])
        return [Fraction(x) * sc for x in xs], Fraction(nrm) * sc

    def run_one(rows, A, dt, tag):
        """rows: [(b a)][node] = (vector of Fractions, norm)"""
        pe = torch.tensor([[[float(x) for x in v] for v, _ in row] for row in rows], dtype=dt)
        raised, obs = None, None
        try:
            obs = float(invariance_loss(pe, A))
        except Exception as e:  # noqa: BLE001 -- the model says None exactly when the code raises
            raised = "%s: %s" % (type(e).__name__, str(e)[:100])
        n_rows, n = len(rows), len(rows[0])
        exp = None
        if A >= 2 and n_rows % A == 0:
            B = n_rows // A
            tot = Fraction(0)
            for b in range(B):
                for j in range(n):
                    u, nu = rows[b * A][j]
                    for i in range(1, A):
                        v, nv = rows[b * A + i][j]
                        tot += sum(x * y for x, y in zip(u, v)) / (max(nu, EPS) * max(nv, EPS))
            exp = tot / (B * n)
        tol = Fraction(1, 10 ** 6) if dt == torch.float32 else Fraction(1, 10 ** 12)
        replay = {"unit": "symnco.losses.invariance_loss", "num_augment": A, "dtype": str(dt),
                  "proj_embed[(b a)][node][d]": [[[float(x) for x in v] for v, _ in row] for row in rows],
                  "norms[(b a)][node]": [[float(nv) for _, nv in row] for row in rows],
                  "observed": obs if raised is None else "raised " + raised,
                  "expected": None if exp is None else float(exp),
                  "what": "L_inv = mean over (b, node) of sum_{i=1}^{A-1} cos(pe[b,0,node], pe[b,i,node]), pe = rearrange(proj_embed, '(b a) ... -> b a ...')"}
        if exp is None:
            if raised is None:
                fails.add("symnco/invariance_loss: fewer-than-two-views-or-ragged-regroup-not-rejected", replay)
        elif raised is not None or abs(Fraction(obs) - exp) > tol * (1 + abs(exp)):
            fails.add(SIG_INV_VALUE, replay)
        cases.append("(%s, %s, %s, %s, (%s, %s))" % (
            cq(tol), cq(EPS), cnat(A),
            clist(clist("(%s, %s)" % (clist(cq(x) for x in v), cq(nv)) for v, nv in row) for row in rows),
            cbool(raised is not None), cq(F(obs) if obs is not None and math.isfinite(obs) else Fraction(0))))
        metas.append({"unit": "invariance_loss", "tag": tag, "A": A, "rows": n_rows, "nodes": n, "dtype": str(dt)})
        ctx.seen({"inv": [A, str(dt), [[[str(x) for x in v] for v, _ in row] for row in rows]]}, nontrivial=A >= 2 and n_rows >= A)
        ctx.count("invariance_value_cases")

    # the audit's input: views [[3,4],[1,0]] / [[4,3],[0,1]], B = 1, A = 2 -> (24/25 + 0) / 2 = 0.48
    F_ = Fraction
    fixed = [[([F_(3), F_(4)], F_(5)), ([F_(1), F_(0)], F_(1))], [([F_(4), F_(3)], F_(5)), ([F_(0), F_(1)], F_(1))]]
    for dt in (torch.float32, torch.float64):
        run_one(fixed, 2, dt, "audit-0.48")
    reps = 2 * mult
    for B in (1, 2, 3):
        for A in (2, 3, 4):
            for rep in range(reps):
                d, n = irng.choice([2, 3, 4]), irng.choice([1, 2, 3])
                rows = [[rand_vec(d) for _ in range(n)] for _ in range(B * A)]
                run_one(rows, A, torch.float32 if rep % 2 == 0 else torch.float64, "grid")
    # rejected inputs: a single view (sum([]) is the python int 0: no .mean()), a row count that is not a multiple of A
    run_one([[rand_vec(2) for _ in range(2)] for _ in range(2)], 1, torch.float32, "A=1")
    run_one([[rand_vec(3) for _ in range(2)] for _ in range(3)], 2, torch.float32, "ragged-regroup")
    return cases, metas


# ============================================================================================== unbatchify layout
def unit_unbatch(ctx, T):
    torch = T["torch"]
    from rl4co.utils.ops import unbatchify
    cases, metas = [], []
    for B in range(1, 6):
        for s in range(0, 5):
            for a in range(0, 5):
                N = B * max(s, 1) * max(a, 1)
                t = unbatchify(torch.arange(N), (s, a))
                cases.append("(%s, %s, %s, %s)" % (cnat(N), cnat(s), cnat(a), cnatlist(int(x) for x in t.reshape(-1))))
                metas.append({"unit": "unbatchify", "B": B, "s": s, "a": a})
                ctx.seen({"unb": [B, s, a]}, nontrivial=B >= 2 and s >= 2 and a >= 2)
                ctx.count("unbatchify_cases")
    return cases, metas


# ============================================================================================== PPO
def unit_ppo(ctx, T, fails, mult=1):
    torch, nn, env = T["torch"], T["nn"], T["env"]
    StubPolicy, StubCritic = T["stubs"]
    from rl4co.models.rl import PPO
    rng = ctx.rng
    cases, metas = [], []
    TT = 3
    configs = []
    for B in range(1, 10):
        for rep in range(4 * mult):
            configs.append((B, rep))
    for B, rep in configs:
        clip = rng.choice([0.2, 0.25, 0.125, 0.5])
        vf = rng.choice([0.5, 1.0, 0.25])
        el = rng.choice([0.0, 0.125, 0.5])
        mbs = rng.choice([max(1, B // 2), B, max(1, B // 3), B + 3])
        nrm = (rng.random() < 0.35) and B >= 2
        if nrm:
            mbs = B if B % mbs == 1 or mbs == 1 else mbs       # a mini-batch of one row has std = nan
            if B % mbs == 1:
                mbs = B
        ratio_one = rep % 2 == 0
        K = rng.choice([1, 2])
        pol, critic = StubPolicy(), StubCritic()
        model = quiet(PPO(env, pol, critic=critic, clip_range=clip, ppo_epochs=K, mini_batch_size=mbs, vf_lambda=vf,
                          entropy_lambda=el, normalize_adv=nrm))
        llnew = torch.tensor([[dy(rng, -2, 0, 16) for _ in range(TT)] for _ in range(B)], dtype=torch.float64, requires_grad=True)
        delta = [0.0] * B if ratio_one else [rng.choice([0, 1, -1, 2, -2, 3, -3, 5, -5, 8, -8]) / 16.0 for _ in range(B)]
        old = (llnew.detach().sum(-1) - torch.tensor(delta, dtype=torch.float64))
        rew = torch.tensor([dy(rng, -8, 0) for _ in range(B)], dtype=torch.float64)
        V = torch.tensor([[dy(rng, -8, 0, 16)] for _ in range(B)], dtype=torch.float64, requires_grad=True)
        ENT = torch.tensor([dy(rng, 0, 4, 16) for _ in range(B)], dtype=torch.float64, requires_grad=True)
        ids_seen, captured = [], []

        def pfn(td, kw):
            if "actions" not in kw:
                acts = torch.zeros(B, TT, dtype=torch.long)
                acts[:, 0] = torch.arange(B)
                return {"reward": rew.clone(), "log_likelihood": old.clone(), "actions": acts}
            ids = kw["actions"][:, 0]
            ids_seen.append([int(i) for i in ids])
            return {"log_likelihood": llnew[ids], "entropy": ENT[ids]}

        pol.fn = pfn
        critic.fn = lambda x: V[x["action"][:, 0]]

        class _Opt:
            def zero_grad(self):
                pass

            def step(self):
                pass

        model.optimizers = lambda: _Opt()
        model.clip_gradients = lambda *a, **k: None

        def mb(loss):
            gs = torch.autograd.grad(loss, [llnew, V, ENT], allow_unused=True, retain_graph=True)
            captured.append((loss.detach().clone(), [None if x is None else x.detach().clone() for x in gs]))

        model.manual_backward = mb
        torch.manual_seed(rng.randrange(2 ** 31))
        batch = env.generator(batch_size=[B])
        res = model.shared_step(batch, 0, phase="train")
        assert len(captured) == len(ids_seen)
        for step, (ids, (loss, gs)) in enumerate(zip(ids_seen, captured)):
            n = len(ids)
            last = step == len(captured) - 1
            gl = gs[0] if gs[0] is not None else torch.zeros_like(llnew)
            gv = gs[1] if gs[1] is not None else torch.zeros_like(V)
            ge = gs[2] if gs[2] is not None else torch.zeros_like(ENT)
            g = [float(x) for i in ids for x in gl[i]] + [float(gv[i, 0]) for i in ids] + [float(ge[i]) for i in ids]
            # tables of the transcendental values torch produced on exactly these arguments
            dl = llnew.detach()[ids].sum(-1) - old[ids]
            ev = torch.exp(dl)
            etab = {F(d): F(v) for d, v in zip(dl, ev)}
            stab = {}
            advraw = [F(rew[i]) - F(V[i, 0]) for i in ids]
            if nrm:
                if n < 2:
                    ctx.count("ppo_normalize_single_row_nan_skipped")
                    continue
                mu = mean(advraw)
                var = sum((x - mu) ** 2 for x in advraw) / (n - 1)
                sd = (rew[ids].view(-1, 1) - V.detach()[ids]).std()
                stab[var] = F(sd)
                adv = [(x - mu) / (F(sd) + Fraction(1e-8)) for x in advraw]
            else:
                adv = advraw
            # ---------------- spec on impl ----------------
            lo_, hi_ = 1 - Fraction(clip), 1 + Fraction(clip)
            rho = [etab[F(d)] for d in dl]

            def clampf(x):
                return min(max(x, lo_), hi_)

            def hub(d):
                return d * d / 2 if abs(d) < 1 else abs(d) - Fraction(1, 2)

            def dhub(d):
                return d if abs(d) < 1 else (1 if d > 0 else -1)

            surr = -mean(min(p * a, clampf(p) * a) for p, a in zip(rho, adv))
            vloss = mean(hub(F(V[i, 0]) - F(rew[i])) for i in ids)
            entm = mean(F(ENT[i]) for i in ids)
            ref = surr + Fraction(vf) * vloss - Fraction(el) * entm
            gref_ll = []
            for p, a in zip(rho, adv):
                inside = lo_ < p < hi_
                active = inside or (p * a < clampf(p) * a)
                gref_ll += [(-a * p / n) if active else Fraction(0)] * TT
            gref_v = [Fraction(vf) * dhub(F(V[i, 0]) - F(rew[i])) / n for i in ids]
            gref_e = [-Fraction(el) / n] * n
            on_boundary = any(p in (lo_, hi_) for p in rho)
            replay = {"unit": "PPO.shared_step", "B": B, "mini_batch": ids, "inner_step": step, "clip_range": clip, "vf_lambda": vf,
                      "entropy_lambda": el, "normalize_adv": nrm, "ll_new": [[float(x) for x in llnew[i]] for i in ids],
                      "old_logprobs": [float(old[i]) for i in ids], "reward": [float(rew[i]) for i in ids],
                      "value_pred": [float(V[i, 0]) for i in ids], "entropy": [float(ENT[i]) for i in ids],
                      "observed": {"loss": float(loss), "grads": g}, "expected": {"loss": float(ref)}}
            if not close(F(loss), ref):
                fails.add("ppo: loss-differs-from-clipped-surrogate-with-value-and-entropy-terms", replay)
            if not on_boundary and not all(close(F(x), y) for x, y in zip(g, gref_ll + gref_v + gref_e)):
                fails.add("ppo: gradient-differs-from-reference" + ("-at-ratio-one" if all(d == 0 for d in dl) else ""), replay)
            parts = "None"
            if last:
                parts = "(Some (%s, %s, %s))" % (cq(F(res["train/surrogate_loss"])), cq(F(res["train/value_loss"])),
                                                cq(F(res["train/entropy"])))
                if not (close(F(res["train/surrogate_loss"]), surr) and close(F(res["train/value_loss"]), vloss)
                        and close(F(res["train/entropy"]), entm)):
                    fails.add("ppo: loss-differs-from-clipped-surrogate-with-value-and-entropy-terms", replay)
            rows = clist("{| pr_lls := %s; pr_old := %s; pr_rew := %s; pr_vpred := %s; pr_ent := %s |}" % (
                cqs(llnew.detach()[i]), cq(F(old[i])), cq(F(rew[i])), cq(F(V[i, 0])), cq(F(ENT[i]))) for i in ids)
            cases.append("(%s, (%s, %s, %s, %s, %s), %s, %s, %s, %s, %s, %s, %s)" % (
                cq(TOL), cq(Fraction(clip)), cq(Fraction(vf)), cq(Fraction(el)), cbool(nrm), cq(Fraction(1e-8)),
                clist("(%s, %s)" % (cq(k), cq(v)) for k, v in etab.items()),
                clist("(%s, %s)" % (cq(k), cq(v)) for k, v in stab.items()),
                cnat(TT), rows, cq(F(loss)), parts, cqs(g)))
            metas.append({"unit": "PPO.shared_step", "B": B, "mini_batch": n, "step": step, "ratio_one": all(d == 0 for d in dl),
                          "normalize": nrm, "clip": clip})
            ctx.seen({"ppo": [B, ids, step, clip, vf, el, nrm, [float(x) for x in dl]]}, nontrivial=n >= 2)
            ctx.count("ppo_inner_steps")
            ctx.count("ppo_ratio_one_steps" if all(d == 0 for d in dl) else "ppo_ratio_not_one_steps")
            ctx.count("ppo_clipped_rows", sum(1 for p in rho if not (lo_ < p < hi_)))
            if nrm:
                ctx.count("ppo_normalize_adv_steps")
            if B == 4 and step == 0:
                ctx.sample({"unit": "PPO.shared_step", "replay": replay}, cap=8)
    return cases, metas


# ============================================================================================== real networks
def unit_real(ctx, T, fails):
    """Python-only spec-on-impl with the real policies / critics (float32, tolerance 1e-4): rewards and baseline
    values carry no gradient; loss = reference surrogate rebuilt from the policy's own outputs; the gradient that
    reaches the policy's own weights equals the gradient of the reference surrogate."""
    torch, nn = T["torch"], T["nn"]
    from rl4co.envs import TSPEnv
    from rl4co.models.rl import A2C, PPO, REINFORCE
    from rl4co.models.zoo import POMO, SymNCO, AttentionModelPolicy
    from rl4co.models.zoo.symnco.policy import SymNCOPolicy
    from rl4co.utils.ops import unbatchify
    rng = ctx.rng
    env = TSPEnv(generator_params=dict(num_loc=6))
    pk = dict(env_name="tsp", num_encoder_layers=1)

    def capture(model):
        box = {}
        orig = model.policy.forward

        def fwd(*a, **k):
            o = orig(*a, **k)
            box["out"] = o
            return o

        model.policy.forward = fwd
        return box

    def pgrad(model, scalar):
        ps = [p for p in model.policy.parameters() if p.requires_grad]
        gs = torch.autograd.grad(scalar, ps, allow_unused=True, retain_graph=True)
        return torch.cat([(torch.zeros_like(p) if g is None else g).reshape(-1) for p, g in zip(ps, gs)])

    def cmp(name, model, out, loss, ref, extra_ok=True):
        rep = {"unit": "real/" + name, "observed": {"loss": float(loss)}, "expected": {"loss": float(ref)}}
        if out["reward"].requires_grad:
            fails.add("real/%s: reward-carries-gradient" % name, rep)
        bv = out.get("bl_val", None)
        if torch.is_tensor(bv) and bv.requires_grad:
            fails.add("real/%s: baseline-value-carries-gradient" % name, rep)
        if abs(float(loss) - float(ref)) > 1e-4 * (1 + abs(float(ref))):
            fails.add("real/%s: loss-differs-from-reference-surrogate" % name, rep)
        g1, g2 = pgrad(model, loss), pgrad(model, ref)
        if float((g1 - g2).abs().max()) > 1e-4 * (1 + float(g2.abs().max())):
            rep["observed"]["max_grad_diff"] = float((g1 - g2).abs().max())
            fails.add("real/%s: policy-gradient-differs-from-reference" % name, rep)
        ctx.count("real_network_runs")
        ctx.seen({"real": name, "loss": float(loss)}, nontrivial=True)

    B = 5
    for bname in ["no", "exponential", "mean", "critic"]:
        torch.manual_seed(rng.randrange(2 ** 31))
        model = quiet(REINFORCE(env, AttentionModelPolicy(**pk), baseline=bname))
        model.baseline.setup(model.policy, env)
        box = capture(model)
        for step in range(2):
            batch = env.generator(batch_size=[B])
            res = model.shared_step(batch, 0, phase="train")
            out = box["out"]
            bl_val = out["bl_val"]
            b = bl_val.detach() if torch.is_tensor(bl_val) else bl_val
            blloss = out["bl_loss"]
            ref = -((out["reward"].detach() - b) * out["log_likelihood"]).mean() + blloss
            cmp("reinforce-" + bname, model, out, res["loss"], ref)
            if bname == "critic" and tuple(bl_val.shape) != (B,):
                fails.add("real/reinforce-critic: baseline-shape-is-not-[B]", {"unit": "CriticBaseline.eval", "shape": list(bl_val.shape)})
    # rollout baseline through the dataset ("extra") path, after the warm-up epoch
    torch.manual_seed(rng.randrange(2 ** 31))
    model = quiet(REINFORCE(env, AttentionModelPolicy(**pk), baseline="rollout"))
    model.baseline.setup(model.policy, env, batch_size=4, device="cpu", dataset_size=8)
    model.baseline.epoch_callback(model.policy, env=env, batch_size=4, device="cpu", epoch=0, dataset_size=8)
    ds = model.baseline.wrap_dataset(env.dataset(8), env, batch_size=4, device="cpu")
    batch = ds.collate_fn([ds[i] for i in range(6)])
    box = capture(model)
    res = model.shared_step(batch, 0, phase="train")
    out = box["out"]
    if "extra" not in batch.keys():
        fails.add("real/reinforce-rollout: wrapped-dataset-has-no-extra", {"unit": "RolloutBaseline.wrap_dataset"})
    else:
        ref = -((out["reward"].detach() - batch["extra"]) * out["log_likelihood"]).mean()
        cmp("reinforce-rollout-extra", model, out, res["loss"], ref)
    # A2C
    torch.manual_seed(rng.randrange(2 ** 31))
    model = quiet(A2C(env, AttentionModelPolicy(**pk)))
    box = capture(model)
    res = model.shared_step(env.generator(batch_size=[B]), 0, phase="train")
    out = box["out"]
    ref = -((out["reward"].detach() - out["bl_val"].detach()) * out["log_likelihood"]).mean() + out["bl_loss"]
    cmp("a2c", model, out, res["loss"], ref)
    # POMO
    torch.manual_seed(rng.randrange(2 ** 31))
    S = 3
    model = quiet(POMO(env, policy=AttentionModelPolicy(**pk), num_starts=S))
    box = capture(model)
    res = model.shared_step(env.generator(batch_size=[B]), 0, phase="train")
    out = box["out"]
    r2 = out["reward"].detach().view(S, B).t()
    l2 = out["log_likelihood"].view(S, B).t()
    ref = -((r2 - r2.mean(1, keepdim=True)) * l2).mean()
    cmp("pomo", model, out, res["loss"], ref)
    # SymNCO (policy-gradient part only; the invariance term is taken from the implementation)
    for S, A in [(0, 2), (3, 2)]:
        torch.manual_seed(rng.randrange(2 ** 31))
        model = quiet(SymNCO(env, policy=SymNCOPolicy(**pk), num_starts=S, num_augment=A))
        box = capture(model)
        res = model.shared_step(env.generator(batch_size=[B]), 0, phase="train")
        out = box["out"]
        Sx = max(S, 1)
        r3 = out["reward"].detach().view(A, Sx, B).permute(2, 1, 0)      # [b][i][j] = row j*(Sx*B) + i*B + b
        l3 = out["log_likelihood"].view(A, Sx, B).permute(2, 1, 0)
        ps = -((r3 - r3.mean(1, keepdim=True)) * l3).mean() if S > 1 else 0
        ss = -((r3 - r3.mean(2, keepdim=True)) * l3).mean()
        ref = ps + model.beta * ss + model.alpha * out["loss_inv"]
        cmp("symnco-S%d-A%d" % (S, A), model, out, res["loss"], ref)
    # PPO: first inner step (ratio one) with the real policy and critic
    torch.manual_seed(rng.randrange(2 ** 31))
    model = quiet(PPO(env, AttentionModelPolicy(**pk), ppo_epochs=1, mini_batch_size=B, entropy_lambda=0.125))
    model.policy.eval()      # no dropout/bn surprises between the two evaluations
    cap = {}

    class _Opt:
        def zero_grad(self):
            pass

        def step(self):
            pass

    model.optimizers = lambda: _Opt()
    model.clip_gradients = lambda *a, **k: None
    model.manual_backward = lambda loss: cap.setdefault("loss", loss)
    box = {}
    orig = model.policy.forward
    origc = model.critic.forward

    def fwd(*a, **k):
        o = orig(*a, **k)
        if "actions" in k:
            box["out"] = o
            box["td"] = a[0]
        return o

    def cfwd(x, *a, **k):
        v = origc(x, *a, **k)
        box["v"] = v
        box["rew"] = x["reward"]
        return v

    model.policy.forward = fwd
    model.critic.forward = cfwd
    res = model.shared_step(env.generator(batch_size=[B]), 0, phase="train")
    o = box["out"]
    adv = (box["rew"].view(-1, 1) - box["v"].detach())
    llsum = o["log_likelihood"].sum(-1).view(-1, 1)
    ref_pg = -(adv * llsum).mean()                 # REINFORCE surrogate with the same advantage
    if tuple(box["v"].shape) != (B, 1):
        fails.add("real/ppo: critic-output-shape-is-not-[B,1]", {"unit": "PPO", "shape": list(box["v"].shape)})
    g1 = pgrad(model, res["train/surrogate_loss"] if False else cap["loss"])
    # gradient of the full loss w.r.t. the POLICY weights = gradient of (REINFORCE surrogate - entropy bonus); the value loss does not touch them
    ref_full = ref_pg - 0.125 * o["entropy"].mean()
    g2 = pgrad(model, ref_full)
    rep = {"unit": "real/ppo", "observed": {"max_grad_diff": float((g1 - g2).abs().max())}}
    if float((g1 - g2).abs().max()) > 2e-4 * (1 + float(g2.abs().max())):
        fails.add("real/ppo: policy-gradient-at-ratio-one-differs-from-reinforce-gradient", rep)
    ctx.count("real_network_runs")
    ctx.seen({"real": "ppo", "loss": float(cap["loss"])}, nontrivial=True)


# ============================================================================================== driver
def evaluate(ctx, name, case_type, check_fn, cases, metas, shard):
    if not cases:
        return
    try:
        codes = coq_eval_shards("cases_C16_" + name, HEADER, case_type, check_fn, cases, shard=shard)
    except RuntimeError as e:
        ctx.broken.append("correspondence C16/%s could not be evaluated: %s" % (name, str(e)[-700:]))
        ctx.units[name] = {"cases": len(cases), "evaluated": False}
        return
    nz = [(i, c) for i, c in enumerate(codes) if c != 0]
    ctx.units[name] = {"cases": len(codes), "disagreements": len(nz)}
    if nz:
        i, c = nz[0]
        what = {1: "loss", 2: "loss components", 3: "baseline loss", 4: "baseline value", 5: "gradient", 6: "advantage sum",
                7: "generated embedding has a wrong norm / ragged tensor", 8: "invariance loss value"}.get(c % 1000, "?")
        ctx.broken.append("correspondence C16/%s: model and implementation differ in %d of %d cases (first: case %d, code %d = step %d, %s) %s"
                          % (name, len(nz), len(codes), i, c, c // 1000, what, metas[i]))


def run(ctx: Ctx, proofs_ok: bool):
    import torch
    import torch.nn as nn
    from rl4co.envs import TSPEnv

    rng = ctx.rng
    torch.manual_seed(rng.randrange(2 ** 31))
    T = {"torch": torch, "nn": nn, "env": TSPEnv(generator_params=dict(num_loc=5)), "stubs": make_stubs(torch, nn)}
    fails = Fail()
    ctx.rule = ("real Lightning modules (REINFORCE x {no, mean, exponential, extra, rollout-eval, critic, warm-up over rollout/critic/no}, "
                "A2C, POMO, SymNCO, PPO) driven through shared_step(phase='train') with stub policies/critics returning float64 leaf "
                "tensors with dyadic values (k/64, k/16); batch sizes 1..9 cycled, multi-start 1..4 (POMO), num_starts 0..4 x "
                "num_augment 1..4 (SymNCO), histories of 1..4 successive steps for stateful baselines with warm-up alpha passing "
                "0, 1/n.., 1; int reward scale None/2/4; reward leaf requires grad in ~1/3 of the runs (probes the paths the code "
                "does not detach); invariance_loss value: B 1..3 x num_augment 2..4, 1..3 nodes, d 2..4, Pythagorean integer vectors with signs/order/dyadic scale varied, float32 + float64; PPO: clip in {.125,.2,.25,.5}, mini-batches by the real DataLoader, ratio exactly one and "
                "ratios exp(k/16) crossing the clip range, normalize_adv on/off. non-trivial = at least 2 rows. distinct by hash of inputs")
    ctx.assumptions += [
        "networks, autograd, optimiser, gradient clipping, DataLoader are not modelled: log-likelihoods, critic values, entropies, "
        "projected embeddings are inputs with arbitrary tangents; that torch's .grad equals the model's tangent is what the correspondence validates",
        "rewards are constants (the code never detaches them; every env computes them outside the graph -- checked on the real policies each run)",
        "exp / sqrt: abstract functions in the theorems (hypothesis e 0 = 1 only for the ratio-one statement); in the Qc evaluation they are "
        "tables of the values torch returned",
        "sub-gradient conventions of the installed torch at ties (min/max split evenly; clamp passes gradient strictly inside the range); "
        "theorems that depend on them are stated off the tie points; PPO mini-batches at an exact clip boundary are excluded from the gradient comparison",
        "RewardScaler 'norm'/'scale' (running statistics) belong to C20; modelled here: None and int scale",
        "SymNCO invariance loss: inside the shared_step loss model it is an opaque number (its gradient is not modelled); its VALUE is modelled "
        "separately (Train/InvLoss.v) on embeddings that carry their Euclidean norm as checked instance data (norm^2 = <u,u>), so no square "
        "root is needed; torch's cosine_similarity is taken to be <u,v> / (max(|u|,eps) max(|v|,eps)), eps = 1e-8; the row pairing is index arithmetic",
        "float64 rounding: implementation compared with the exact model to 1e-9 relative",
    ]
    mult = 1 if ctx.tier == "quick" else 3

    c, m = unit_unbatch(ctx, T)
    evaluate(ctx, "unbatchify", "nat * nat * nat * list nat", "check_unbatch", c, m, 40)
    c, m = unit_reinforce(ctx, T, fails, mult)
    evaluate(ctx, "reinforce", "Q * nat * Q * nat * option Q * list rstep", "check_reinforce", c, m, 8)
    c, m = unit_pomo(ctx, T, fails, mult)
    evaluate(ctx, "pomo", "Q * bool * option Q * nat * list Q * list Q * Q * list Q", "check_pomo", c, m, 4)
    c, m = unit_symnco(ctx, T, fails, mult)
    evaluate(ctx, "symnco", "Q * bool * nat * nat * Q * Q * list Q * list Q * Q * (Q * Q * Q) * list Q", "check_symnco", c, m, 3)
    c, m = unit_invloss(ctx, T, fails, mult)
    evaluate(ctx, "invariance_loss_value", "il_case", "check_invloss", c, m, 20)
    c, m = unit_ppo(ctx, T, fails, mult)
    evaluate(ctx, "ppo", "Q * (Q * Q * Q * bool * Q) * list (Q * Q) * list (Q * Q) * nat * list prow * Q * option (Q * Q * Q) * list Q",
             "check_ppo", c, m, 4)
    try:
        unit_real(ctx, T, fails)
        ctx.units["real_networks"] = {"runs": ctx.dist.get("real_network_runs", 0)}
    except Exception as e:  # the real-network smoke must not mask the rest; but it is a broken obligation of the check
        import traceback
        ctx.broken.append("spec-on-impl with the real networks crashed: %s" % traceback.format_exc()[-900:])

    # ---------------------------------------------------------------- search when something broke
    if (ctx.broken or not proofs_ok) and not fails.items:
        ctx.notes.append("obligation broken: widening the spec-on-impl search (3x sample, fresh seeds)")
        for fn in (unit_reinforce, unit_pomo, unit_symnco, unit_ppo):
            try:
                fn(ctx, T, fails, 3)
            except Exception as e:
                ctx.notes.append("search run of %s crashed: %r" % (fn.__name__, e))

    ctx.extra["spec_on_impl_failures"] = sorted(fails.items)
    for sig, (_, rep) in sorted(fails.items.items()):
        ctx.failure(sig, rep, tag=sig.split(":")[0].replace("/", "-"))
