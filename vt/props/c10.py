"""C10 -- decoding distributions are proper and confined to feasible actions.

Proof obligations: coq/theories/Properties/C10.v (about the model Decoding/ProcessLogits.v, over every ordered field
K and every ordered logit type L with weights e : L -> K; closed at (Z, Qc, 2^z) and at (R, R, exp)).

Correspondence: the real `process_logits`, `Greedy.step`, `Sampling.step`, `DecodingStrategy.greedy/sampling` are run
on float64 / float32 tensors whose logits are integer multiples of ln 2 (so the weights 2^z are rational) with
temperature in {1, 1/2, 2}; the model computes the exact distribution in Qc inside Coq (Harness/HC10.v) and compares
support (exactly), probabilities (1e-5), the greedy action (a maximiser) and the sampled actions (positive model
probability).  top-p thresholds within 1e-3 of a cumulative probability are not comparable in floats (code 5) unless
the row is on the exact stream (all feasible logits equal, 2^j of them, dyadic top_p: every float operation exact).

Spec-on-impl (every run, directly on what the implementation returned, also with tanh clipping and on Gaussian
logits): normalised, zero mass on masked actions, a most likely feasible action kept and still a mode, top-k rank
rule, top-p kept mass, shift invariance, greedy / sampled actions unmasked.  A failing input is reported through
ctx.failure(signature, replay).

calculate_entropy (rl4co.utils.ops): the stacked outputs of process_logits over T steps are handed to the real
calculate_entropy; the model (Decoding/Entropy.v at (Qc, lnQ), Harness/HC10.v check_ent) evaluates sum_t -sum_a p log p
on the exact step distributions and compares the VALUE (1e-5 float32 / 1e-8 float64); spec-on-impl: the same value from
python Fractions, H >= 0, H = T ln k on uniform rows.  Guard: a +inf log-probability in ONE row of a batch of >= 2 rows
must raise (check_entg).
Batch-level guards (Decoding/BatchGuards.v, check_guard): DecodingStrategy.greedy / sampling and BeamSearch._step are called
directly on batches of >= 2 rows whose masks are INCONSISTENT with the probabilities in none / one / several / all rows;
the model's per-row verdict lifted to the batch (raise as soon as one row selects a masked action; sampling draws again)
is compared with what the call did.
Every direct call into rl4co goes through vt.decode_guard.call (wall clock): a call that does not return is reported as
"<fn>: call into rl4co does not terminate" with its input and the function is not called again."""
import math
from fractions import Fraction

from vt.common import Ctx, cq, clist, cz, cnat, cnatlist, cboollist, coq_eval_shards
from vt import decode_guard as dg

HEADER = ("From Coq Require Import List ZArith QArith.\nFrom RL4CO Require Import Harness.HC10.\n"
          "Import ListNotations.\nOpen Scope Q_scope.\n")
LN2 = math.log(2.0)
TEMPS = {"1": (1.0, 1, 1), "1/2": (0.5, 2, 1), "2": (2.0, 1, 2)}   # name -> (temperature, tm, td): z -> z*tm/td
MARGIN = Fraction(1, 1000)
PROB_TOL = Fraction(1, 100000)

SIG_SHIFT_TANH = "process_logits: shift-invariance-false-under-tanh-clipping"
SIG_TINY_P = "top_p: positive-top_p-below-float-resolution-removes-every-action"
SIG_ENT_VALUE = "calculate_entropy: value-is-not-the-sum-over-steps-of-minus-sum-p-log-p"
SIG_ENT_NEG = "calculate_entropy: negative-entropy"
SIG_ENT_GUARD = "calculate_entropy: non-finite-row-accepted-next-to-a-finite-one"
SIG_ENT_RAISE = "calculate_entropy: raises-on-legal-log-probabilities"
SIG_GREEDY_BATCH = "greedy: masked-action-returned-for-one-row-of-a-batch"
SIG_GREEDY_RAISE = "greedy: raises-although-every-row's-arg-max-is-allowed"
SIG_SAMPLING_BATCH = "sampling: masked-or-zero-probability-action-returned-for-one-row-of-a-batch"
SIG_SAMPLING_RAISE = "sampling: raises-instead-of-resampling-a-masked-draw"
SIG_BEAM_BATCH = "BeamSearch._step: masked-action-accepted-for-one-beam-of-a-batch"
SIG_BEAM_RAISE = "BeamSearch._step: raises-although-every-selected-action-is-allowed"


# ----------------------------------------------------------------------------------------------- exact reference
def ref_row(z, mask, tm, td, k):
    """Independent exact description (the SPEC, not the code): scaled exponents, the top-k survivors by the rank
    rule, and the ascending cumulative probabilities of the distribution that top-p filters."""
    pre = [((zi * tm) // td if m else None) for zi, m in zip(z, mask)]
    feas = [i for i, v in enumerate(pre) if v is not None]
    if k > 0:
        kept = [i for i in feas if sum(1 for j in feas if pre[j] > pre[i]) < k]
    else:
        kept = list(feas)
    zmax = max(pre[i] for i in kept)
    ws = sorted(Fraction(2) ** (pre[i] - zmax) for i in kept)
    tot = sum(ws)
    cums, acc = [], Fraction(0)
    for w in ws:
        acc += w
        cums.append(acc / tot)
    return pre, kept, cums


def margin_of(cums, p):
    if p <= 0 or p >= 1:
        return None
    thr = 1 - Fraction(p)
    return min(abs(c - thr) for c in cums + [Fraction(0)])   # masked / removed entries have cumulative probability 0


# ----------------------------------------------------------------------------------------------- spec on impl
def spec_row(lp, mask, xp, k, p, tol):
    """The property, evaluated on one row of the implementation's output.
    lp: returned log-probabilities, xp: clipped+scaled logits as the implementation computes them (same dtype ops),
    returns a list of (signature, detail)."""
    out = []
    n = len(lp)
    feas = [i for i in range(n) if mask[i]]
    if any(math.isnan(v) for v in lp):
        return [("process_logits: not-a-probability-vector", "NaN in the returned log-probabilities")]
    pr = [math.exp(v) if v != -math.inf else 0.0 for v in lp]
    kept = [i for i in range(n) if lp[i] != -math.inf]
    if abs(sum(pr) - 1.0) > tol or any(v > tol for v in lp):
        out.append(("process_logits: not-a-probability-vector", "sum of probabilities %r" % sum(pr)))
    if any((not mask[i]) and lp[i] != -math.inf for i in range(n)):
        out.append(("process_logits: mass-on-masked-action", "masked action with log-probability > -inf"))
    # a most likely feasible action of the unfiltered distribution is kept and is a mode of the result
    M = max(xp[i] for i in feas)
    top = max(lp)
    if not any(xp[i] == M and lp[i] != -math.inf and lp[i] >= top - 1e-6 for i in feas):
        out.append(("process_logits: most-likely-feasible-action-removed", "no arg-max of the masked logits survives as a mode"))
    # top-k rank rule
    rank = {i: sum(1 for j in feas if xp[j] > xp[i]) for i in feas}
    allowed = [i for i in feas if (k <= 0 or rank[i] < k)]
    if any(i not in allowed for i in kept if mask[i]):
        out.append(("top_k: keeps-an-action-outside-the-top-k", "kept %s allowed %s" % (kept, allowed)))
    p_active = 0.0 < p < 1.0
    if not p_active and sorted(i for i in kept if mask[i]) != sorted(allowed):
        out.append(("top_k: removes-an-action-inside-the-top-k", "kept %s expected %s" % (kept, allowed)))
    # top-p: kept mass of the distribution it filters (after top-k), computed independently in float64
    if p > 0.0 and allowed:
        Ma = max(xp[i] for i in allowed)
        w = {i: math.exp(xp[i] - Ma) for i in allowed}
        tot = sum(w.values())
        mass = sum(w[i] for i in kept if i in w) / tot
        if mass < min(p, 1.0) - max(tol, 1e-9):
            out.append(("top_p: kept-mass-below-top_p", "kept mass %r < top_p %r" % (mass, p)))
    return out


def hexlist(row):
    return [float(v).hex() for v in row]


# ----------------------------------------------------------------------------------------------- generators
def gen_z(rng, n, kind, even):
    if kind == "small":
        z = [rng.randint(-3, 3) for _ in range(n)]
    elif kind == "wide":
        z = [rng.randint(-12, 12) for _ in range(n)]
    elif kind == "huge":
        z = [rng.choice([-60, -59, -58, -1, 0, 1, 58, 59, 60]) for _ in range(n)]
    elif kind == "equal":
        z = [rng.randint(-60, 60)] * n
    else:  # two clusters: ties at the top
        a, b = rng.randint(-5, 5), rng.randint(-5, 5)
        z = [rng.choice([a, b]) for _ in range(n)]
    if even:
        z = [2 * (v // 2) for v in z]
    return z


def gen_mask(rng, n, kind):
    if kind == "single":
        m = [False] * n
        m[rng.randrange(n)] = True
    elif kind == "all":
        m = [True] * n
    else:
        m = [rng.random() < 0.6 for _ in range(n)]
        if not any(m):
            m[rng.randrange(n)] = True
    return m


def choose_k(rng, n, nfeas):
    return rng.choice([0, 0, 1, 2, 3, max(nfeas - 1, 0), nfeas, nfeas + 1, n, n + 5, rng.randint(0, n + 2)])


def choose_p(rng, cums):
    r = rng.random()
    if r < 0.12:
        return 0.0
    if r < 0.22:
        return 1.0
    if r < 0.30:
        return 1e-3
    if r < 0.38:
        return 0.5
    if r < 0.46:
        return 0.9
    if r < 0.52:
        return 1e-4
    if r < 0.80 and len(cums) > 1:      # just beyond the margin on either side of a cumulative probability
        c = float(rng.choice(cums[:-1]))
        p = 1.0 - c + rng.choice([-1, 1]) * rng.choice([2e-3, 5e-3])
        if 1e-3 < p < 1 - 1e-3:
            return p
    return rng.uniform(0.01, 0.99)


def coq_case(tm, td, k, p, z, mask, isupp, iprobs, greedy, sampled, tol, margin):
    return "mk_pl %s %s %s %s %s %s %s %s %s %s %s %s" % (
        cz(tm), cz(td), cnat(min(k, 4000)), cq(Fraction(p)), clist(cz(v) for v in z), cboollist(mask),
        cboollist(isupp), clist(cq(q) for q in iprobs), cz(greedy), cnatlist(sampled), cq(tol), cq(margin))


# ----------------------------------------------------------------------------------------------- the check
def run(ctx: Ctx, proofs_ok: bool):
    try:
        _run(ctx, proofs_ok)
    except dg.DecodeTimeout as exc:      # a guarded call outside the streams' own handlers (process_logits itself) did not return
        ctx.failure(dg.signature(exc.fn_name), {"unit": exc.fn_name, "kind": "no-return", "what": str(exc),
                                                "note": "the call is made on rows of <= 12 logits z*ln2 with a mask; see vt/props/c10.py call_pl"},
                    tag="no_return")


def _run(ctx: Ctx, proofs_ok: bool):
    import torch
    from tensordict import TensorDict
    from rl4co.utils.decoding import process_logits, DecodingStrategy, Greedy, Sampling, BeamSearch
    from rl4co.utils.ops import calculate_entropy

    rng = ctx.rng
    tier = ctx.tier
    torch.set_num_threads(1)          # rows of <= 12 numbers: intra-op threads only cost time
    torch.manual_seed(rng.randrange(2 ** 31))
    thorough = tier == "thorough"
    n_batches = 4000 if thorough else 1100
    n_exact = 600 if thorough else 160
    n_float = 1500 if thorough else 400
    n_draws = 48 if thorough else 16

    ctx.rule = ("rows of 1..12 logits z*ln2 (z small with ties / wide / +-60 / all equal / two clusters; even z for "
                "temperature 2), masks random / single feasible / all feasible, temperature in {1, 1/2, 2}, "
                "top_k in {0,1,2,3,feasible-1,feasible,feasible+1,n,n+5,random}, top_p in {0,1,1e-3,0.5,0.9,1e-4, "
                "2e-3 or 5e-3 beyond a cumulative probability, uniform}, float64 and float32, batches of 1..5 rows; "
                "exact stream: all feasible logits equal, 1/2/4/8 of them, dyadic top_p (float arithmetic exact, "
                "zero margin); float stream (spec-on-impl only): Gaussian logits, temperature 0.3..3, "
                "tanh_clipping in {0, 10}. non-trivial = at least 2 feasible actions and an active filter "
                "(top_k > 0 or 0 < top_p < 1); distinct by hash of the inputs.  calculate_entropy: logprobs[B<=4, T<=4, N<=8] stacked from the "
                "real process_logits (|z| <= 12, top_k in {0,1,2,3,N}, top_p off), the audit input log([[[.5,.5]]]), uniform over 1/2/3/4/8, "
                "point masses, (1/2,1/4,1/4); guard: batches of 2..4 rows with a +inf log-probability in none / one / several / all rows. "
                "Batch guards: greedy / sampling / BeamSearch._step (stubbed _make_beam_step) on batches of 2..5 rows of dyadic "
                "probabilities k/64 whose selection is masked in none / exactly one / several / all rows")
    ctx.assumptions += [
        "mask_logits=True (the documented switch mask_logits=False disables masking by design)",
        "logits finite, mask has at least one True, temperature > 0, 0 <= top_p <= 1 (the code asserts top_p <= 1)",
        "exact arithmetic: tanh, exp, log are not modelled (clip = any monotone map, e = any positive order "
        "embedding); float rounding is outside the theorems -- kept away from the comparison by the ln2 grid, the "
        "1e-3 threshold margin and the 1e-5 probability tolerance",
        "torch.sort is modelled as a stable ascending sort (observed on CPU); a different tie-breaking is reported "
        "as code 9 (support equal up to the choice among equal logits), which no C10 theorem depends on",
        "torch.multinomial returns an index of positive weight (contract, hypothesis of C10_sampling_support)",
        "entropy: the logarithm is abstract in the theorems (lg 1 = 0, lg(xy) = lg x + lg y, strictly increasing; instance (R, ln)); the "
        "executable comparison uses lnQ, a 62-bit fixed-point evaluation of 2*atanh((m-1)/(m+1)) + e*ln2 whose error bound (< 2e-10) is "
        "validated by Examples, not proved; tolerance 2e-5 (float32) / 1e-8 (float64) per decoding step",
        "calculate_entropy's guard is modelled on entry classes (finite / -inf / +inf / nan after nan_to_num); finite log-probabilities "
        "large enough to overflow exp are outside the stream",
        "DecodingStrategy.sampling with a mask: rows without an allowed action of positive probability (the code's loop cannot end) are "
        "outside the stream; every direct call runs under a wall-clock guard (vt/decode_guard.py)",
    ]

    ctx.trusted.append("vt/props/c10.py: ref_row (exact rank/cumulative-probability reference, used to place top_p thresholds and to gate the "
                       "shift check) and spec_row (the property evaluated on the implementation's output)")
    spec_fail = []          # (signature, replay)
    broken_cases = []
    import time as _time
    timing = ctx.extra.setdefault("timing_s", {})
    _t = [_time.time()]

    def mark(name):
        timing[name] = round(_time.time() - _t[0], 1)
        _t[0] = _time.time()

    def record_spec(sig, detail, x, mask, dt, cfg, lp):
        spec_fail.append((sig, {
            "unit": "process_logits", "what": detail, "dtype": str(dt).replace("torch.", ""),
            "logits_hex": hexlist(x), "logits": [float(v) for v in x], "mask": [bool(b) for b in mask],
            "kwargs": cfg, "observed_logprobs": [float(v) for v in lp]}))

    def call_pl(x, mask, cfg, **over):
        kw = dict(cfg)
        kw.update(over)
        return dg.call("process_logits", process_logits, x.clone(), mask.clone(), temperature=kw["temperature"], top_p=kw["top_p"],
                       top_k=kw["top_k"], tanh_clipping=kw["tanh_clipping"], mask_logits=True)

    def no_return(exc, x, mask, dt, cfg, lp=None):
        """a guarded call into rl4co did not return: concrete failure with the input; the function is not called again"""
        spec_fail.append((dg.signature(exc.fn_name), {
            "unit": exc.fn_name, "what": "%s(...) did not return within %.0f s on this input" % (exc.fn_name, exc.secs),
            "dtype": str(dt).replace("torch.", ""), "logits_hex": [hexlist(r) for r in x], "logits": [[float(v) for v in r] for r in x],
            "mask": [[bool(b_) for b_ in r] for r in mask], "kwargs": cfg,
            "logprobs_hex": None if lp is None else [hexlist(r) for r in lp], "kind": "no-return"}))
        ctx.count("guarded_calls_that_did_not_return")

    def processed(x, cfg):
        y = torch.tanh(x) * cfg["tanh_clipping"] if cfg["tanh_clipping"] > 0 else x
        return y / cfg["temperature"]

    def decode_checks(x, mask, cfg, lp, dt):
        """Greedy / Sampling through the public strategy classes; returns (greedy actions, per-row sampled sets)."""
        B = x.shape[0]
        kw = dict(temperature=cfg["temperature"], top_p=cfg["top_p"], top_k=cfg["top_k"],
                  tanh_clipping=cfg["tanh_clipping"], mask_logits=True)
        try:
            g = Greedy(**kw)
            td = dg.call("Greedy.step", g.step, x.clone(), mask.clone(), TensorDict({}, batch_size=[B]))
            ga = [int(a) for a in td["action"]]
            g2 = [int(a) for a in dg.call("DecodingStrategy.greedy", DecodingStrategy.greedy, lp, mask)]
            s = Sampling(**kw)
            sampled = [set() for _ in range(B)]
            if not dg.dead("Sampling.step"):
                td = dg.call("Sampling.step", s.step, x.clone(), mask.clone(), TensorDict({}, batch_size=[B]))
                sampled = [set([int(a)]) for a in td["action"]]
            for _ in range(n_draws):
                if dg.dead("DecodingStrategy.sampling"):
                    break
                for r, a in enumerate(dg.call("DecodingStrategy.sampling", DecodingStrategy.sampling, lp, mask)):
                    sampled[r].add(int(a))
        except dg.DecodeTimeout as exc:
            no_return(exc, x, mask, dt, cfg, lp)
            return [-1] * B, [set() for _ in range(B)]
        except (AssertionError, RuntimeError) as exc:     # the code's own "infeasible action selected" assertion, or multinomial refusing the weights
            record_spec("greedy/sampling: decoding-step-raises", "%s: %s" % (type(exc).__name__, str(exc)[:200]),
                        x[0], [bool(b_) for b_ in mask[0]], dt, cfg, [float(v) for v in lp[0]])
            return [-1] * B, [set() for _ in range(B)]
        for r in range(B):
            lpr = [float(v) for v in lp[r]]
            mr = [bool(b) for b in mask[r]]
            for a in (ga[r], g2[r]):
                if not (0 <= a < len(mr)) or not mr[a] or lpr[a] < max(lpr):
                    record_spec("greedy: infeasible-or-non-maximal-action", "greedy action %d" % a, x[r], mr, dt, cfg, lpr)
            for a in sampled[r]:
                if not (0 <= a < len(mr)) or not mr[a] or lpr[a] == -math.inf:
                    record_spec("sampling: infeasible-or-zero-probability-action", "sampled action %d" % a, x[r], mr, dt, cfg, lpr)
            ctx.count("sampling_draws", n_draws + 1)
        return ga, sampled

    # ------------------------------------------------------------------ A. ln2-grid stream (correspondence + spec)
    cases, meta = [], []
    for b in range(n_batches):
        n = rng.randint(1, 12)
        B = rng.randint(1, 5)
        dt = torch.float64 if rng.random() < 0.5 else torch.float32
        tname = rng.choice(["1", "1", "1/2", "2"])
        T, tm, td_ = TEMPS[tname]
        zs, masks = [], []
        for _ in range(B):
            zkind = rng.choice(["small", "small", "wide", "huge", "equal", "clusters"])
            mkind = rng.choice(["random", "random", "random", "random", "random", "single", "all", "all"])
            zs.append(gen_z(rng, n, zkind, even=(td_ == 2)))
            masks.append(gen_mask(rng, n, mkind))
            ctx.count("rows_z_" + zkind)
            ctx.count("rows_mask_" + mkind)
        nf0 = sum(masks[0])
        k = choose_k(rng, n, nf0)
        _, _, cums0 = ref_row(zs[0], masks[0], tm, td_, k)
        p = choose_p(rng, cums0)
        cfg = {"temperature": T, "top_p": p, "top_k": k, "tanh_clipping": 0}
        x = torch.tensor([[v * LN2 for v in z] for z in zs], dtype=dt)
        mask = torch.tensor(masks, dtype=torch.bool)
        lp = call_pl(x, mask, cfg)
        xp = processed(x, cfg)
        tol = 1e-5 if dt == torch.float32 else 1e-9
        nan = bool(torch.isnan(lp).any())
        ga, sampled = ([-1] * B, [set() for _ in range(B)]) if nan else decode_checks(x, mask, cfg, lp, dt)
        # shift invariance on the implementation (tanh off): add c*ln2 to every logit
        c = rng.choice([-40, -7, -1, 1, 3, 16, 50]) * (2 if td_ == 2 else 1)
        lp_sh = call_pl(x + c * LN2, mask, cfg)
        for r in range(B):
            lpr = [float(v) for v in lp[r]]
            mr = masks[r]
            for sig, detail in spec_row(lpr, mr, [float(v) for v in xp[r]], k, p, tol):
                record_spec(sig, detail, x[r], mr, dt, cfg, lpr)
            pre, kept_k, cums = ref_row(zs[r], mr, tm, td_, k)
            mg = margin_of(cums, p)
            comparable = mg is None or mg >= MARGIN
            if comparable and not nan:
                l2 = [float(v) for v in lp_sh[r]]
                same_supp = [v == -math.inf for v in l2] == [v == -math.inf for v in lpr]
                dmax = max(abs((math.exp(a) if a != -math.inf else 0.0) - (math.exp(b_) if b_ != -math.inf else 0.0))
                           for a, b_ in zip(l2, lpr))
                if not same_supp or dmax > 10 * tol:
                    record_spec("process_logits: shift-invariance-false-without-clipping",
                                "adding %d*ln2 to all logits changes the distribution (max diff %r, same support %s)" % (c, dmax, same_supp),
                                x[r], mr, dt, cfg, lpr)
                ctx.count("shift_checks")
            else:
                ctx.count("shift_checks_skipped_threshold_within_margin")
            isupp = [v != -math.inf and not math.isnan(v) for v in lpr]
            iprobs = [Fraction(math.exp(v)) if (v != -math.inf and not math.isnan(v)) else Fraction(0) for v in lpr]
            cases.append(coq_case(tm, td_, k, p, zs[r], mr, isupp, iprobs, ga[r], sorted(sampled[r]), PROB_TOL, MARGIN))
            meta.append({"stream": "ln2-grid", "dtype": str(dt).replace("torch.", ""), "temperature": tname, "top_k": k,
                         "top_p": p, "z": zs[r], "mask": mr, "impl_logprobs": lpr, "greedy": ga[r],
                         "sampled": sorted(sampled[r]), "margin_ok": comparable})
            nf = sum(mr)
            ctx.seen({"z": zs[r], "m": mr, "T": tname, "k": k, "p": p, "dt": str(dt)},
                     nontrivial=nf >= 2 and (k > 0 or 0.0 < p < 1.0))
            ctx.count("n_%02d" % n)
            ctx.count("dtype_" + str(dt).replace("torch.", ""))
            ctx.count("temperature_" + tname)
            ctx.count("top_k_" + ("off" if k == 0 else "lt_feasible" if k < nf else "eq_feasible" if k == nf else "gt_size" if k > n else "gt_feasible"))
            ctx.count("top_p_" + ("0" if p == 0 else "1" if p == 1 else "active"))
            if nf == 1:
                ctx.count("single_feasible_rows")
            if len(set(v for v in pre if v is not None)) < nf:
                ctx.count("rows_with_tied_feasible_logits")
            if max(abs(v) for v in zs[r]) >= 58:
                ctx.count("rows_with_huge_logits")
            if not comparable:
                ctx.count("rows_threshold_within_margin")
            top_z = max(v for v in pre if v is not None)
            if any(pre[i] == top_z and lpr[i] == -math.inf for i in range(n) if pre[i] is not None):
                ctx.count("rows_where_top_p_cut_one_of_several_tied_maxima")      # C10_keeps_every_argmax_refuted, on the code
        ctx.count("batches_B%d" % B)
        if b < 3:
            ctx.sample({"stream": "ln2-grid", "dtype": str(dt), "kwargs": cfg, "z (logit = z*ln2)": zs, "mask": masks,
                        "impl_probs": [[round(math.exp(float(v)), 6) if float(v) != -math.inf else 0.0 for v in row] for row in lp],
                        "greedy": ga, "sampled": [sorted(s_) for s_ in sampled]})

    mark("A_ln2_grid_python")
    # ------------------------------------------------------------------ B. exact stream (threshold met with equality)
    n_eq_hit = 0
    for b in range(n_exact):
        nfeas = rng.choice([1, 2, 4, 8])
        n = rng.randint(nfeas, 12)
        dt = torch.float64 if b % 2 == 0 else torch.float32
        tname = rng.choice(["1", "1/2", "2"])
        T, tm, td_ = TEMPS[tname]
        zc = rng.randint(-30, 30) * (2 if td_ == 2 else 1)
        pos = rng.sample(range(n), nfeas)
        mr = [i in pos for i in range(n)]
        z = [zc if mr[i] else rng.randint(-30, 30) * (2 if td_ == 2 else 1) for i in range(n)]
        p = rng.choice([0.5, 0.25, 0.75, 0.125, 0.875])
        k = rng.choice([0, 0, nfeas, n, 1, 3])       # ties at the k-th value: top-k keeps all of them
        cfg = {"temperature": T, "top_p": p, "top_k": k, "tanh_clipping": 0}
        x = torch.tensor([[v * LN2 for v in z]], dtype=dt)
        mask = torch.tensor([mr], dtype=torch.bool)
        lp = call_pl(x, mask, cfg)
        lpr = [float(v) for v in lp[0]]
        tol = 1e-5 if dt == torch.float32 else 1e-9
        for sig, detail in spec_row(lpr, mr, [float(v) for v in processed(x, cfg)[0]], k, p, tol):
            record_spec(sig, detail, x[0], mr, dt, cfg, lpr)
        if Fraction(p) * nfeas % 1 == 0:
            n_eq_hit += 1
        isupp = [v != -math.inf and not math.isnan(v) for v in lpr]
        iprobs = [Fraction(math.exp(v)) if (v != -math.inf and not math.isnan(v)) else Fraction(0) for v in lpr]
        cases.append(coq_case(tm, td_, k, p, z, mr, isupp, iprobs, -1, [], PROB_TOL, Fraction(0)))
        meta.append({"stream": "exact", "dtype": str(dt).replace("torch.", ""), "temperature": tname, "top_k": k, "top_p": p,
                     "z": z, "mask": mr, "impl_logprobs": lpr, "margin_ok": True})
        ctx.seen({"ex": z, "m": mr, "T": tname, "k": k, "p": p, "dt": str(dt)}, nontrivial=nfeas >= 2)
        ctx.count("exact_stream_rows")
    ctx.count("exact_stream_rows_threshold_met_with_equality", n_eq_hit)

    mark("B_exact_python")
    try:
        codes = coq_eval_shards("cases_C10_pl", HEADER, "pl_case", "check_pl", cases, shard=max(60, len(cases) // 16 + 1))
    except RuntimeError as e:
        codes = None
        ctx.broken.append("correspondence C10/process_logits could not be evaluated: %s" % str(e)[-600:])
    if codes is not None:
        hist = {}
        for cde in codes:
            hist[cde] = hist.get(cde, 0) + 1
        bad = [(i, cde) for i, cde in enumerate(codes) if cde not in (0, 5, 9)]
        ctx.units["process_logits+greedy+sampling"] = {
            "cases": len(codes), "agree": hist.get(0, 0), "disagreements": len(bad),
            "not_comparable_threshold_within_margin": hist.get(5, 0), "tie_broken_differently": hist.get(9, 0),
            "codes": {str(k_): v for k_, v in sorted(hist.items())}}
        ctx.count("not_comparable_threshold_within_margin", hist.get(5, 0))
        if hist.get(9, 0):
            ctx.notes.append("%d rows: top-p cut a different member of a class of equal logits than the stable-sort model "
                             "(support equal up to that choice; no theorem depends on it)" % hist[9])
        names = {1: "input outside the model's well-formedness", 2: "length", 3: "support differs", 4: "probability differs",
                 6: "greedy action is not a maximiser of the model distribution", 7: "sampled action has model probability 0"}
        if bad:
            i, cde = bad[0]
            ctx.broken.append("correspondence C10/process_logits: model and implementation differ on %d of %d rows (first: row %d, code %d = %s) %s"
                              % (len(bad), len(codes), i, cde, names.get(cde, "?"), {k_: meta[i][k_] for k_ in ("stream", "dtype", "temperature", "top_k", "top_p", "z", "mask", "impl_logprobs")}))
            broken_cases = [meta[i] for i, _ in bad[:25]]

    mark("AB_coq")
    # ------------------------------------------------------------------ C. float stream: spec-on-impl only
    def float_stream(count, tag):
        for b in range(count):
            n = rng.randint(1, 12)
            B = rng.randint(1, 5)
            dt = torch.float64 if rng.random() < 0.4 else torch.float32
            scale = rng.choice([0.1, 1.0, 5.0, 30.0])
            gen = torch.Generator().manual_seed(rng.randrange(2 ** 31))
            x = (torch.randn(B, n, generator=gen, dtype=torch.float64) * scale).to(dt)
            if rng.random() < 0.3 and n > 1:          # force exact ties
                x[:, rng.randrange(n)] = x[:, rng.randrange(n)]
            masks = [gen_mask(rng, n, rng.choice(["random", "random", "single", "all"])) for _ in range(B)]
            mask = torch.tensor(masks, dtype=torch.bool)
            C = rng.choice([0, 0, 10.0, 10.0, 1.0])
            cfg = {"temperature": rng.choice([1.0, 0.3, 0.7, 1.5, 3.0]), "top_p": rng.choice([0.0, 1.0, 0.5, 0.9, 1e-3, rng.uniform(0.01, 0.99)]),
                   "top_k": choose_k(rng, n, sum(masks[0])), "tanh_clipping": C}
            lp = call_pl(x, mask, cfg)
            xp = processed(x, cfg)
            tol = 1e-5 if dt == torch.float32 else 1e-9
            if C > 0:
                # structure of the model: clipping is the first stage, a map applied to every logit before mask and
                # temperature -- so clipping by hand and switching it off must give the very same tensor
                lp_pre = call_pl(torch.tanh(x) * C, mask, cfg, tanh_clipping=0)
                ctx.count("clip_stage_checks")
                if not torch.equal(torch.nan_to_num(lp, nan=7.0), torch.nan_to_num(lp_pre, nan=7.0)):
                    clip_stage_bad.append({"dtype": str(dt), "kwargs": cfg, "logits_hex": hexlist(x[0]), "mask": masks[0]})
            if not bool(torch.isnan(lp).any()):
                decode_checks(x, mask, cfg, lp, dt)
            for r in range(B):
                lpr = [float(v) for v in lp[r]]
                for sig, detail in spec_row(lpr, masks[r], [float(v) for v in xp[r]], cfg["top_k"], cfg["top_p"], tol):
                    record_spec(sig, detail, x[r], masks[r], dt, cfg, lpr)
                ctx.seen({"f": hexlist(x[r]), "m": masks[r], "cfg": cfg}, nontrivial=sum(masks[r]) >= 2 and (cfg["top_k"] > 0 or 0 < cfg["top_p"] < 1))
                ctx.count(tag + "_rows")
                ctx.count(tag + ("_rows_tanh_on" if C > 0 else "_rows_tanh_off"))
            # shift invariance: holds without clipping (filters off, so no threshold can be crossed by rounding) ...
            cfg0 = dict(cfg, top_p=0.0, top_k=0)
            csh = rng.choice([-5.0, 0.5, 3.0])
            a = call_pl(x, mask, cfg0).exp()
            bb = call_pl(x + csh, mask, cfg0).exp()
            d = float((a - bb).abs().max())
            if C > 0:
                if d > 1e-3:           # ... and is false with tanh clipping (known finding, reported when it shows)
                    r = int((a - bb).abs().max(dim=1)[0].argmax())
                    spec_fail.append((SIG_SHIFT_TANH, {
                        "unit": "process_logits", "what": "adding %r to every logit changes the distribution by %r (tanh_clipping=%r)" % (csh, d, C),
                        "dtype": str(dt).replace("torch.", ""), "logits_hex": hexlist(x[r]), "logits": [float(v) for v in x[r]],
                        "mask": masks[r], "kwargs": cfg0, "shift": csh,
                        "observed_probs": [float(v) for v in a[r]], "observed_probs_shifted": [float(v) for v in bb[r]]}))
            elif d > (1e-4 if dt == torch.float32 else 1e-9) * max(1.0, scale):
                record_spec("process_logits: shift-invariance-false-without-clipping", "shift %r changes the distribution by %r" % (csh, d),
                            x[0], masks[0], dt, cfg0, [float(v) for v in call_pl(x, mask, cfg0)[0]])

    clip_stage_bad = []
    float_stream(n_float, "float_stream")
    ctx.units["clip stage (tanh first, elementwise)"] = {"cases": ctx.dist.get("clip_stage_checks", 0), "disagreements": len(clip_stage_bad)}
    if clip_stage_bad:
        ctx.broken.append("correspondence C10/clip-stage: process_logits(x, tanh_clipping=C) differs from process_logits(tanh(x)*C, tanh_clipping=0) "
                          "on %d batches (first: %s)" % (len(clip_stage_bad), clip_stage_bad[0]))

    # ------------------------------------------------------------------ D. deterministic probes
    # D1 shift invariance under tanh clipping (the Coq counterexample C10_shift_invariant_refuted_under_clipping, on the code)
    x = torch.tensor([[0.0, 1.0 * LN2]], dtype=torch.float64)
    m2 = torch.ones(1, 2, dtype=torch.bool)
    cfgc = {"temperature": 1.0, "top_p": 0.0, "top_k": 0, "tanh_clipping": 10.0}
    a = call_pl(x, m2, cfgc).exp()
    bb = call_pl(x + 2 * LN2, m2, cfgc).exp()
    ctx.extra["tanh_shift_probe"] = {"probs": [float(v) for v in a[0]], "probs_after_adding_2ln2": [float(v) for v in bb[0]]}
    if float((a - bb).abs().max()) > 1e-3:
        spec_fail.insert(0, (SIG_SHIFT_TANH, {
            "unit": "process_logits", "what": "adding 2*ln2 to both logits changes the distribution (tanh_clipping=10); inherent to tanh clipping",
            "dtype": "float64", "logits": [0.0, LN2], "logits_hex": hexlist(x[0]), "mask": [True, True], "kwargs": cfgc, "shift": 2 * LN2,
            "observed_probs": [float(v) for v in a[0]], "observed_probs_shifted": [float(v) for v in bb[0]]}))
    # D2 a positive top_p below the resolution of the dtype: 1 - top_p rounds to 1 and the last cumulative probability is removed too
    tiny = []
    for dt, p in ((torch.float32, 1e-8), (torch.float32, 2.9e-8), (torch.float64, 1e-17), (torch.float32, 1e-7), (torch.float64, 1e-15)):
        for z in ([0, 1, 2], [3, 3, 3, 3, 3, 3, 3], [5, -5, 0, 1, 1, 2, -3, 4, 4, 0, 1, 2]):
            x = torch.tensor([[v * LN2 for v in z]], dtype=dt)
            mk = torch.ones(1, len(z), dtype=torch.bool)
            cfgp = {"temperature": 1.0, "top_p": p, "top_k": 0, "tanh_clipping": 0}
            lp = call_pl(x, mk, cfgp)
            ctx.count("tiny_top_p_probes")
            if bool(torch.isnan(lp).any()) or bool((lp == -math.inf).all()):
                tiny.append({"unit": "process_logits", "what": "0 < top_p = %r <= 1 returns NaN for every action: 1 - top_p rounds to 1.0 in %s, so "
                             "`cumulative_probs <= 1 - top_p` also removes the last (most likely) action" % (p, str(dt).replace("torch.", "")),
                             "dtype": str(dt).replace("torch.", ""), "logits": [float(v) for v in x[0]], "logits_hex": hexlist(x[0]),
                             "mask": [True] * len(z), "kwargs": cfgp, "observed_logprobs": [float(v) for v in lp[0]]})
    ctx.extra["tiny_top_p_probe_failures"] = len(tiny)
    if tiny:
        spec_fail.append((SIG_TINY_P, min(tiny, key=lambda t: len(t["logits"]))))
    # D2' the same tiny top_p values with the whole property judged on the output (some actions masked, a single feasible
    # action, all feasible): the guard that always keeps the most likely action is the only thing left of the filter here
    for dt, p in ((torch.float32, 1e-8), (torch.float32, 1e-10), (torch.float64, 1e-17), (torch.float32, 1e-6), (torch.float64, 1e-12)):
        for z, mkl in (([0, 1, 2], [True, True, True]), ([0, 1, 2, 5], [True, True, True, False]), ([4, 1, 2, 3], [False, True, False, False]),
                       ([5, -5, 0, 1, 1, 2, -3, 4, 4, 0, 1, 2], [False] + [True] * 11), ([3, 3, 1, 3], [True, True, True, False])):
            x = torch.tensor([[v * LN2 for v in z]], dtype=dt)
            mk = torch.tensor([mkl])
            cfgp = {"temperature": 1.0, "top_p": p, "top_k": 0, "tanh_clipping": 0}
            lp = call_pl(x, mk, cfgp)
            ctx.count("tiny_top_p_spec_probes")
            for sig, detail in spec_row([float(v) for v in lp[0]], mkl, [float(v) for v in x[0]], 0, p, 1e-5 if dt == torch.float32 else 1e-9):
                if sig == "process_logits: not-a-probability-vector" and any(math.isnan(float(v)) for v in lp[0]):
                    sig = SIG_TINY_P          # the recorded float-resolution mechanism, if it ever returns
                spec_fail.append((sig, {"unit": "process_logits", "what": detail, "dtype": str(dt).replace("torch.", ""),
                                        "logits": [float(v) for v in x[0]], "logits_hex": hexlist(x[0]), "mask": mkl, "kwargs": cfgp,
                                        "observed_logprobs": [float(v) for v in lp[0]]}))

    mark("CD_float_and_probes")
    # ------------------------------------------------------------------ E. calculate_entropy: value and guard
    n_ent = 420 if thorough else 110
    n_entg = 160 if thorough else 48
    ent_cases, ent_meta = [], []

    def exact_dist(z, mr, tm, td_, k):
        """SPEC: the masked normalised distribution at weights 2^z after the top-k rank rule, as Fractions"""
        pre, kept, _ = ref_row(z, mr, tm, td_, k)
        zmax = max(pre[i] for i in kept)
        wts = {i: Fraction(2) ** (pre[i] - zmax) for i in kept}
        tot = sum(wts.values())
        return [wts.get(i, Fraction(0)) / tot for i in range(len(z))]

    def entropy_case(zs, masks, tname, k, dt, what):
        """zs[b][t] = z list, masks[b][t] = mask; one call calculate_entropy(logprobs[B, T, N])"""
        T_, tm, td_ = TEMPS[tname]
        Bn, Tn = len(zs), len(zs[0])
        cfg = {"temperature": T_, "top_p": 0.0, "top_k": k, "tanh_clipping": 0}
        steps = []
        for t in range(Tn):
            x = torch.tensor([[v * LN2 for v in zs[b][t]] for b in range(Bn)], dtype=dt)
            mk = torch.tensor([masks[b][t] for b in range(Bn)], dtype=torch.bool)
            steps.append(call_pl(x, mk, cfg))
        lp = torch.stack(steps, 1)                                       # [B, T, N]
        rep = {"unit": "calculate_entropy", "kind": "entropy", "what": what, "dtype": str(dt).replace("torch.", ""),
               "z (logit = z*ln2)": zs, "mask": masks, "kwargs": cfg,
               "logprobs_hex": [[hexlist(r) for r in row] for row in lp]}
        try:
            H = dg.call("calculate_entropy", calculate_entropy, lp.clone())
        except dg.DecodeTimeout as exc:
            spec_fail.append((dg.signature(exc.fn_name), dict(rep, kind="no-return")))
            return
        except AssertionError as exc:
            spec_fail.append((SIG_ENT_RAISE, dict(rep, observed="AssertionError: %s" % str(exc)[:100])))
            return
        Hl = [float(v) for v in H.reshape(-1)]
        tol = (2e-5 if dt == torch.float32 else 1e-8)
        spec = []
        for b in range(Bn):
            h = 0.0
            for t in range(Tn):
                for pq in exact_dist(zs[b][t], masks[b][t], tm, td_, k):
                    if pq > 0:
                        h -= float(pq) * math.log(pq)
            spec.append(h)
        rep.update(observed_entropy=Hl, expected_entropy=spec)
        if len(Hl) != Bn:
            spec_fail.append((SIG_ENT_VALUE, dict(rep, what="one value per batch row expected, got shape %s" % (tuple(H.shape),))))
            return
        for b in range(Bn):
            if Hl[b] < -tol:
                spec_fail.append((SIG_ENT_NEG, dict(rep, row=b)))
            elif abs(Hl[b] - spec[b]) > tol * max(1, Tn):
                spec_fail.append((SIG_ENT_VALUE, dict(rep, row=b)))
        ent_cases.append("mk_ent %s %s %s %s %s %s" % (
            cz(tm), cz(td_), cnat(min(k, 4000)),
            clist(clist("(%s, %s)" % (clist(cz(v) for v in zs[b][t]), cboollist(masks[b][t])) for t in range(Tn)) for b in range(Bn)),
            clist(cq(Fraction(v)) for v in Hl), cq(Fraction(tol * max(1, Tn)).limit_denominator(10 ** 12))))
        ent_meta.append({"stream": what, "dtype": str(dt).replace("torch.", ""), "temperature": tname, "top_k": k, "z": zs, "mask": masks,
                         "impl_entropy": Hl, "spec_entropy": spec})
        nontriv = any(sum(masks[b][t]) >= 2 for b in range(Bn) for t in range(Tn))
        ctx.seen({"ent": zs, "m": masks, "T": tname, "k": k, "dt": str(dt)}, nontrivial=nontriv)
        ctx.count("entropy_calls")
        ctx.count("entropy_rows", Bn)
        ctx.count("entropy_" + what)
        if len(ctx.samples) < 5 and what == "audit":
            ctx.sample({"stream": "calculate_entropy", "z (logit = z*ln2)": zs, "mask": masks, "entropy": Hl, "expected": spec})

    # the audit's input log([[[.5, .5]]]) -> + ln 2, uniform over k, point masses, (1/2, 1/4, 1/4), several steps / rows
    for dt in (torch.float64, torch.float32):
        entropy_case([[[0, 0]]], [[[True, True]]], "1", 0, dt, "audit")
        for kf in (1, 2, 3, 4, 8):
            entropy_case([[[5] * kf + [9]]], [[[True] * kf + [False]]], "1", 0, dt, "uniform")
            entropy_case([[[2] * kf] * 3, [[-4] * kf] * 3], [[[True] * kf] * 3] * 2, "1/2", 0, dt, "uniform")
        entropy_case([[[1, 0, 0]], [[3, 7, 1]]], [[[True, True, True]], [[False, True, False]]], "1", 0, dt, "dyadic")
        entropy_case([[[2, 1, 0, 0], [0, 0, 0, 0]]], [[[True] * 4, [True, False, True, False]]], "1", 0, dt, "dyadic")
    for b in range(n_ent):
        n = rng.randint(1, 8)
        Bn = rng.randint(1, 4)
        Tn = rng.randint(1, 4)
        dt = torch.float64 if rng.random() < 0.5 else torch.float32
        tname = rng.choice(["1", "1", "1/2", "2"])
        even = TEMPS[tname][2] == 2
        zs = [[gen_z(rng, n, rng.choice(["small", "small", "wide", "equal", "clusters"]), even) for _ in range(Tn)] for _ in range(Bn)]
        for row in zs:                              # keep the rationals small: |z| <= 12 in this stream
            for t in range(Tn):
                row[t] = [max(-12, min(12, v)) for v in row[t]]
        masks = [[gen_mask(rng, n, rng.choice(["random", "random", "random", "single", "all"])) for _ in range(Tn)] for _ in range(Bn)]
        k = rng.choice([0, 0, 0, 1, 2, 3, n])
        entropy_case(zs, masks, tname, k, dt, "random")
    mark("E_entropy_python")
    if ent_cases:
        try:
            ecodes = coq_eval_shards("cases_C10_ent", HEADER, "ent_case", "check_ent", ent_cases, shard=max(12, len(ent_cases) // 12 + 1))
        except RuntimeError as e:
            ecodes = None
            ctx.broken.append("correspondence C10/calculate_entropy could not be evaluated: %s" % str(e)[-600:])
        if ecodes is not None:
            ebad = [(i, c) for i, c in enumerate(ecodes) if c != 0]
            ctx.units["calculate_entropy (value) vs Decoding/Entropy.v at (Qc, lnQ)"] = {
                "cases": len(ecodes), "rows": ctx.dist.get("entropy_rows", 0), "disagreements": len(ebad)}
            if ebad:
                i, c = ebad[0]
                enames = {21: "step outside the model's well-formedness", 22: "number of rows", 3: "value differs", 4: "value differs: wrong sign"}
                ctx.broken.append("correspondence C10/calculate_entropy: model and implementation differ on %d of %d calls (first: call %d, code %d = row %d, %s) %s"
                                  % (len(ebad), len(ecodes), i, c, c // 1000, enames.get(c % 1000 if c >= 1000 else c, "?"), ent_meta[i]))

    mark("E_entropy_coq")
    # the guard: a +inf log-probability in none / one / several / all rows of a batch of >= 2 rows
    eg_cases, eg_meta = [], []
    for b in range(n_entg):
        Bn = rng.randint(2, 4)
        Tn = rng.randint(1, 2)
        n = rng.randint(2, 4)
        dt = torch.float64 if rng.random() < 0.5 else torch.float32
        x = torch.tensor([[[rng.randint(-3, 3) * LN2 for _ in range(n)] for _ in range(Tn)] for _ in range(Bn)], dtype=dt)
        mk = torch.tensor([[gen_mask(rng, n, "random") for _ in range(Tn)] for _ in range(Bn)], dtype=torch.bool)
        cfg = {"temperature": 1.0, "top_p": 0.0, "top_k": 0, "tanh_clipping": 0}
        lp = torch.stack([call_pl(x[:, t], mk[:, t], cfg) for t in range(Tn)], 1)
        nbad = rng.choice([0, 1, 1, 1, 1, 2, Bn]) if b >= 4 else (1, 1, 0, Bn)[b]
        bad_rows = set(rng.sample(range(Bn), min(nbad, Bn)))
        for r in range(Bn):
            if r in bad_rows:
                lp[r, rng.randrange(Tn), rng.randrange(n)] = math.inf
            elif rng.random() < 0.3:
                lp[r, rng.randrange(Tn), rng.randrange(n)] = math.nan          # nan_to_num(nan=0.0): harmless
        classes = [[(2 if v == math.inf else 1 if v == -math.inf else 3 if math.isnan(v) else 0) for v in (float(u) for u in lp[r].reshape(-1))]
                   for r in range(Bn)]
        rep = {"unit": "calculate_entropy", "kind": "entropy-guard", "dtype": str(dt).replace("torch.", ""),
               "logprobs_hex": [[hexlist(r_) for r_ in row] for row in lp], "rows_with_a_+inf_log_probability": sorted(bad_rows)}
        try:
            H = dg.call("calculate_entropy", calculate_entropy, lp.clone())
            raised = False
            rep["observed"] = [float(v) for v in H.reshape(-1)]
        except dg.DecodeTimeout as exc:
            spec_fail.append((dg.signature(exc.fn_name), dict(rep, kind="no-return")))
            continue
        except AssertionError as exc:
            raised = True
            rep["observed"] = "AssertionError: %s" % str(exc)[:80]
        if bad_rows and not raised:
            spec_fail.append((SIG_ENT_GUARD, dict(rep, what="%d of %d rows hold a +inf log-probability (entropy -inf); the call must raise 'Entropy is not finite' "
                                                  "but returned %s" % (len(bad_rows), Bn, rep["observed"]))))
        if raised and not bad_rows:
            spec_fail.append((SIG_ENT_RAISE, dict(rep, what="no row holds a +inf log-probability, the call raised")))
        eg_cases.append("(%s, %s)" % (clist(cnatlist(c_) for c_ in classes), "true" if raised else "false"))
        eg_meta.append({"B": Bn, "bad_rows": sorted(bad_rows), "raised": raised})
        ctx.seen({"entg": rep["logprobs_hex"]}, nontrivial=0 < len(bad_rows) < Bn)
        ctx.count("entropy_guard_calls")
        ctx.count("entropy_guard_bad_rows_%s" % ("none" if not bad_rows else "all" if len(bad_rows) == Bn else "some"))

    # ------------------------------------------------------------------ F. batch-level guards of greedy / sampling / BeamSearch._step
    n_guard = 500 if thorough else 150
    g_cases, g_meta = [], []

    def dyadic_row(n):
        """a probability vector with entries k/64"""
        cuts = sorted(rng.randint(0, 64) for _ in range(n - 1))
        parts = [b_ - a_ for a_, b_ in zip([0] + cuts, cuts + [64])]
        return [Fraction(v, 64) for v in parts]

    def first_argmax(row):
        return max(range(len(row)), key=lambda i: (row[i], -i))

    for b in range(n_guard):
        kind = (0, 1, 2)[b % 3]
        Bn = rng.randint(2, 5)
        n = rng.randint(2, 6)
        dt = torch.float64 if rng.random() < 0.5 else torch.float32
        nbad = rng.choice([0, 1, 1, 1, 1, 2, Bn]) if b >= 9 else (1, 1, 1, 0, 0, 0, Bn, 2, 1)[b]
        nbad = min(nbad, Bn)
        bad_rows = set(rng.sample(range(Bn), nbad))
        probs = [dyadic_row(n) for _ in range(Bn)]
        masks = [gen_mask(rng, n, "random") for _ in range(Bn)]
        sel = [0] * Bn
        if kind == 1:
            # sampling: a bad row puts 1/2 .. 7/8 of its mass on a masked action and the rest on an allowed one; at most two bad rows
            bad_rows = set(sorted(bad_rows)[:2])
            for r in range(Bn):
                if r in bad_rows:
                    keep, other = rng.sample(range(n), 2)
                    f = Fraction(rng.choice([8, 16, 32]), 64)
                    probs[r] = [f if i == keep else 1 - f if i == other else Fraction(0) for i in range(n)]
                    masks[r] = [i == keep or (i != other and rng.random() < 0.5) for i in range(n)]
                else:
                    masks[r] = [probs[r][i] > 0 or rng.random() < 0.3 for i in range(n)]
        else:
            for r in range(Bn):
                a = first_argmax(probs[r]) if kind == 0 else rng.randrange(n)
                sel[r] = a
                masks[r][a] = r not in bad_rows
                if not any(masks[r]):
                    masks[r][(a + 1) % n] = True
        lp = torch.tensor([[math.log(v) if v > 0 else -math.inf for v in row] for row in probs], dtype=torch.float64).to(dt)
        mk = torch.tensor(masks, dtype=torch.bool)
        name = ("DecodingStrategy.greedy", "DecodingStrategy.sampling", "BeamSearch._step")[kind]
        rep = {"unit": name, "kind": "batch-guard", "dtype": str(dt).replace("torch.", ""), "probs_64ths": [[int(v * 64) for v in row] for row in probs],
               "logprobs_hex": [hexlist(r_) for r_ in lp], "mask": masks, "rows_whose_selection_is_masked": sorted(bad_rows)}
        parent = list(range(Bn))
        if dg.dead(name):
            continue
        try:
            if kind == 0:
                out = dg.call(name, DecodingStrategy.greedy, lp.clone(), mk.clone())
            elif kind == 1:
                tseed = rng.randrange(2 ** 31)
                rep["torch_seed"] = tseed
                torch.manual_seed(tseed)
                out = dg.call(name, DecodingStrategy.sampling, lp.clone(), mk.clone())
            else:
                rng.shuffle(parent)
                rep["selected"], rep["parent_beam"] = sel, parent
                bs = BeamSearch(beam_width=2, select_best=False)
                bs._make_beam_step = lambda logprobs, _s=sel, _p=parent: (torch.tensor(_s), torch.tensor(_p))
                masks_in = [None] * Bn                      # _step re-indexes td / logprobs / mask by the parent beam
                for r in range(Bn):
                    masks_in[parent[r]] = masks[r]
                rep["mask_before_reindexing"] = masks_in
                out = dg.call(name, bs._step, lp.clone(), torch.tensor(masks_in, dtype=torch.bool), TensorDict({}, batch_size=[Bn]))[1]
            obs = [int(a) for a in out]
        except dg.DecodeTimeout as exc:
            spec_fail.append((dg.signature(exc.fn_name), dict(rep, kind="no-return", what="%s(logprobs, mask) did not return within %.0f s" % (name, exc.secs))))
            ctx.count("guarded_calls_that_did_not_return")
            continue
        except AssertionError as exc:
            obs = None
            rep["observed"] = "AssertionError: %s" % str(exc)[:80]
        if obs is not None:
            rep["observed"] = obs
            wrong = [r for r in range(Bn) if not (0 <= obs[r] < n) or not masks[r][obs[r]] or (kind == 1 and probs[r][obs[r]] == 0)]
            if wrong:
                spec_fail.append(((SIG_GREEDY_BATCH, SIG_SAMPLING_BATCH, SIG_BEAM_BATCH)[kind],
                                  dict(rep, what="returned %s: the action of row(s) %s is masked in that row (batch of %d rows, %d of them with a masked selection)"
                                       % (obs, wrong, Bn, len(bad_rows)))))
        elif kind == 1 or not bad_rows:
            spec_fail.append(((SIG_GREEDY_RAISE, SIG_SAMPLING_RAISE, SIG_BEAM_RAISE)[kind],
                              dict(rep, what="raised although %s" % ("every row has an allowed action of positive probability: the masked draw of row(s) %s must be "
                                                                     "drawn again" % sorted(bad_rows) if kind == 1 else "no row selects a masked action"))))
        g_cases.append("mk_guard %s %s %s %s" % (
            cnat(kind), clist("(%s, %s)" % (clist(cq(v) for v in probs[r]), cboollist(masks[r])) for r in range(Bn)),
            cnatlist(sel if kind == 2 else []), "None" if obs is None else "(Some %s)" % cnatlist(obs)))
        g_meta.append(dict(rep, fn=name))
        ctx.seen({"guard": kind, "p": rep["probs_64ths"], "m": masks, "dt": str(dt), "sel": sel}, nontrivial=0 < len(bad_rows) < Bn)
        ctx.count("batch_guard_calls_" + name)
        ctx.count("batch_guard_bad_rows_%s" % ("none" if not bad_rows else "all" if len(bad_rows) == Bn else "exactly_one" if len(bad_rows) == 1 else "several"))
    mark("EF_guards_python")
    for unit, ctype, fn, cs, ms in (("calculate_entropy (isfinite guard)", "entg_case", "check_entg", eg_cases, eg_meta),
                                    ("batch guards (greedy / sampling / BeamSearch._step) vs Decoding/BatchGuards.v", "guard_case", "check_guard", g_cases, g_meta)):
        if not cs:
            continue
        try:
            gcodes = coq_eval_shards("cases_C10_" + fn, HEADER, ctype, fn, cs, shard=max(20, len(cs) // 6 + 1))
        except RuntimeError as e:
            ctx.broken.append("correspondence C10/%s could not be evaluated: %s" % (unit, str(e)[-600:]))
            continue
        gbad = [(i, c) for i, c in enumerate(gcodes) if c != 0]
        ctx.units[unit] = {"cases": len(gcodes), "disagreements": len(gbad)}
        if gbad:
            i, c = gbad[0]
            gnames = {25: "model raises, implementation returned", 26: "implementation raised, model returns", 31: "model raises, implementation returned",
                      32: "model returns, implementation raised", 33: "returned actions differ", 34: "sampled action masked or of probability 0",
                      35: "a row without admissible action of positive probability"}
            ctx.broken.append("correspondence C10/%s: model and implementation differ on %d of %d calls (first: call %d, code %d = %s) %s"
                              % (unit, len(gbad), len(gcodes), i, c, gnames.get(c, "?"), str(ms[i])[:600]))
    mark("EF_guards_coq")
    ctx.extra["decode_guard"] = dg.evidence()

    # ------------------------------------------------------------------ search when a proof or the correspondence broke
    if (ctx.broken or not proofs_ok) and not [s for s in spec_fail if s[0] not in (SIG_SHIFT_TANH, SIG_TINY_P)]:
        # neighbourhood of the disagreeing rows: every top_k, a grid of top_p, both dtypes
        for mrow in broken_cases:
            T, tm, td_ = TEMPS[mrow["temperature"]]
            n = len(mrow["z"])
            for dt in (torch.float64, torch.float32):
                x = torch.tensor([[v * LN2 for v in mrow["z"]]], dtype=dt)
                mask = torch.tensor([mrow["mask"]], dtype=torch.bool)
                for k in range(0, n + 2):
                    for p in (0.0, 1.0, 1e-3, 0.1, 0.25, 0.5, 0.75, 0.9, 0.999, mrow["top_p"]):
                        cfg = {"temperature": T, "top_p": p, "top_k": k, "tanh_clipping": 0}
                        lp = call_pl(x, mask, cfg)
                        lpr = [float(v) for v in lp[0]]
                        for sig, detail in spec_row(lpr, mrow["mask"], [float(v) for v in processed(x, cfg)[0]], k, p, 1e-5 if dt == torch.float32 else 1e-9):
                            record_spec(sig, detail, x[0], mrow["mask"], dt, cfg, lpr)
                        ctx.count("search_neighbourhood_rows")
        # then a larger fresh sample
        float_stream(4 * n_float, "search_float_stream")

    # ------------------------------------------------------------------ decision
    ctx.extra["spec_on_impl_failures"] = len(spec_fail)
    by_sig = {}
    for sig, rep in spec_fail:
        size = len(rep.get("logits", []))
        if sig not in by_sig or size < by_sig[sig][0]:
            by_sig[sig] = (size, rep)
    ctx.extra["spec_on_impl_signatures"] = sorted(by_sig)
    for sig, (_, rep) in sorted(by_sig.items()):
        ctx.failure(sig, rep, tag=sig.split(":")[0].replace(" ", "_"))


# ----------------------------------------------------------------------------------------------- replay
def replay(obj):
    import torch
    from rl4co.utils.decoding import process_logits
    if obj.get("kind") in ("entropy", "entropy-guard", "batch-guard", "no-return"):
        return replay_batch(obj)
    if "logits_hex" not in obj:
        import json
        print(json.dumps(obj, indent=1)[:4000])
        print("(no executable replay for this record: it names the obligation that no longer checks)")
        return 0
    dt = getattr(torch, obj.get("dtype", "float64"))
    x = torch.tensor([[float.fromhex(h) for h in obj["logits_hex"]]], dtype=torch.float64).to(dt)
    mask = torch.tensor([obj["mask"]], dtype=torch.bool)
    kw = obj["kwargs"]
    def call(xx):
        return process_logits(xx.clone(), mask.clone(), temperature=kw["temperature"], top_p=kw["top_p"], top_k=kw["top_k"],
                              tanh_clipping=kw["tanh_clipping"], mask_logits=True)
    lp = call(x)
    print("signature :", obj.get("signature"))
    print("what      :", obj.get("what"))
    print("kwargs    :", kw, "dtype", obj.get("dtype"))
    print("logits    :", [float(v) for v in x[0]])
    print("mask      :", obj["mask"])
    print("observed now   logprobs:", [float(v) for v in lp[0]])
    print("observed now   probs   :", [float(v) for v in lp[0].exp()])
    if "observed_logprobs" in obj:
        print("recorded       logprobs:", obj["observed_logprobs"])
    if "shift" in obj:
        lp2 = call(x + obj["shift"])
        print("after adding %r to every logit, probs:" % obj["shift"], [float(v) for v in lp2[0].exp()])
        print("expected (property): unchanged")
    y = torch.tanh(x) * kw["tanh_clipping"] if kw["tanh_clipping"] > 0 else x
    xp = [float(v) for v in (y / kw["temperature"])[0]]
    fails = spec_row([float(v) for v in lp[0]], obj["mask"], xp, kw["top_k"], kw["top_p"], 1e-5 if dt == torch.float32 else 1e-9)
    print("property evaluated on the current output:", fails if fails else "holds (normalised, masked=0, arg-max kept, top-k rule, top-p mass)")
    return 0


def replay_batch(obj):
    """records of the calculate_entropy / batch-guard streams: the recorded log-probabilities are handed to the real function again"""
    import torch
    from tensordict import TensorDict
    from rl4co.utils.decoding import DecodingStrategy, BeamSearch
    from rl4co.utils.ops import calculate_entropy
    print("signature :", obj.get("signature"))
    print("what      :", obj.get("what"))
    unit = obj.get("unit")
    dt = getattr(torch, obj.get("dtype", "float64"))
    if obj.get("logprobs_hex") is None:
        import json
        print(json.dumps(obj, indent=1)[:3000])
        return 0

    def unhex(o):
        return [unhex(v) for v in o] if isinstance(o, list) else float.fromhex(o)
    lp = torch.tensor(unhex(obj["logprobs_hex"]), dtype=torch.float64).to(dt)
    print("function  :", unit, " log-probabilities of shape", tuple(lp.shape), obj.get("dtype"))
    print("probs     :", [[round(float(v), 6) for v in row.reshape(-1)] for row in lp.exp()])

    def attempt(fn, *a):
        try:
            return "returned", dg.call(unit, fn, *a)
        except dg.DecodeTimeout as exc:
            return "did not return within %.0f s" % exc.secs, None
        except AssertionError as exc:
            return "raised AssertionError: %s" % str(exc)[:80], None
    bad = False
    if unit == "calculate_entropy":
        how, H = attempt(calculate_entropy, lp.clone())
        print("observed now:", how, None if H is None else [float(v) for v in H.reshape(-1)])
        print("recorded    :", obj.get("observed_entropy", obj.get("observed")))
        if "expected_entropy" in obj:
            print("expected (sum over steps of -sum p log p, exact distributions):", obj["expected_entropy"])
            bad = H is None or any(abs(float(a) - b) > 1e-4 for a, b in zip(H.reshape(-1), obj["expected_entropy"]))
        else:
            rows = obj.get("rows_with_a_+inf_log_probability", [])
            print("rows with a +inf log-probability:", rows, "-> expected:", "raise 'Entropy is not finite'" if rows else "return")
            bad = (H is not None) == bool(rows) or how.startswith("did not")
    else:
        mk = torch.tensor(obj["mask"], dtype=torch.bool)
        print("mask      :", obj["mask"], " rows whose selection is masked:", obj.get("rows_whose_selection_is_masked"))
        if unit == "DecodingStrategy.greedy":
            how, out = attempt(DecodingStrategy.greedy, lp.clone(), mk)
        elif unit == "DecodingStrategy.sampling":
            torch.manual_seed(obj.get("torch_seed", 0))
            how, out = attempt(DecodingStrategy.sampling, lp.clone(), mk)
        elif unit == "BeamSearch._step":
            bs = BeamSearch(beam_width=2, select_best=False)
            bs._make_beam_step = lambda logprobs: (torch.tensor(obj["selected"]), torch.tensor(obj["parent_beam"]))
            how, out = attempt(bs._step, lp.clone(), torch.tensor(obj["mask_before_reindexing"], dtype=torch.bool), TensorDict({}, batch_size=[lp.shape[0]]))
            out = None if out is None else out[1]
        else:
            print("(no executable replay for unit %r)" % unit)
            return 0
        acts = None if out is None else [int(a) for a in out]
        print("observed now:", how, acts)
        print("recorded    :", obj.get("observed"))
        masked = obj.get("rows_whose_selection_is_masked", [])
        if acts is not None:
            wrong = [r for r, a in enumerate(acts) if not obj["mask"][r][a]]
            print("rows whose returned action is masked:", wrong)
            bad = bool(wrong)
        else:
            bad = how.startswith("did not") or unit == "DecodingStrategy.sampling" or not masked
        print("expected (per-row verdict lifted to the batch):",
              "every masked draw is drawn again, allowed actions are returned" if unit == "DecodingStrategy.sampling"
              else "raise 'infeasible action selected'" if masked else "return")
    print("property %s on the current tree" % ("FAILS" if bad else "holds"))
    return 1 if bad else 0
