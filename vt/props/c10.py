"""C10 -- decoding distributions are proper and confined to feasible actions.

Proof obligations: coq/theories/Properties/C10.v (about the model Decoding/ProcessLogits.v, over every ordered field
K and every ordered logit type L with weights e : L -> K; closed at (Z, Qc, 2^z) and at (R, R, exp)).

Correspondence: the real `process_logits`, `Greedy.step`, `Sampling.step`, `DecodingStrategy.greedy/sampling` are run
on float64 / float32 tensors whose logits are integer multiples of ln 2 (so the weights 2^z are rational) with
temperature in {1, 1/2, 2}; the model computes the exact distribution in Qc inside Coq (Harness/HC10.v) and compares
support (exactly), probabilities (1e-5), the greedy action (a maximiser) and the sampled actions (positive model
probability).  top-p thresholds within 1e-3 of a cumulative probability are not comparable in floats (code 5) unless
the row is on the exact stream (all feasible logits equal, 2^j of them, dyadic top_p: every float operation exact).

Spec-on-impl (every run, directly on what the implementation returned, also with tanh clipping and on Gaussian
logits): normalised, zero mass on masked actions, a most likely feasible action kept and still a mode, top-k rank
rule, top-p kept mass, shift invariance, greedy / sampled actions unmasked.  A failing input is reported through
ctx.failure(signature, replay)."""
import math
from fractions import Fraction

from vt.common import Ctx, cq, clist, cz, cnat, cnatlist, cboollist, coq_eval_shards

HEADER = ("From Coq Require Import List ZArith QArith.\nFrom RL4CO Require Import Harness.HC10.\n"
          "Import ListNotations.\nOpen Scope Q_scope.\n")
LN2 = math.log(2.0)
TEMPS = {"1": (1.0, 1, 1), "1/2": (0.5, 2, 1), "2": (2.0, 1, 2)}   # name -> (temperature, tm, td): z -> z*tm/td
MARGIN = Fraction(1, 1000)
PROB_TOL = Fraction(1, 100000)

SIG_SHIFT_TANH = "process_logits: shift-invariance-false-under-tanh-clipping"
SIG_TINY_P = "top_p: positive-top_p-below-float-resolution-removes-every-action"


# ----------------------------------------------------------------------------------------------- exact reference
def ref_row(z, mask, tm, td, k):
    """Independent exact description (the SPEC, not the code): scaled exponents, the top-k survivors by the rank
    rule, and the ascending cumulative probabilities of the distribution that top-p filters."""
    pre = [((zi * tm) // td if m else None) for zi, m in zip(z, mask)]
    feas = [i for i, v in enumerate(pre) if v is not None]
    if k > 0:
        kept = [i for i in feas if sum(1 for j in feas if pre[j] > pre[i]) < k]
    else:
        kept = list(feas)
    zmax = max(pre[i] for i in kept)
    ws = sorted(Fraction(2) ** (pre[i] - zmax) for i in kept)
    tot = sum(ws)
    cums, acc = [], Fraction(0)
    for w in ws:
        acc += w
        cums.append(acc / tot)
    return pre, kept, cums


def margin_of(cums, p):
    if p <= 0 or p >= 1:
        return None
    thr = 1 - Fraction(p)
    return min(abs(c - thr) for c in cums + [Fraction(0)])   # masked / removed entries have cumulative probability 0


# ----------------------------------------------------------------------------------------------- spec on impl
def spec_row(lp, mask, xp, k, p, tol):
    """The property, evaluated on one row of the implementation's output.
    lp: returned log-probabilities, xp: clipped+scaled logits as the implementation computes them (same dtype ops),
    returns a list of (signature, detail)."""
    out = []
    n = len(lp)
    feas = [i for i in range(n) if mask[i]]
    if any(math.isnan(v) for v in lp):
        return [("process_logits: not-a-probability-vector", "NaN in the returned log-probabilities")]
    pr = [math.exp(v) if v != -math.inf else 0.0 for v in lp]
    kept = [i for i in range(n) if lp[i] != -math.inf]
    if abs(sum(pr) - 1.0) > tol or any(v > tol for v in lp):
        out.append(("process_logits: not-a-probability-vector", "sum of probabilities %r" % sum(pr)))
    if any((not mask[i]) and lp[i] != -math.inf for i in range(n)):
        out.append(("process_logits: mass-on-masked-action", "masked action with log-probability > -inf"))
    # a most likely feasible action of the unfiltered distribution is kept and is a mode of the result
    M = max(xp[i] for i in feas)
    top = max(lp)
    if not any(xp[i] == M and lp[i] != -math.inf and lp[i] >= top - 1e-6 for i in feas):
        out.append(("process_logits: most-likely-feasible-action-removed", "no arg-max of the masked logits survives as a mode"))
    # top-k rank rule
    rank = {i: sum(1 for j in feas if xp[j] > xp[i]) for i in feas}
    allowed = [i for i in feas if (k <= 0 or rank[i] < k)]
    if any(i not in allowed for i in kept if mask[i]):
        out.append(("top_k: keeps-an-action-outside-the-top-k", "kept %s allowed %s" % (kept, allowed)))
    p_active = 0.0 < p < 1.0
    if not p_active and sorted(i for i in kept if mask[i]) != sorted(allowed):
        out.append(("top_k: removes-an-action-inside-the-top-k", "kept %s expected %s" % (kept, allowed)))
    # top-p: kept mass of the distribution it filters (after top-k), computed independently in float64
    if p > 0.0 and allowed:
        Ma = max(xp[i] for i in allowed)
        w = {i: math.exp(xp[i] - Ma) for i in allowed}
        tot = sum(w.values())
        mass = sum(w[i] for i in kept if i in w) / tot
        if mass < min(p, 1.0) - max(tol, 1e-9):
            out.append(("top_p: kept-mass-below-top_p", "kept mass %r < top_p %r" % (mass, p)))
    return out


def hexlist(row):
    return [float(v).hex() for v in row]


# ----------------------------------------------------------------------------------------------- generators
def gen_z(rng, n, kind, even):
    if kind == "small":
        z = [rng.randint(-3, 3) for _ in range(n)]
    elif kind == "wide":
        z = [rng.randint(-12, 12) for _ in range(n)]
    elif kind == "huge":
        z = [rng.choice([-60, -59, -58, -1, 0, 1, 58, 59, 60]) for _ in range(n)]
    elif kind == "equal":
        z = [rng.randint(-60, 60)] * n
    else:  # two clusters: ties at the top
        a, b = rng.randint(-5, 5), rng.randint(-5, 5)
        z = [rng.choice([a, b]) for _ in range(n)]
    if even:
        z = [2 * (v // 2) for v in z]
    return z


def gen_mask(rng, n, kind):
    if kind == "single":
        m = [False] * n
        m[rng.randrange(n)] = True
    elif kind == "all":
        m = [True] * n
    else:
        m = [rng.random() < 0.6 for _ in range(n)]
        if not any(m):
            m[rng.randrange(n)] = True
    return m


def choose_k(rng, n, nfeas):
    return rng.choice([0, 0, 1, 2, 3, max(nfeas - 1, 0), nfeas, nfeas + 1, n, n + 5, rng.randint(0, n + 2)])


def choose_p(rng, cums):
    r = rng.random()
    if r < 0.12:
        return 0.0
    if r < 0.22:
        return 1.0
    if r < 0.30:
        return 1e-3
    if r < 0.38:
        return 0.5
    if r < 0.46:
        return 0.9
    if r < 0.52:
        return 1e-4
    if r < 0.80 and len(cums) > 1:      # just beyond the margin on either side of a cumulative probability
        c = float(rng.choice(cums[:-1]))
        p = 1.0 - c + rng.choice([-1, 1]) * rng.choice([2e-3, 5e-3])
        if 1e-3 < p < 1 - 1e-3:
            return p
    return rng.uniform(0.01, 0.99)


def coq_case(tm, td, k, p, z, mask, isupp, iprobs, greedy, sampled, tol, margin):
    return "mk_pl %s %s %s %s %s %s %s %s %s %s %s %s" % (
        cz(tm), cz(td), cnat(min(k, 4000)), cq(Fraction(p)), clist(cz(v) for v in z), cboollist(mask),
        cboollist(isupp), clist(cq(q) for q in iprobs), cz(greedy), cnatlist(sampled), cq(tol), cq(margin))


# ----------------------------------------------------------------------------------------------- the check
def run(ctx: Ctx, proofs_ok: bool):
    import torch
    from tensordict import TensorDict
    from rl4co.utils.decoding import process_logits, DecodingStrategy, Greedy, Sampling

    rng = ctx.rng
    tier = ctx.tier
    torch.set_num_threads(1)          # rows of <= 12 numbers: intra-op threads only cost time
    torch.manual_seed(rng.randrange(2 ** 31))
    thorough = tier == "thorough"
    n_batches = 4000 if thorough else 1100
    n_exact = 600 if thorough else 160
    n_float = 1500 if thorough else 400
    n_draws = 48 if thorough else 16

    ctx.rule = ("rows of 1..12 logits z*ln2 (z small with ties / wide / +-60 / all equal / two clusters; even z for "
                "temperature 2), masks random / single feasible / all feasible, temperature in {1, 1/2, 2}, "
                "top_k in {0,1,2,3,feasible-1,feasible,feasible+1,n,n+5,random}, top_p in {0,1,1e-3,0.5,0.9,1e-4, "
                "2e-3 or 5e-3 beyond a cumulative probability, uniform}, float64 and float32, batches of 1..5 rows; "
                "exact stream: all feasible logits equal, 1/2/4/8 of them, dyadic top_p (float arithmetic exact, "
                "zero margin); float stream (spec-on-impl only): Gaussian logits, temperature 0.3..3, "
                "tanh_clipping in {0, 10}. non-trivial = at least 2 feasible actions and an active filter "
                "(top_k > 0 or 0 < top_p < 1); distinct by hash of the inputs")
    ctx.assumptions += [
        "mask_logits=True (the documented switch mask_logits=False disables masking by design)",
        "logits finite, mask has at least one True, temperature > 0, 0 <= top_p <= 1 (the code asserts top_p <= 1)",
        "exact arithmetic: tanh, exp, log are not modelled (clip = any monotone map, e = any positive order "
        "embedding); float rounding is outside the theorems -- kept away from the comparison by the ln2 grid, the "
        "1e-3 threshold margin and the 1e-5 probability tolerance",
        "torch.sort is modelled as a stable ascending sort (observed on CPU); a different tie-breaking is reported "
        "as code 9 (support equal up to the choice among equal logits), which no C10 theorem depends on",
        "torch.multinomial returns an index of positive weight (contract, hypothesis of C10_sampling_support)",
    ]

    ctx.trusted.append("vt/props/c10.py: ref_row (exact rank/cumulative-probability reference, used to place top_p thresholds and to gate the "
                       "shift check) and spec_row (the property evaluated on the implementation's output)")
    spec_fail = []          # (signature, replay)
    broken_cases = []

    def record_spec(sig, detail, x, mask, dt, cfg, lp):
        spec_fail.append((sig, {
            "unit": "process_logits", "what": detail, "dtype": str(dt).replace("torch.", ""),
            "logits_hex": hexlist(x), "logits": [float(v) for v in x], "mask": [bool(b) for b in mask],
            "kwargs": cfg, "observed_logprobs": [float(v) for v in lp]}))

    def call_pl(x, mask, cfg, **over):
        kw = dict(cfg)
        kw.update(over)
        return process_logits(x.clone(), mask.clone(), temperature=kw["temperature"], top_p=kw["top_p"],
                              top_k=kw["top_k"], tanh_clipping=kw["tanh_clipping"], mask_logits=True)

    def processed(x, cfg):
        y = torch.tanh(x) * cfg["tanh_clipping"] if cfg["tanh_clipping"] > 0 else x
        return y / cfg["temperature"]

    def decode_checks(x, mask, cfg, lp, dt):
        """Greedy / Sampling through the public strategy classes; returns (greedy actions, per-row sampled sets)."""
        B = x.shape[0]
        kw = dict(temperature=cfg["temperature"], top_p=cfg["top_p"], top_k=cfg["top_k"],
                  tanh_clipping=cfg["tanh_clipping"], mask_logits=True)
        try:
            g = Greedy(**kw)
            td = g.step(x.clone(), mask.clone(), TensorDict({}, batch_size=[B]))
            ga = [int(a) for a in td["action"]]
            g2 = [int(a) for a in DecodingStrategy.greedy(lp, mask)]
            s = Sampling(**kw)
            td = s.step(x.clone(), mask.clone(), TensorDict({}, batch_size=[B]))
            sampled = [set([int(a)]) for a in td["action"]]
            for _ in range(n_draws):
                for r, a in enumerate(DecodingStrategy.sampling(lp, mask)):
                    sampled[r].add(int(a))
        except (AssertionError, RuntimeError) as exc:     # the code's own "infeasible action selected" assertion, or multinomial refusing the weights
            record_spec("greedy/sampling: decoding-step-raises", "%s: %s" % (type(exc).__name__, str(exc)[:200]),
                        x[0], [bool(b_) for b_ in mask[0]], dt, cfg, [float(v) for v in lp[0]])
            return [-1] * B, [set() for _ in range(B)]
        for r in range(B):
            lpr = [float(v) for v in lp[r]]
            mr = [bool(b) for b in mask[r]]
            for a in (ga[r], g2[r]):
                if not (0 <= a < len(mr)) or not mr[a] or lpr[a] < max(lpr):
                    record_spec("greedy: infeasible-or-non-maximal-action", "greedy action %d" % a, x[r], mr, dt, cfg, lpr)
            for a in sampled[r]:
                if not (0 <= a < len(mr)) or not mr[a] or lpr[a] == -math.inf:
                    record_spec("sampling: infeasible-or-zero-probability-action", "sampled action %d" % a, x[r], mr, dt, cfg, lpr)
            ctx.count("sampling_draws", n_draws + 1)
        return ga, sampled

    # ------------------------------------------------------------------ A. ln2-grid stream (correspondence + spec)
    cases, meta = [], []
    for b in range(n_batches):
        n = rng.randint(1, 12)
        B = rng.randint(1, 5)
        dt = torch.float64 if rng.random() < 0.5 else torch.float32
        tname = rng.choice(["1", "1", "1/2", "2"])
        T, tm, td_ = TEMPS[tname]
        zs, masks = [], []
        for _ in range(B):
            zkind = rng.choice(["small", "small", "wide", "huge", "equal", "clusters"])
            mkind = rng.choice(["random", "random", "random", "random", "random", "single", "all", "all"])
            zs.append(gen_z(rng, n, zkind, even=(td_ == 2)))
            masks.append(gen_mask(rng, n, mkind))
            ctx.count("rows_z_" + zkind)
            ctx.count("rows_mask_" + mkind)
        nf0 = sum(masks[0])
        k = choose_k(rng, n, nf0)
        _, _, cums0 = ref_row(zs[0], masks[0], tm, td_, k)
        p = choose_p(rng, cums0)
        cfg = {"temperature": T, "top_p": p, "top_k": k, "tanh_clipping": 0}
        x = torch.tensor([[v * LN2 for v in z] for z in zs], dtype=dt)
        mask = torch.tensor(masks, dtype=torch.bool)
        lp = call_pl(x, mask, cfg)
        xp = processed(x, cfg)
        tol = 1e-5 if dt == torch.float32 else 1e-9
        nan = bool(torch.isnan(lp).any())
        ga, sampled = ([-1] * B, [set() for _ in range(B)]) if nan else decode_checks(x, mask, cfg, lp, dt)
        # shift invariance on the implementation (tanh off): add c*ln2 to every logit
        c = rng.choice([-40, -7, -1, 1, 3, 16, 50]) * (2 if td_ == 2 else 1)
        lp_sh = call_pl(x + c * LN2, mask, cfg)
        for r in range(B):
            lpr = [float(v) for v in lp[r]]
            mr = masks[r]
            for sig, detail in spec_row(lpr, mr, [float(v) for v in xp[r]], k, p, tol):
                record_spec(sig, detail, x[r], mr, dt, cfg, lpr)
            pre, kept_k, cums = ref_row(zs[r], mr, tm, td_, k)
            mg = margin_of(cums, p)
            comparable = mg is None or mg >= MARGIN
            if comparable and not nan:
                l2 = [float(v) for v in lp_sh[r]]
                same_supp = [v == -math.inf for v in l2] == [v == -math.inf for v in lpr]
                dmax = max(abs((math.exp(a) if a != -math.inf else 0.0) - (math.exp(b_) if b_ != -math.inf else 0.0))
                           for a, b_ in zip(l2, lpr))
                if not same_supp or dmax > 10 * tol:
                    record_spec("process_logits: shift-invariance-false-without-clipping",
                                "adding %d*ln2 to all logits changes the distribution (max diff %r, same support %s)" % (c, dmax, same_supp),
                                x[r], mr, dt, cfg, lpr)
                ctx.count("shift_checks")
            else:
                ctx.count("shift_checks_skipped_threshold_within_margin")
            isupp = [v != -math.inf and not math.isnan(v) for v in lpr]
            iprobs = [Fraction(math.exp(v)) if (v != -math.inf and not math.isnan(v)) else Fraction(0) for v in lpr]
            cases.append(coq_case(tm, td_, k, p, zs[r], mr, isupp, iprobs, ga[r], sorted(sampled[r]), PROB_TOL, MARGIN))
            meta.append({"stream": "ln2-grid", "dtype": str(dt).replace("torch.", ""), "temperature": tname, "top_k": k,
                         "top_p": p, "z": zs[r], "mask": mr, "impl_logprobs": lpr, "greedy": ga[r],
                         "sampled": sorted(sampled[r]), "margin_ok": comparable})
            nf = sum(mr)
            ctx.seen({"z": zs[r], "m": mr, "T": tname, "k": k, "p": p, "dt": str(dt)},
                     nontrivial=nf >= 2 and (k > 0 or 0.0 < p < 1.0))
            ctx.count("n_%02d" % n)
            ctx.count("dtype_" + str(dt).replace("torch.", ""))
            ctx.count("temperature_" + tname)
            ctx.count("top_k_" + ("off" if k == 0 else "lt_feasible" if k < nf else "eq_feasible" if k == nf else "gt_size" if k > n else "gt_feasible"))
            ctx.count("top_p_" + ("0" if p == 0 else "1" if p == 1 else "active"))
            if nf == 1:
                ctx.count("single_feasible_rows")
            if len(set(v for v in pre if v is not None)) < nf:
                ctx.count("rows_with_tied_feasible_logits")
            if max(abs(v) for v in zs[r]) >= 58:
                ctx.count("rows_with_huge_logits")
            if not comparable:
                ctx.count("rows_threshold_within_margin")
            top_z = max(v for v in pre if v is not None)
            if any(pre[i] == top_z and lpr[i] == -math.inf for i in range(n) if pre[i] is not None):
                ctx.count("rows_where_top_p_cut_one_of_several_tied_maxima")      # C10_keeps_every_argmax_refuted, on the code
        ctx.count("batches_B%d" % B)
        if b < 3:
            ctx.sample({"stream": "ln2-grid", "dtype": str(dt), "kwargs": cfg, "z (logit = z*ln2)": zs, "mask": masks,
                        "impl_probs": [[round(math.exp(float(v)), 6) if float(v) != -math.inf else 0.0 for v in row] for row in lp],
                        "greedy": ga, "sampled": [sorted(s_) for s_ in sampled]})

    # ------------------------------------------------------------------ B. exact stream (threshold met with equality)
    n_eq_hit = 0
    for b in range(n_exact):
        nfeas = rng.choice([1, 2, 4, 8])
        n = rng.randint(nfeas, 12)
        dt = torch.float64 if b % 2 == 0 else torch.float32
        tname = rng.choice(["1", "1/2", "2"])
        T, tm, td_ = TEMPS[tname]
        zc = rng.randint(-30, 30) * (2 if td_ == 2 else 1)
        pos = rng.sample(range(n), nfeas)
        mr = [i in pos for i in range(n)]
        z = [zc if mr[i] else rng.randint(-30, 30) * (2 if td_ == 2 else 1) for i in range(n)]
        p = rng.choice([0.5, 0.25, 0.75, 0.125, 0.875])
        k = rng.choice([0, 0, nfeas, n, 1, 3])       # ties at the k-th value: top-k keeps all of them
        cfg = {"temperature": T, "top_p": p, "top_k": k, "tanh_clipping": 0}
        x = torch.tensor([[v * LN2 for v in z]], dtype=dt)
        mask = torch.tensor([mr], dtype=torch.bool)
        lp = call_pl(x, mask, cfg)
        lpr = [float(v) for v in lp[0]]
        tol = 1e-5 if dt == torch.float32 else 1e-9
        for sig, detail in spec_row(lpr, mr, [float(v) for v in processed(x, cfg)[0]], k, p, tol):
            record_spec(sig, detail, x[0], mr, dt, cfg, lpr)
        if Fraction(p) * nfeas % 1 == 0:
            n_eq_hit += 1
        isupp = [v != -math.inf and not math.isnan(v) for v in lpr]
        iprobs = [Fraction(math.exp(v)) if (v != -math.inf and not math.isnan(v)) else Fraction(0) for v in lpr]
        cases.append(coq_case(tm, td_, k, p, z, mr, isupp, iprobs, -1, [], PROB_TOL, Fraction(0)))
        meta.append({"stream": "exact", "dtype": str(dt).replace("torch.", ""), "temperature": tname, "top_k": k, "top_p": p,
                     "z": z, "mask": mr, "impl_logprobs": lpr, "margin_ok": True})
        ctx.seen({"ex": z, "m": mr, "T": tname, "k": k, "p": p, "dt": str(dt)}, nontrivial=nfeas >= 2)
        ctx.count("exact_stream_rows")
    ctx.count("exact_stream_rows_threshold_met_with_equality", n_eq_hit)

    try:
        codes = coq_eval_shards("cases_C10_pl", HEADER, "pl_case", "check_pl", cases, shard=max(60, len(cases) // 16 + 1))
    except RuntimeError as e:
        codes = None
        ctx.broken.append("correspondence C10/process_logits could not be evaluated: %s" % str(e)[-600:])
    if codes is not None:
        hist = {}
        for cde in codes:
            hist[cde] = hist.get(cde, 0) + 1
        bad = [(i, cde) for i, cde in enumerate(codes) if cde not in (0, 5, 9)]
        ctx.units["process_logits+greedy+sampling"] = {
            "cases": len(codes), "agree": hist.get(0, 0), "disagreements": len(bad),
            "not_comparable_threshold_within_margin": hist.get(5, 0), "tie_broken_differently": hist.get(9, 0),
            "codes": {str(k_): v for k_, v in sorted(hist.items())}}
        ctx.count("not_comparable_threshold_within_margin", hist.get(5, 0))
        if hist.get(9, 0):
            ctx.notes.append("%d rows: top-p cut a different member of a class of equal logits than the stable-sort model "
                             "(support equal up to that choice; no theorem depends on it)" % hist[9])
        names = {1: "input outside the model's well-formedness", 2: "length", 3: "support differs", 4: "probability differs",
                 6: "greedy action is not a maximiser of the model distribution", 7: "sampled action has model probability 0"}
        if bad:
            i, cde = bad[0]
            ctx.broken.append("correspondence C10/process_logits: model and implementation differ on %d of %d rows (first: row %d, code %d = %s) %s"
                              % (len(bad), len(codes), i, cde, names.get(cde, "?"), {k_: meta[i][k_] for k_ in ("stream", "dtype", "temperature", "top_k", "top_p", "z", "mask", "impl_logprobs")}))
            broken_cases = [meta[i] for i, _ in bad[:25]]

    # ------------------------------------------------------------------ C. float stream: spec-on-impl only
    def float_stream(count, tag):
        for b in range(count):
            n = rng.randint(1, 12)
            B = rng.randint(1, 5)
            dt = torch.float64 if rng.random() < 0.4 else torch.float32
            scale = rng.choice([0.1, 1.0, 5.0, 30.0])
            gen = torch.Generator().manual_seed(rng.randrange(2 ** 31))
            x = (torch.randn(B, n, generator=gen, dtype=torch.float64) * scale).to(dt)
            if rng.random() < 0.3 and n > 1:          # force exact ties
                x[:, rng.randrange(n)] = x[:, rng.randrange(n)]
            masks = [gen_mask(rng, n, rng.choice(["random", "random", "single", "all"])) for _ in range(B)]
            mask = torch.tensor(masks, dtype=torch.bool)
            C = rng.choice([0, 0, 10.0, 10.0, 1.0])
            cfg = {"temperature": rng.choice([1.0, 0.3, 0.7, 1.5, 3.0]), "top_p": rng.choice([0.0, 1.0, 0.5, 0.9, 1e-3, rng.uniform(0.01, 0.99)]),
                   "top_k": choose_k(rng, n, sum(masks[0])), "tanh_clipping": C}
            lp = call_pl(x, mask, cfg)
            xp = processed(x, cfg)
            tol = 1e-5 if dt == torch.float32 else 1e-9
            if C > 0:
                # structure of the model: clipping is the first stage, a map applied to every logit before mask and
                # temperature -- so clipping by hand and switching it off must give the very same tensor
                lp_pre = call_pl(torch.tanh(x) * C, mask, cfg, tanh_clipping=0)
                ctx.count("clip_stage_checks")
                if not torch.equal(torch.nan_to_num(lp, nan=7.0), torch.nan_to_num(lp_pre, nan=7.0)):
                    clip_stage_bad.append({"dtype": str(dt), "kwargs": cfg, "logits_hex": hexlist(x[0]), "mask": masks[0]})
            if not bool(torch.isnan(lp).any()):
                decode_checks(x, mask, cfg, lp, dt)
            for r in range(B):
                lpr = [float(v) for v in lp[r]]
                for sig, detail in spec_row(lpr, masks[r], [float(v) for v in xp[r]], cfg["top_k"], cfg["top_p"], tol):
                    record_spec(sig, detail, x[r], masks[r], dt, cfg, lpr)
                ctx.seen({"f": hexlist(x[r]), "m": masks[r], "cfg": cfg}, nontrivial=sum(masks[r]) >= 2 and (cfg["top_k"] > 0 or 0 < cfg["top_p"] < 1))
                ctx.count(tag + "_rows")
                ctx.count(tag + ("_rows_tanh_on" if C > 0 else "_rows_tanh_off"))
            # shift invariance: holds without clipping (filters off, so no threshold can be crossed by rounding) ...
            cfg0 = dict(cfg, top_p=0.0, top_k=0)
            csh = rng.choice([-5.0, 0.5, 3.0])
            a = call_pl(x, mask, cfg0).exp()
            bb = call_pl(x + csh, mask, cfg0).exp()
            d = float((a - bb).abs().max())
            if C > 0:
                if d > 1e-3:           # ... and is false with tanh clipping (known finding, reported when it shows)
                    r = int((a - bb).abs().max(dim=1)[0].argmax())
                    spec_fail.append((SIG_SHIFT_TANH, {
                        "unit": "process_logits", "what": "adding %r to every logit changes the distribution by %r (tanh_clipping=%r)" % (csh, d, C),
                        "dtype": str(dt).replace("torch.", ""), "logits_hex": hexlist(x[r]), "logits": [float(v) for v in x[r]],
                        "mask": masks[r], "kwargs": cfg0, "shift": csh,
                        "observed_probs": [float(v) for v in a[r]], "observed_probs_shifted": [float(v) for v in bb[r]]}))
            elif d > (1e-4 if dt == torch.float32 else 1e-9) * max(1.0, scale):
                record_spec("process_logits: shift-invariance-false-without-clipping", "shift %r changes the distribution by %r" % (csh, d),
                            x[0], masks[0], dt, cfg0, [float(v) for v in call_pl(x, mask, cfg0)[0]])

    clip_stage_bad = []
    float_stream(n_float, "float_stream")
    ctx.units["clip stage (tanh first, elementwise)"] = {"cases": ctx.dist.get("clip_stage_checks", 0), "disagreements": len(clip_stage_bad)}
    if clip_stage_bad:
        ctx.broken.append("correspondence C10/clip-stage: process_logits(x, tanh_clipping=C) differs from process_logits(tanh(x)*C, tanh_clipping=0) "
                          "on %d batches (first: %s)" % (len(clip_stage_bad), clip_stage_bad[0]))

    # ------------------------------------------------------------------ D. deterministic probes
    # D1 shift invariance under tanh clipping (the Coq counterexample C10_shift_invariant_refuted_under_clipping, on the code)
    x = torch.tensor([[0.0, 1.0 * LN2]], dtype=torch.float64)
    m2 = torch.ones(1, 2, dtype=torch.bool)
    cfgc = {"temperature": 1.0, "top_p": 0.0, "top_k": 0, "tanh_clipping": 10.0}
    a = call_pl(x, m2, cfgc).exp()
    bb = call_pl(x + 2 * LN2, m2, cfgc).exp()
    ctx.extra["tanh_shift_probe"] = {"probs": [float(v) for v in a[0]], "probs_after_adding_2ln2": [float(v) for v in bb[0]]}
    if float((a - bb).abs().max()) > 1e-3:
        spec_fail.insert(0, (SIG_SHIFT_TANH, {
            "unit": "process_logits", "what": "adding 2*ln2 to both logits changes the distribution (tanh_clipping=10); inherent to tanh clipping",
            "dtype": "float64", "logits": [0.0, LN2], "logits_hex": hexlist(x[0]), "mask": [True, True], "kwargs": cfgc, "shift": 2 * LN2,
            "observed_probs": [float(v) for v in a[0]], "observed_probs_shifted": [float(v) for v in bb[0]]}))
    # D2 a positive top_p below the resolution of the dtype: 1 - top_p rounds to 1 and the last cumulative probability is removed too
    tiny = []
    for dt, p in ((torch.float32, 1e-8), (torch.float32, 2.9e-8), (torch.float64, 1e-17), (torch.float32, 1e-7), (torch.float64, 1e-15)):
        for z in ([0, 1, 2], [3, 3, 3, 3, 3, 3, 3], [5, -5, 0, 1, 1, 2, -3, 4, 4, 0, 1, 2]):
            x = torch.tensor([[v * LN2 for v in z]], dtype=dt)
            mk = torch.ones(1, len(z), dtype=torch.bool)
            cfgp = {"temperature": 1.0, "top_p": p, "top_k": 0, "tanh_clipping": 0}
            lp = call_pl(x, mk, cfgp)
            ctx.count("tiny_top_p_probes")
            if bool(torch.isnan(lp).any()) or bool((lp == -math.inf).all()):
                tiny.append({"unit": "process_logits", "what": "0 < top_p = %r <= 1 returns NaN for every action: 1 - top_p rounds to 1.0 in %s, so "
                             "`cumulative_probs <= 1 - top_p` also removes the last (most likely) action" % (p, str(dt).replace("torch.", "")),
                             "dtype": str(dt).replace("torch.", ""), "logits": [float(v) for v in x[0]], "logits_hex": hexlist(x[0]),
                             "mask": [True] * len(z), "kwargs": cfgp, "observed_logprobs": [float(v) for v in lp[0]]})
    ctx.extra["tiny_top_p_probe_failures"] = len(tiny)
    if tiny:
        spec_fail.append((SIG_TINY_P, min(tiny, key=lambda t: len(t["logits"]))))

    # ------------------------------------------------------------------ search when a proof or the correspondence broke
    if (ctx.broken or not proofs_ok) and not [s for s in spec_fail if s[0] not in (SIG_SHIFT_TANH, SIG_TINY_P)]:
        # neighbourhood of the disagreeing rows: every top_k, a grid of top_p, both dtypes
        for mrow in broken_cases:
            T, tm, td_ = TEMPS[mrow["temperature"]]
            n = len(mrow["z"])
            for dt in (torch.float64, torch.float32):
                x = torch.tensor([[v * LN2 for v in mrow["z"]]], dtype=dt)
                mask = torch.tensor([mrow["mask"]], dtype=torch.bool)
                for k in range(0, n + 2):
                    for p in (0.0, 1.0, 1e-3, 0.1, 0.25, 0.5, 0.75, 0.9, 0.999, mrow["top_p"]):
                        cfg = {"temperature": T, "top_p": p, "top_k": k, "tanh_clipping": 0}
                        lp = call_pl(x, mask, cfg)
                        lpr = [float(v) for v in lp[0]]
                        for sig, detail in spec_row(lpr, mrow["mask"], [float(v) for v in processed(x, cfg)[0]], k, p, 1e-5 if dt == torch.float32 else 1e-9):
                            record_spec(sig, detail, x[0], mrow["mask"], dt, cfg, lpr)
                        ctx.count("search_neighbourhood_rows")
        # then a larger fresh sample
        float_stream(4 * n_float, "search_float_stream")

    # ------------------------------------------------------------------ decision
    ctx.extra["spec_on_impl_failures"] = len(spec_fail)
    by_sig = {}
    for sig, rep in spec_fail:
        size = len(rep.get("logits", []))
        if sig not in by_sig or size < by_sig[sig][0]:
            by_sig[sig] = (size, rep)
    ctx.extra["spec_on_impl_signatures"] = sorted(by_sig)
    for sig, (_, rep) in sorted(by_sig.items()):
        ctx.failure(sig, rep, tag=sig.split(":")[0].replace(" ", "_"))


# ----------------------------------------------------------------------------------------------- replay
def replay(obj):
    import torch
    from rl4co.utils.decoding import process_logits
    if "logits_hex" not in obj:
        import json
        print(json.dumps(obj, indent=1)[:4000])
        print("(no executable replay for this record: it names the obligation that no longer checks)")
        return 0
    dt = getattr(torch, obj.get("dtype", "float64"))
    x = torch.tensor([[float.fromhex(h) for h in obj["logits_hex"]]], dtype=torch.float64).to(dt)
    mask = torch.tensor([obj["mask"]], dtype=torch.bool)
    kw = obj["kwargs"]
    def call(xx):
        return process_logits(xx.clone(), mask.clone(), temperature=kw["temperature"], top_p=kw["top_p"], top_k=kw["top_k"],
                              tanh_clipping=kw["tanh_clipping"], mask_logits=True)
    lp = call(x)
    print("signature :", obj.get("signature"))
    print("what      :", obj.get("what"))
    print("kwargs    :", kw, "dtype", obj.get("dtype"))
    print("logits    :", [float(v) for v in x[0]])
    print("mask      :", obj["mask"])
    print("observed now   logprobs:", [float(v) for v in lp[0]])
    print("observed now   probs   :", [float(v) for v in lp[0].exp()])
    if "observed_logprobs" in obj:
        print("recorded       logprobs:", obj["observed_logprobs"])
    if "shift" in obj:
        lp2 = call(x + obj["shift"])
        print("after adding %r to every logit, probs:" % obj["shift"], [float(v) for v in lp2[0].exp()])
        print("expected (property): unchanged")
    y = torch.tanh(x) * kw["tanh_clipping"] if kw["tanh_clipping"] > 0 else x
    xp = [float(v) for v in (y / kw["temperature"])[0]]
    fails = spec_row([float(v) for v in lp[0]], obj["mask"], xp, kw["top_k"], kw["top_p"], 1e-5 if dt == torch.float32 else 1e-9)
    print("property evaluated on the current output:", fails if fails else "holds (normalised, masked=0, arg-max kept, top-k rule, top-p mass)")
    return 0
