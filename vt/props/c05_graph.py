"""C05 / unit graph -- FLPEnv, MCPEnv: the mask never hides a feasible selection; the optimum over all subsets of size k
stays reachable.

Proof obligations: coq/theories/Properties/C05_graph.v (unbounded: every number of items, every quota).
Correspondence (on every run, on the current working tree):
  * tiny instances (3..7 items, thorough: ..8; quota 1..3; exact point sets /128, dyadic and asymmetric k/64 matrices;
    hand-built memberships with padding anywhere and repeated ids; thorough also generator output with a tolerance);
  * EXHAUSTIVE expansion of the real env: from reset, every True entry of every action_mask is stepped (all prefixes of one
    depth as one batch), until done; every complete sequence with the mask seen before each of its actions and the reward
    env.get_reward returns for it;
  * python, implementation + problem data only (spec-on-impl, runs always): every ordering of every k-subset must be among
    the complete sequences; best reachable reward = brute-force optimum computed from the instance data with Fractions;
  * Coq (Harness/HC05_graph.v): the row model runs every implementation sequence (model mask inside the implementation's
    mask at every visited state, model done exactly at the end, model reward = implementation reward = objective of the
    set) and the set of sequences is compared with kperms / ksubsets enumerated in Gallina from the problem definition.
Signatures: "<env>: mask-hides-feasible-solution", "<env>: best-reachable-reward-differs-from-optimum",
"<env>: dead-end-before-quota", "<env>: crash-on-offered-action"."""
import itertools
import json
import random
import sys
import time
from fractions import Fraction

from vt import sched_graph_common as C
from vt.common import cboollist, clist, cnat, czraw
from vt.props import c08 as S

HDR = ("From Coq Require Import List ZArith Bool.\n"
       "From RL4CO Require Import Env.Selection Env.FLP Env.MCP Env.GraphComplete Harness.HC08 Harness.HC05_graph.\n"
       "Import ListNotations.\nOpen Scope Z_scope.\n")
CODE_TXT = {1: "implementation action outside the model mask", 2: "model mask offers an item the implementation hides",
            3: "model done too early / not done at the end", 4: "model reward differs from the implementation's",
            6: "implementation reward differs from the objective of its set", 7: "model step/reward = None",
            13: "malformed record", 20: "instance outside the documented format",
            21: "a feasible ordering enumerated from the problem definition is not among the implementation's complete sequences",
            23: "best mask-reachable reward differs from the brute-force optimum", 24: "no complete sequence"}
CONCRETE_CODES = {2, 21, 23, 24}          # also found by the python spec-on-impl pass, which produces the replay


# ------------------------------------------------------------------------------------------------ exhaustive expansion
def expand(torch, env, envname, row, qshape, cap=6000):
    """all complete mask-confined sequences of the real env on one instance.
    Returns dict(seqs=[(acts, masks_before_each_action, reward)], visited={prefix tuple: mask}, dead=[prefix], crash, cap_hit)"""
    out = {"seqs": [], "visited": {}, "dead": [], "crash": None, "cap_hit": False}
    td = env.reset(C.graph_td(torch, envname, [row], qshape))
    seqs, hist = [[]], [[]]
    depth = 0
    while seqs:
        masks = td["action_mask"].tolist()
        idx, acts, nseq, nhist = [], [], [], []
        for b, m in enumerate(masks):
            m = [bool(x) for x in m]
            out["visited"][tuple(seqs[b])] = m
            if not any(m):
                out["dead"].append(list(seqs[b]))
            for a, ok in enumerate(m):
                if ok:
                    idx.append(b)
                    acts.append(a)
                    nseq.append(seqs[b] + [a])
                    nhist.append(hist[b] + [m])
        if not idx:
            break
        if len(idx) > cap or depth > 12:
            out["cap_hit"] = True
            break
        td2 = td[torch.tensor(idx, dtype=torch.int64)].clone()
        td2.set("action", torch.tensor(acts, dtype=torch.int64))
        try:
            td2 = env.step(td2)["next"]
        except Exception as e:  # noqa: BLE001
            out["crash"] = {"where": "step", "depth": depth + 1, "error": "%s: %s" % (type(e).__name__, str(e)[:300]),
                            "prefixes": nseq[:4]}
            break
        depth += 1
        done = [S.canon_done(td2["done"], r) for r in range(len(idx))]
        fin = [r for r, d in enumerate(done) if d]
        if fin:
            try:
                sub = td2[torch.tensor(fin, dtype=torch.int64)]
                rew = env.get_reward(sub, torch.tensor([nseq[r] for r in fin], dtype=torch.int64)).reshape(-1).tolist()
            except Exception as e:  # noqa: BLE001
                out["crash"] = {"where": "get_reward", "error": "%s: %s" % (type(e).__name__, str(e)[:300])}
                break
            for r, x in zip(fin, rew):
                out["seqs"].append((nseq[r], nhist[r], x))
        keep = [r for r, d in enumerate(done) if not d]
        if not keep:
            break
        td = td2[torch.tensor(keep, dtype=torch.int64)]
        seqs = [nseq[r] for r in keep]
        hist = [nhist[r] for r in keep]
    return out


# ------------------------------------------------------------------------------------------------ problem definition (python, exact)
def n_items(row):
    return row["n"] if row["env"] == "flp" else row["ns"]


def objective(row, X):
    if row["env"] == "flp":
        D = row["D"]
        return -sum(min(Fraction(D[a][p]) for a in X) for p in range(row["n"]))
    cov = set()
    for a in X:
        for x in row["mem"][a]:
            if x != 0:
                cov.add(int(x))
    return sum(Fraction(row["w"][j - 1]) for j in cov if 1 <= j <= len(row["w"]))


def row_tol(row):
    return row.get("tol", Fraction(0)) if row["env"] == "flp" else Fraction(0)


def clean_row(row):
    r = dict(row)
    r.pop("tol", None)
    return r


def replay_obj(row, qshape, what, extra=None):
    o = {"unit": "graph", "kind": "c05_graph", "env": row["env"], "instance": clean_row(row), "to_choose_shape": qshape, "what": what}
    if extra:
        o.update(extra)
    return o


def spec_on_impl(row, qshape, ex, coll):
    """the property on the implementation's own outputs, from instance data alone.  Returns number of failures reported."""
    envname = row["env"]
    n, q = n_items(row), row["q"]
    bad = 0
    if ex["crash"]:
        coll.fail("%s: crash-on-offered-action" % envname, replay_obj(row, qshape, "the real env raised on an action its mask offered", {"crash": ex["crash"]}))
        return 1
    if ex["cap_hit"]:
        return 0
    if q <= n:
        for p in ex["dead"]:
            if len(p) < q:
                coll.fail("%s: dead-end-before-quota" % envname, replay_obj(row, qshape, "empty mask before the quota", {"prefix": p}))
                bad += 1
                break
    impl = {tuple(a): r for a, _, r in ex["seqs"]}
    tol = row_tol(row)
    best_x, best_v = None, None
    for X in itertools.combinations(range(n), q):
        v = objective(row, X)
        if best_v is None or v > best_v:
            best_x, best_v = X, v
        for p in itertools.permutations(X):
            if p in impl:
                continue
            k = 0
            while k < len(p) and tuple(p[:k + 1]) in ex["visited"]:
                k += 1
            coll.fail("%s: mask-hides-feasible-solution" % envname, replay_obj(row, qshape, (
                "the selection %s (objective %s) is a feasible solution but is not reachable: after the prefix %s the mask does not offer item %d"
                % (list(p), float(v), list(p[:k]), p[k])), {"sequence": list(p), "prefix": list(p[:k]), "hidden_item": p[k],
                                                               "impl_mask_there": ex["visited"].get(tuple(p[:k])), "objective": float(v)}))
            bad += 1
            break
        if bad:
            break
    if best_v is not None:
        if impl:
            bseq = max(impl, key=lambda a: impl[a])
            breach = Fraction(impl[bseq])
        else:
            bseq, breach = None, None
        if breach is None or abs(breach - best_v) > tol:
            coll.fail("%s: best-reachable-reward-differs-from-optimum" % envname, replay_obj(row, qshape, (
                "best reward over all %d complete mask-confined sequences = %s (sequence %s); brute-force optimum over all %d-subsets = %s (set %s)"
                % (len(impl), None if breach is None else float(breach), None if bseq is None else list(bseq), q, float(best_v), list(best_x))),
                {"expected": float(best_v), "observed": None if breach is None else float(breach), "optimal_set": list(best_x),
                 "best_reachable_sequence": None if bseq is None else list(bseq)}))
            bad += 1
    return bad


# ------------------------------------------------------------------------------------------------ Coq side
def case_term(row, ex):
    envname = row["env"]
    bits = S.DBITS if envname == "flp" else S.WBITS
    tol = row_tol(row) * (1 << bits)
    tolz = -(-tol.numerator // tol.denominator)
    seqs = clist("(%s, %s, %s)" % (clist(cnat(a) for a in acts), clist(cboollist(m) for m in masks), czraw(S.zs(r, bits)))
                 for acts, masks, r in ex["seqs"])
    return "(%s, %s, %s)" % (C.INST_TERM[envname](row), czraw(tolz), seqs)


def make_rows(torch, rng, envname, scale, big):
    rows = []
    sizes = [3, 4, 5, 6, 7] + ([8] if big else [])
    for k in range(scale):
        n = sizes[k % len(sizes)] if k < len(sizes) else rng.choice(sizes)
        q = rng.choice([1, 2, 2, 3, 3]) if n >= 4 else rng.choice([1, 2, 3])
        q = min(q, n)
        if envname == "flp":
            if big and k % 5 == 4:
                from rl4co.envs.graph.flp.generator import FLPGenerator
                g = FLPGenerator(num_loc=n, to_choose=q)(batch_size=[1])
                rows.append(S.flp_make_row(torch, rng, "gen", n, q, g, 0))
            else:
                rows.append(S.flp_make_row(torch, rng, ["points", "dyadic", "asym"][k % 3], n, q))
        else:
            rows.append(S.mcp_make_row(torch, rng, ["pad_end", "holes", "dups"][k % 3], n, rng.randint(3, 8), q))
    return rows


def campaign(ctx, torch, rng, scale, big, coll, tag, count=True):
    stats = {"instances": 0, "sequences": 0, "cap_hits": 0, "disagreements": 0}
    for envname in ("flp", "mcp"):
        env = C.graph_env(torch, envname)
        cases, metas = [], []
        for k, row in enumerate(make_rows(torch, rng, envname, scale, big)):
            qshape = "B1" if (envname == "mcp" or k % 2 == 0) else "B"
            ex = expand(torch, env, envname, row, qshape)
            stats["instances"] += 1
            stats["sequences"] += len(ex["seqs"])
            if ex["cap_hit"]:
                stats["cap_hits"] += 1
                continue
            nbad = spec_on_impl(row, qshape, ex, coll)
            if count:
                ctx.count("c05_%s_instances_n%d_q%d" % (envname, n_items(row), row["q"]))
                ctx.count("c05_%s_complete_sequences" % envname, len(ex["seqs"]))
                ctx.count("c05_%s_states_expanded" % envname, len(ex["visited"]))
                for acts, _, r in ex["seqs"]:
                    ctx.seen({"e": envname, "i": {kk: v for kk, v in row.items() if kk not in ("tol", "locs")}, "a": acts},
                             nontrivial=len(acts) >= 2)
                if k < 2:
                    ctx.sample({"unit": "graph", "env": envname, "n": n_items(row), "quota": row["q"], "kind": row["kind"],
                                "complete_sequences": len(ex["seqs"]), "first": ex["seqs"][0][0] if ex["seqs"] else None,
                                "best_reward": max((r for _, _, r in ex["seqs"]), default=None)})
            if ex["crash"]:
                continue
            try:
                cases.append(case_term(row, ex))
            except ValueError:
                ctx.count("c05_%s_dropped_unrepresentable" % envname)
                continue
            metas.append((row, qshape, nbad))
        ctype = "%s * Z * list c05_seq" % C.INST_TYPE[envname]
        codes = C.coq_codes(ctx, "cases_C05_graph_%s%s" % (envname, tag), HDR, ctype, "check_C05_%s" % envname, cases, shard=8)
        if codes is None:
            stats["disagreements"] += 1
            continue
        for c, (row, qshape, nbad) in zip(codes, metas):
            if c == 0:
                continue
            t = c % 1000
            if t in CONCRETE_CODES and nbad:
                continue            # the same fact, already reported with a replay by the python pass
            stats["disagreements"] += 1
            path = ctx.write_replay(replay_obj(row, qshape, "model/implementation disagreement: code %d = %s" % (c, CODE_TXT.get(t, "?")),
                                               {"code": c, "property": "C05"}), tag="corr-graph-%s" % envname)
            ctx.broken.append("correspondence C05/graph/%s: code %d (sequence %d: %s), case file %s" % (envname, c, c // 1000, CODE_TXT.get(t, "?"), path))
    return stats


def run_unit(ctx, proofs_ok):
    import torch
    t0 = time.time()
    rng = random.Random(ctx.rng.randrange(2 ** 62))
    torch.manual_seed(rng.randrange(2 ** 31))
    big = ctx.tier == "thorough"
    ctx.rule += (" [graph] FLPEnv / MCPEnv, 3..7 (thorough ..8) locations / sets, quota 1..3: exact point sets /128, dyadic and "
                 "asymmetric k/64 matrices, memberships with zero padding anywhere and repeated ids (thorough: FLPGenerator output "
                 "with a tolerance); EXHAUSTIVE expansion of the real env over every True mask entry from reset to done; compared with "
                 "all orderings of all k-subsets (python from instance data; Gallina kperms/ksubsets) and with the brute-force optimum; "
                 "non-trivial = complete sequence of >= 2 selections.")
    ctx.assumptions += [
        "graph unit: a solution of FLP / MCP is a set of exactly quota distinct items; the objective is computed from the tensors the "
        "env received (orig_distances; membership, weights). DPP / MDPP rewards come from a simulator and the property text does not "
        "list them: not covered by C05",
        "graph unit: one quota per batch (equal-quota rows finish together; per-row quotas are C08's open finding)",
    ]
    with C.Threads():
        coll = C.Collector(ctx, "C05", "graph")
        scale = C.budget(ctx, 9, 100)
        unit = campaign(ctx, torch, rng, scale, big, coll, "")
        if (unit["disagreements"] or not proofs_ok or any("C05_graph" in b for b in ctx.broken)) and not coll.best:
            unit["search"] = campaign(ctx, torch, rng, 3 * scale, True, coll, "_search", count=False)
        unit["concrete_failures"] = coll.flush()
        unit["observables"] = ("action_mask at every state of the exhaustive expansion, done, env.get_reward of every complete sequence; "
                               "compared with the feasible solutions and the optimum computed from the instance data")
        unit["wall_s_unit"] = round(time.time() - t0, 1)
        ctx.units["graph"] = unit


# ------------------------------------------------------------------------------------------------ replay
def replay(obj):
    import torch
    row = dict(obj["instance"])
    row["tol"] = Fraction(0)
    envname = obj["env"]
    qshape = obj.get("to_choose_shape", "B1")
    env = C.graph_env(torch, envname)
    print("signature:", obj.get("signature"))
    print("what     :", obj.get("what"))
    ex = expand(torch, env, envname, row, qshape)
    n, q = n_items(row), row["q"]
    print("instance : %s with %d items, quota %d" % (envname, n, q))
    if "prefix" in obj:
        p = tuple(obj["prefix"])
        print("mask after prefix %s now: %s" % (list(p), ex["visited"].get(p)))
        if "hidden_item" in obj:
            m = ex["visited"].get(p)
            print("item %d offered now: %s (recorded: hidden)" % (obj["hidden_item"], None if m is None else m[obj["hidden_item"]]))
    impl = {tuple(a): r for a, _, r in ex["seqs"]}
    best = max(impl.values(), default=None)
    opt = max(objective(row, X) for X in itertools.combinations(range(n), q))
    print("complete mask-confined sequences now: %d (feasible orderings: %d)" % (len(impl), sum(1 for X in itertools.combinations(range(n), q) for _ in itertools.permutations(X))))
    print("best reachable reward now: %s   brute-force optimum: %s" % (best, float(opt)))
    for key in ("expected", "observed", "crash"):
        if key in obj:
            print(key, ":", obj[key])
    return 0


if __name__ == "__main__":
    sys.exit(replay(json.load(open(sys.argv[-1]))))
