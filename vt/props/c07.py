"""C07 -- scheduling environments yield valid schedules: units fjsp (FJSP/JSSP) and ffsp (FFSP, SMTWTP)."""
from vt.props._units import run_units


def run(ctx, proofs_ok):
    run_units(ctx, proofs_ok)


def replay(obj):
    unit = obj.get("unit") or obj.get("env") or ""
    from vt.props import c07_fjsp, c07_ffsp
    if str(unit).startswith(("fjsp", "jssp")) and hasattr(c07_fjsp, "replay"):
        return c07_fjsp.replay(obj)
    if hasattr(c07_ffsp, "replay"):
        return c07_ffsp.replay(obj)
    import json
    print(json.dumps(obj, indent=1)[:4000])
