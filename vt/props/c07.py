"""C07 -- scheduling environments yield valid schedules: units fjsp (FJSP/JSSP) and ffsp (FFSP, SMTWTP)."""
from vt.props._units import run_units


def run(ctx, proofs_ok):
    run_units(ctx, proofs_ok)
