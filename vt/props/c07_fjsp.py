"""C07 / unit fjsp -- FJSPEnv and JSSPEnv always yield valid schedules with the reported makespan.

Proof obligations: coq/theories/Properties/C07_fjsp.v (FJSP_valid, JSSP_valid, no crash / loop fuel, ... about
the per-row automaton of Env/FJSP.v, for every instance size and every admitted action list).
Correspondence (DESIGN.md 1.1, soundness direction): the real envs are driven through mask-confined walks
(random / biased / exhaustive on tiny instances; batched with unequal op counts and solo; generated and
file-read instances; mask_no_ops on/off; check_mask on); after reset and after every step
impl_mask <= model_mask and impl_done = model_done, at the end start_times, finish_times, ma_assignment and
reward are equal to the model's, all evaluated inside Coq (Harness/HC07_fjsp.v).
Spec-on-impl: Spec/Schedule.v's valid_scheduleb is evaluated in Coq on EVERY implementation schedule with
makespan = -reward; an independent python validator names the mechanism when it fails."""
import os
import random
import shutil
import time
from fractions import Fraction

from vt import sched_guard as guard
from vt.common import BUILD, coq_eval_shards

HEADER0 = ("From Coq Require Import List ZArith Bool.\n"
           "From RL4CO Require Import Spec.Schedule Env.FJSP Harness.HC07_fjsp.\n"
           "Import ListNotations.\n")
SCRATCH = BUILD / "c07_fjsp_files"


# ----------------------------------------------------------------------------- Coq literals
def _nl(xs):
    return "[" + "; ".join("%d" % int(x) for x in xs) + "]%nat"


def _zl(xs):
    return "[" + "; ".join("%d" % int(x) if int(x) >= 0 else "(%d)" % int(x) for x in xs) + "]%Z"


def _bl(xs):
    return "[" + "; ".join("true" if x else "false" for x in xs) + "]"


def _inst_coq(inst):
    return "{| start_op := %s; end_op := %s; proc := [%s]; pad_mask := %s |}" % (
        _nl(inst["start"]), _nl(inst["end"]), "; ".join(_zl(r) for r in inst["proc"]), _bl(inst["pad"]))


def _case_coq(case, iname):
    steps = "; ".join("(%d%%nat, %s, %s)" % (a, _bl(m), "true" if d else "false") for a, m, d in case["steps"])
    f = case["final"]
    if f is None:
        fin = "None"
    else:
        fin = "(Some (mkfin %s %s [%s] (%d)%%Z))" % (
            _zl(f["start"]), _zl(f["finish"]), "; ".join(_bl(r) for r in f["assign"]), f["reward"])
    keys = "[" + "; ".join(_keys_coq(q) for q in (case.get("keys") or [])) + "]"
    return "mkcase %s %s %s %s [%s] %s %s" % (
        "true" if case["jssp"] else "false", "true" if case["mno"] else "false", iname, _bl(case["mask0"]), steps, fin, keys)


# the keys of the step output the row model has a counterpart for (Harness/HC07_fjsp.v fjsp_keys, tags 21..28)
KEYS_COMPARED = ["time", "busy_until", "next_op", "job_in_process", "job_done", "op_scheduled", "start_times", "finish_times"]


def _keys_of(td, b):
    return {"time": _ints(td["time"][b])[0], "busy": _ints(td["busy_until"][b]), "next": _ints(td["next_op"][b]),
            "inproc": [bool(x) for x in td["job_in_process"][b].tolist()], "jdone": [bool(x) for x in td["job_done"][b].tolist()],
            "sched": [bool(x) for x in td["op_scheduled"][b].tolist()], "start": _ints(td["start_times"][b]),
            "finish": _ints(td["finish_times"][b])}


def _keys_coq(q):
    return "(mkkeys (%d)%%Z %s %s %s %s %s %s %s)" % (q["time"], _zl(q["busy"]), _nl(q["next"]), _bl(q["inproc"]), _bl(q["jdone"]),
                                                      _bl(q["sched"]), _zl(q["start"]), _zl(q["finish"]))


# ----------------------------------------------------------------------------- exact integers out of tensors
class NotIntegral(Exception):
    pass


def _ints(t):
    out = []
    for x in t.flatten().tolist():
        if float(x) != int(x):
            raise NotIntegral(repr(x))
        out.append(int(x))
    return out


def _inst_of_td(td0, b):
    M, N = td0["proc_times"].shape[1:]
    p = _ints(td0["proc_times"][b])
    return {"start": _ints(td0["start_op_per_job"][b]), "end": _ints(td0["end_op_per_job"][b]),
            "proc": [p[m * N:(m + 1) * N] for m in range(M)],
            "pad": [bool(x) for x in td0["pad_mask"][b].tolist()]}


# ----------------------------------------------------------------------------- independent python validator
def py_validate(inst, f):
    """Returns None when (start, finish, assign, reward) is a valid schedule of inst with makespan -reward,
    else a short mechanism name.  Independent of both the env and the Coq model (search oracle / cross-check)."""
    S, E, Pm, pad = inst["start"], inst["end"], inst["proc"], inst["pad"]
    M, N = len(Pm), len(pad)
    st, fi, asg = f["start"], f["finish"], f["assign"]
    real = [o for s, e in zip(S, E) for o in range(s, e + 1)]
    on = {}
    for o in range(N):
        ms = [m for m in range(M) if asg[m][o]]
        if o in real:
            if len(ms) != 1:
                return "op-not-processed-exactly-once"
            on[o] = ms[0]
        elif ms:
            return "padded-op-scheduled"
    if sorted(real) != [o for o in range(N) if not pad[o]]:
        return "pad-mask-inconsistent-with-jobs"
    for o, m in on.items():
        if Pm[m][o] <= 0:
            return "machine-not-eligible"
        if fi[o] - st[o] != Pm[m][o]:
            return "wrong-duration"
        if st[o] < 0:
            return "negative-start"
    for s, e in zip(S, E):
        for o in range(s, e):
            if fi[o] > st[o + 1]:
                return "job-precedence"
    for m in range(M):
        ops = sorted((st[o], fi[o]) for o in on if on[o] == m)
        for (s1, f1), (s2, f2) in zip(ops, ops[1:]):
            if f1 > s2:
                return "machine-overlap"
    if not real or max(fi[o] for o in real) != -f["reward"]:
        return "makespan-not-max-finish"
    return None


# ----------------------------------------------------------------------------- driving the real envs
def _choose(torch, mask_row, done, policy, rng):
    adm = [a for a, b in enumerate(mask_row) if b]
    if not adm:
        return None
    nz = [a for a in adm if a != 0]
    if policy == "wait" and 0 in adm:
        return 0
    if policy == "nowait" and nz:
        return rng.choice(nz)
    if policy == "first" and nz:
        return nz[0]
    if policy == "last" and nz:
        return nz[-1]
    return rng.choice(adm)


class Runner:
    def __init__(self, ctx):
        import torch
        from rl4co.envs.scheduling.fjsp.env import FJSPEnv
        from rl4co.envs.scheduling.jssp.env import JSSPEnv
        self.torch = torch
        self.cls = {"fjsp": FJSPEnv, "jssp": JSSPEnv}
        self.ctx = ctx
        self.rng = ctx.rng
        self.insts = []          # distinct instances (dict) in order; cases refer to them by index
        self.inst_key = {}
        self.cases = []          # dicts: jssp, mno, inst (index), mask0, steps, final, meta
        self.failures = []       # (signature, replay)
        self.skipped_nonintegral = 0
        # bookkeeping keys travel with every exhaustive case and with a fixed share of the walk episodes (term size); an own
        # generator, so that the instance / walk streams do not depend on it
        self.key_rng = random.Random(ctx.seed * 7919 + 17)
        self.key_share = 0.3
        self.cases_with_keys = 0
        self.sw_rows = []        # stepwise_reward=True episodes: (kind, mno, inst, row record, replay)

    def timeout(self, kind, e, replay):
        """an env call did not return (vt/sched_guard.py): C02's 'episodes terminate', reported with instance + actions"""
        self.failures.append((guard.signature(kind, e.what), dict(replay, error=str(e), what_hangs="env.%s" % e.what)))

    def env(self, kind, mno, gp, stepwise=False):
        if stepwise:
            return self.cls[kind](generator_params=dict(gp), mask_no_ops=mno, check_mask=True, stepwise_reward=True)
        return self.cls[kind](generator_params=dict(gp), mask_no_ops=mno, check_mask=True)

    def inst_index(self, inst):
        k = repr(inst)
        if k not in self.inst_key:
            self.inst_key[k] = len(self.insts)
            self.insts.append(inst)
        return self.inst_key[k]

    def episode(self, kind, mno, env, td0, policy, source, extra_pad=2, max_steps=400):
        """One (batched) episode on the instances td0; records one case per row."""
        torch, rng, ctx = self.torch, self.rng, self.ctx
        B = td0.batch_size[0]
        try:
            insts = [_inst_of_td(td0, b) for b in range(B)]
        except NotIntegral:
            self.skipped_nonintegral += B
            return
        replay = {"unit": "fjsp", "env": self.cls[kind].__name__, "mask_no_ops": mno, "instances": insts,
                  "actions": [], "policy": policy, "source": source}
        if guard.timed_out(kind):
            return
        try:
            td = guard.call(kind, "reset", env.reset, td0.clone())
        except guard.EnvTimeout as e:
            self.timeout(kind, e, replay)
            return
        except Exception as e:  # noqa: BLE001
            self.failures.append(("%s: reset-raises" % kind, dict(replay, error=repr(e)[:400])))
            return
        rows = [{"mask0": [bool(x) for x in td["action_mask"][b].tolist()], "steps": [], "choice": False} for b in range(B)]
        with_keys = self.key_rng.random() < self.key_share
        keys = [[_keys_of(td, b)] for b in range(B)] if with_keys else None
        pads = 0
        nstep = 0
        while True:
            if bool(td["done"].all()):
                if pads >= extra_pad:
                    break
                pads += 1
            if nstep >= max_steps:
                self.failures.append(("%s: episode-does-not-terminate" % kind, dict(replay, steps=nstep)))
                return
            acts = []
            for b in range(B):
                mrow = [bool(x) for x in td["action_mask"][b].tolist()]
                a = _choose(torch, mrow, bool(td["done"][b]), policy, rng)
                if a is None:
                    self.failures.append(("%s: empty-mask-row" % kind, dict(replay, row=b, step=nstep)))
                    return
                if sum(mrow) >= 2:
                    rows[b]["choice"] = True
                acts.append(a)
            replay["actions"].append(list(acts))
            td.set("action", torch.tensor(acts, dtype=torch.int64))
            t_before = td["time"].clone()
            d_before = td["done"].squeeze(1).clone()
            try:
                td = guard.call(kind, "step", env.step, td)["next"]
            except guard.EnvTimeout as e:
                self.timeout(kind, e, replay)
                return
            except Exception as e:  # noqa: BLE001
                self.failures.append(("%s: step-raises-on-admitted-action" % kind, dict(replay, error=repr(e)[:400])))
                return
            nstep += 1
            for b in range(B):
                rows[b]["steps"].append((acts[b], [bool(x) for x in td["action_mask"][b].tolist()], bool(td["done"][b])))
                if keys is not None:
                    try:
                        keys[b].append(_keys_of(td, b))
                    except NotIntegral:
                        keys = None
                if bool(d_before[b]):
                    ctx.count("fjsp_padding_steps_on_finished_rows")
                elif acts[b] == 0:
                    ctx.count("fjsp_wait_actions")
                elif float(td["time"][b]) != float(t_before[b]):
                    ctx.count("fjsp_steps_with_automatic_time_transit")
        try:
            rew = guard.call(kind, "get_reward", env.get_reward, td, None)
            finals = []
            for b in range(B):
                N = len(insts[b]["pad"])
                M = len(insts[b]["proc"])
                a = _ints(td["ma_assignment"][b])
                finals.append({"start": _ints(td["start_times"][b]), "finish": _ints(td["finish_times"][b]),
                               "assign": [[bool(x) for x in a[m * N:(m + 1) * N]] for m in range(M)],
                               "reward": _ints(rew[b])[0]})
        except NotIntegral:
            self.skipped_nonintegral += B
            return
        except guard.EnvTimeout as e:
            self.timeout(kind, e, replay)
            return
        except Exception as e:  # noqa: BLE001
            self.failures.append(("%s: get_reward-raises" % kind, dict(replay, error=repr(e)[:400])))
            return
        nops = sorted(sum(1 for p in i_["pad"] if not p) for i_ in insts)
        if B > 1 and nops[0] != nops[-1]:
            ctx.count("fjsp_batches_with_unequal_op_counts")
        for b in range(B):
            why = py_validate(insts[b], finals[b])
            if why is not None:
                self.failures.append(("%s: schedule-invalid/%s" % (kind, why),
                                      dict(replay, row=b, observed=finals[b])))
            case = {"jssp": kind == "jssp", "mno": mno, "inst": self.inst_index(insts[b]), "mask0": rows[b]["mask0"],
                    "steps": rows[b]["steps"], "final": finals[b], "py_valid": why, "keys": keys[b] if keys is not None else None,
                    "meta": {"env": kind, "mask_no_ops": mno, "policy": policy, "source": source, "batch": B, "row": b,
                             "replay": replay}}
            self.cases.append(case)
            if keys is not None:
                self.cases_with_keys += 1
                ctx.count("fjsp_cases_with_bookkeeping_keys_compared")
                ctx.count("fjsp_states_with_bookkeeping_keys_compared", len(keys[b]))
            acts_b = [s[0] for s in rows[b]["steps"]]
            ctx.seen({"i": insts[b], "a": acts_b, "k": kind, "m": mno}, nontrivial=len(acts_b) >= 2 and rows[b]["choice"])
            ctx.count("fjsp_cases_%s_%s" % (kind, "mask_no_ops" if mno else "waits_allowed"))
            ctx.count("fjsp_cases_%s" % ("batched" if B > 1 else "solo"))
            ctx.count("fjsp_cases_src_%s" % source)
            ctx.count("fjsp_size_J%d_M%d" % (len(insts[b]["start"]), len(insts[b]["proc"])))

    def exhaustive(self, kind, mno, env, td0, cap):
        """All admitted complete sequences of one tiny instance (B = 1), depth first, capped."""
        torch, ctx = self.torch, self.ctx
        try:
            inst = _inst_of_td(td0, 0)
        except NotIntegral:
            self.skipped_nonintegral += 1
            return
        idx = self.inst_index(inst)
        replay0 = {"unit": "fjsp", "env": self.cls[kind].__name__, "mask_no_ops": mno, "instances": [inst],
                   "source": "exhaustive"}
        if guard.timed_out(kind):
            return
        try:
            td = guard.call(kind, "reset", env.reset, td0.clone())
        except guard.EnvTimeout as e:
            self.timeout(kind, e, dict(replay0, actions=[]))
            return
        mask0 = [bool(x) for x in td["action_mask"][0].tolist()]
        count = [0]
        keys0 = _keys_of(td, 0)

        def rec(td, steps, choice, keys):
            if count[0] >= cap:
                return
            if bool(td["done"].all()):
                count[0] += 1
                rew = guard.call(kind, "get_reward", env.get_reward, td, None)
                N, M = len(inst["pad"]), len(inst["proc"])
                a = _ints(td["ma_assignment"][0])
                f = {"start": _ints(td["start_times"][0]), "finish": _ints(td["finish_times"][0]),
                     "assign": [[bool(x) for x in a[m * N:(m + 1) * N]] for m in range(M)], "reward": _ints(rew[0])[0]}
                replay = dict(replay0, actions=[[s[0]] for s in steps])
                why = py_validate(inst, f)
                if why is not None:
                    self.failures.append(("%s: schedule-invalid/%s" % (kind, why), dict(replay, row=0, observed=f)))
                self.cases.append({"jssp": kind == "jssp", "mno": mno, "inst": idx, "mask0": mask0, "steps": list(steps),
                                   "final": f, "py_valid": why, "keys": list(keys),
                                   "meta": {"env": kind, "mask_no_ops": mno, "policy": "exhaustive", "source": "exhaustive",
                                            "batch": 1, "row": 0, "replay": replay}})
                self.cases_with_keys += 1
                ctx.count("fjsp_cases_with_bookkeeping_keys_compared")
                ctx.count("fjsp_states_with_bookkeeping_keys_compared", len(keys))
                ctx.seen({"i": inst, "a": [s[0] for s in steps], "k": kind, "m": mno}, nontrivial=len(steps) >= 2 and choice)
                ctx.count("fjsp_cases_%s_%s" % (kind, "mask_no_ops" if mno else "waits_allowed"))
                ctx.count("fjsp_cases_solo")
                ctx.count("fjsp_cases_src_exhaustive")
                return
            mrow = [bool(x) for x in td["action_mask"][0].tolist()]
            adm = [a for a, b in enumerate(mrow) if b]
            if not adm:
                self.failures.append(("%s: empty-mask-row" % kind, dict(replay0, actions=[[s[0]] for s in steps], row=0)))
                return
            for a in adm:
                t2 = td.clone()
                t2.set("action", torch.tensor([a], dtype=torch.int64))
                try:
                    t2 = guard.call(kind, "step", env.step, t2)["next"]
                except guard.EnvTimeout:
                    self.hung = [[s[0]] for s in steps] + [[a]]
                    raise
                except Exception as e:  # noqa: BLE001
                    self.failures.append(("%s: step-raises-on-admitted-action" % kind,
                                          dict(replay0, actions=[[s[0]] for s in steps] + [[a]], error=repr(e)[:400])))
                    continue
                if a == 0:
                    ctx.count("fjsp_wait_actions")
                rec(t2, steps + [(a, [bool(x) for x in t2["action_mask"][0].tolist()], bool(t2["done"][0]))],
                    choice or len(adm) >= 2, keys + [_keys_of(t2, 0)])

        try:
            self.hung = []
            rec(td, [], False, [keys0])
        except NotIntegral:
            self.skipped_nonintegral += 1
        except guard.EnvTimeout as e:      # the expansion of this instance is abandoned
            self.timeout(kind, e, dict(replay0, actions=self.hung))
        if count[0] >= cap:
            ctx.count("fjsp_exhaustive_cap_hit")
        ctx.count("fjsp_exhaustive_instances")

    # -- instance sources
    def gen_params(self, kind, big):
        rng = self.rng
        J = rng.randint(2, 8 if big else 5)
        M = rng.randint(2, 5 if big else 4)
        mx = rng.randint(1, 4 if big else 3)
        gp = {"num_jobs": J, "num_machines": M, "min_ops_per_job": 1, "max_ops_per_job": mx,
              "min_processing_time": 1, "max_processing_time": rng.choice([2, 3, 5, 9])}
        if kind == "fjsp":
            gp["same_mean_per_op"] = rng.random() < 0.5
            if rng.random() < 0.3:
                gp["max_eligible_ma_per_op"] = 1
        else:
            if rng.random() < 0.3:      # the common benchmark shape: every job visits every machine once
                gp.update(one2one_ma_map=True, min_ops_per_job=None, max_ops_per_job=None)
            else:
                gp["one2one_ma_map"] = False
        return gp

    def write_files(self, kind, td_reset, sub):
        """Instances written to text files (FJSP: the env's own writer; JSSP: its documented format), to be
        read back by the env's own parser."""
        d = SCRATCH / sub
        if d.exists():
            shutil.rmtree(d)
        d.mkdir(parents=True)
        if kind == "fjsp":
            from rl4co.envs.scheduling.fjsp.parser import write
            write(str(d), td_reset)
        else:
            for b in range(td_reset.batch_size[0]):
                inst = _inst_of_td(td_reset, b)
                lines = ["%d\t%d" % (len(inst["start"]), len(inst["proc"]))]
                for s, e in zip(inst["start"], inst["end"]):
                    ws = []
                    for o in range(s, e + 1):
                        m = [m for m in range(len(inst["proc"])) if inst["proc"][m][o] > 0][0]
                        ws += [str(m + 1), str(inst["proc"][m][o])]
                    lines.append(" ".join(ws))
                (d / ("%04d.txt" % b)).write_text("\n".join(lines))
        return str(d)


POLICIES = ["random", "random", "wait", "nowait", "first", "last"]


# ----------------------------------------------------------------------------- stepwise_reward=True (dense reward)
SW_SIG = "%s/stepwise_reward=True: reward-differs-from-objective"
SW_TAGS = {4: "initial lower bound minus the sum of the step rewards is not the makespan of the induced schedule",
           5: "sparse reward differs from the model", 17: "a step reward is not minus the change of the maximal lower bound",
           18: "the final lower bound is not the makespan", 19: "malformed record", 2: "action outside the model mask",
           7: "model step = None", 12: "episode not finished", 20: "instance outside wfb / solvableb / jssp_wfb",
           21: "the model's own schedule is rejected by valid_scheduleb"}


def _frac(x):
    try:
        return Fraction(float(x))
    except (OverflowError, ValueError):
        return None


def stepwise_episode(torch, kind, env, td0, policies, rng, extra_pad=1, max_steps=400):
    """One batch of FJSPEnv / JSSPEnv(stepwise_reward=True) driven through its own mask.  Per row: the actions, the maximal
    lower bound td['lbs'].max() after reset and after every step, td['reward'] after every step (exact rationals of the
    float32 values) and the sparse reward env.get_reward(td, actions).  May raise NotIntegral (instance data)."""
    B = td0.batch_size[0]
    insts = [_inst_of_td(td0, b) for b in range(B)]
    out = {"insts": insts, "actions": [], "crash": None, "rows": []}
    try:
        td = guard.call(kind, "reset", env.reset, td0.clone())
    except guard.EnvTimeout as e:
        out["crash"] = {"where": "timeout", "call": e.what, "error": str(e)}
        return out
    except Exception as e:  # noqa: BLE001
        out["crash"] = {"where": "reset", "error": repr(e)[:300]}
        return out
    L = [[_frac(x)] for x in td["lbs"].max(1).values.tolist()]
    r = [[] for _ in range(B)]
    choice = [False] * B
    first_done = [None] * B
    pads = k = 0
    while True:
        if bool(td["done"].all()):
            if pads >= extra_pad:
                break
            pads += 1
        if k >= max_steps:
            out["crash"] = {"where": "loop", "error": "episode longer than %d steps" % max_steps}
            return out
        acts = []
        for b in range(B):
            mrow = [bool(x) for x in td["action_mask"][b].tolist()]
            a = _choose(torch, mrow, bool(td["done"][b]), policies[b % len(policies)], rng)
            if a is None:
                out["crash"] = {"where": "mask", "error": "empty mask row", "row": b, "step": k}
                return out
            choice[b] = choice[b] or sum(mrow) >= 2
            acts.append(a)
        out["actions"].append(acts)
        td.set("action", torch.tensor(acts, dtype=torch.int64))
        try:
            td = guard.call(kind, "step", env.step, td)["next"]
        except guard.EnvTimeout as e:
            out["crash"] = {"where": "timeout", "call": e.what, "error": str(e)}
            return out
        except Exception as e:  # noqa: BLE001
            out["crash"] = {"where": "step", "error": repr(e)[:300], "step": k}
            return out
        k += 1
        lm = td["lbs"].max(1).values.tolist()
        rw = td["reward"].reshape(-1).tolist()
        for b in range(B):
            L[b].append(_frac(lm[b]))
            r[b].append(_frac(rw[b]))
            if bool(td["done"][b]) and first_done[b] is None:
                first_done[b] = k
    try:
        at = torch.tensor(out["actions"], dtype=torch.int64).T.contiguous()
        sp = guard.call(kind, "get_reward", env.get_reward, td, at).reshape(-1).tolist()
    except guard.EnvTimeout as e:
        out["crash"] = {"where": "timeout", "call": e.what, "error": str(e)}
        return out
    except Exception as e:  # noqa: BLE001
        out["crash"] = {"where": "get_reward", "error": repr(e)[:300]}
        return out
    for b in range(B):
        f = _frac(sp[b])
        out["rows"].append({"acts": [a[b] for a in out["actions"]], "L": L[b], "r": r[b], "choice": choice[b], "first_done": first_done[b],
                            "sparse": int(f) if f is not None and f.denominator == 1 else None, "sparse_raw": sp[b]})
    return out


def stepwise_scale_tol(row):
    """(scale, tol): scale = the power of two that makes every recorded float an integer; tol = float32 rounding allowance per
    step in scaled units (0 where float32 subtraction is exact: multiples of 1/64 below 2^17).  None = not representable."""
    vals = row["L"] + row["r"]
    if any(v is None for v in vals):
        return None
    scale = max(v.denominator for v in vals)
    if scale > 2 ** 40:
        return None
    maxabs = max(abs(v) for v in vals)
    if scale <= 64 and maxabs < 2 ** 17:
        return scale, 0
    return scale, int(scale * maxabs / 2 ** 22) + 1


def stepwise_py_check(row):
    """the telescoping identity on the implementation's own numbers: None = holds, else a description"""
    st_ = stepwise_scale_tol(row)
    if st_ is None:
        return "a lower bound / step reward is not a finite float32 number"
    if row["sparse"] is None:
        return "the sparse reward %r is not an integer" % (row["sparse_raw"],)
    scale, tol = st_
    lhs = row["L"][0] - sum(row["r"], Fraction(0))
    if abs(lhs - (-row["sparse"])) * scale > tol * len(row["r"]):
        return ("initial max lower bound %s minus the sum of the %d step rewards (%s) = %s, but the makespan "
                "(-env.get_reward(td, actions)) is %s" % (float(row["L"][0]), len(row["r"]), float(sum(row["r"], Fraction(0))),
                                                          float(lhs), -row["sparse"]))
    return None


def stepwise_term(kind, mno, iname, row):
    scale, tol = stepwise_scale_tol(row)
    z = lambda v: int(v * scale)
    return "(%s, %s, %s, %s, mksw (%d)%%Z %s %s (%d)%%Z (%d)%%Z)" % (
        "true" if kind == "jssp" else "false", "true" if mno else "false", iname, _nl(row["acts"]), scale,
        _zl([z(v) for v in row["L"]]), _zl([z(v) for v in row["r"]]), tol, row["sparse"])


def stepwise_replay_obj(kind, mno, out, b, what):
    row = out["rows"][b] if out["rows"] else None
    obj = {"unit": "fjsp", "env": {"fjsp": "FJSPEnv", "jssp": "JSSPEnv"}[kind], "kind": "fjsp_stepwise", "mask_no_ops": mno,
           "stepwise_reward": True, "instances": out["insts"], "actions": out["actions"], "row": b, "what": what, "crash": out["crash"]}
    if row is not None:
        obj["observed"] = {"max_lower_bound_after_reset_and_each_step": [float(v) if v is not None else None for v in row["L"]],
                           "step_rewards": [float(v) if v is not None else None for v in row["r"]],
                           "sparse_reward": row["sparse_raw"]}
        obj["expected"] = "max lower bound after reset - sum(step rewards) == makespan == -env.get_reward(td, actions)"
    return obj


def stepwise_replay(obj):
    """re-runs a recorded stepwise_reward=True batch on the current tree and prints the identity for the recorded row"""
    import torch
    from tensordict import TensorDict
    from rl4co.envs.scheduling.fjsp.env import FJSPEnv
    from rl4co.envs.scheduling.jssp.env import JSSPEnv
    kind = "jssp" if obj["env"] == "JSSPEnv" else "fjsp"
    insts = obj["instances"]
    N = max(len(i["pad"]) for i in insts)
    td0 = TensorDict({"start_op_per_job": torch.tensor([i["start"] for i in insts]),
                      "end_op_per_job": torch.tensor([i["end"] for i in insts]),
                      "proc_times": torch.tensor([[r + [0] * (N - len(r)) for r in i["proc"]] for i in insts], dtype=torch.float32),
                      "pad_mask": torch.tensor([list(i["pad"]) + [True] * (N - len(i["pad"])) for i in insts])}, batch_size=[len(insts)])
    env = {"fjsp": FJSPEnv, "jssp": JSSPEnv}[kind](generator_params={"num_jobs": len(insts[0]["start"]), "num_machines": len(insts[0]["proc"])},
                                                  mask_no_ops=obj["mask_no_ops"], stepwise_reward=True)
    b = obj.get("row", 0)
    print("signature:", obj.get("signature"))
    print("instance :", insts[b])
    try:
        td = guard.call(kind, "reset", env.reset, td0)
        L0 = float(td["lbs"].max(1).values[b])
        tot = Fraction(0)
        print("max lower bound after reset: %s" % L0)
        for k, acts in enumerate(obj.get("actions", []), 1):
            td.set("action", torch.tensor(acts, dtype=torch.int64))
            td = guard.call(kind, "step", env.step, td)["next"]
            rw = float(td["reward"].reshape(-1)[b])
            tot += Fraction(rw)
            print("step %d action %d -> reward %s, max lower bound %s, done %s" % (k, acts[b], rw, float(td["lbs"].max(1).values[b]), bool(td["done"][b])))
    except guard.EnvTimeout as e:
        print("HANG reproduced:", e)
        return 1
    mk = None
    if bool(td["done"].all()):
        mk = -float(env.get_reward(td, torch.tensor(obj["actions"], dtype=torch.int64).T.contiguous())[b])
    lhs = float(Fraction(L0) - tot)
    print("initial lower bound - sum of step rewards = %s ; makespan = %s" % (lhs, mk))
    print("recorded:", obj.get("observed"))
    ok = mk is not None and abs(lhs - mk) <= 1e-3 * max(1.0, abs(mk))
    print("identity holds now:", ok)
    return 0 if ok else 1


def _generate_stepwise(ctx, R, scale, big, rng):
    """FJSPEnv / JSSPEnv constructed with stepwise_reward=True (own generator `rng`: the other streams do not depend on it)"""
    torch = R.torch
    combos = [(k, m) for k in ("fjsp", "jssp") for m in (True, False)]
    for kind, mno in combos:
        for rep in range(scale + 1):
            long_h = rep == scale
            if long_h:
                gp = {"num_jobs": 3, "num_machines": 2, "min_ops_per_job": 2, "max_ops_per_job": 3,
                      "min_processing_time": rng.choice([2500, 3000]), "max_processing_time": rng.choice([4000, 6000])}
            else:
                gp = {"num_jobs": rng.randint(2, 6 if big else 4), "num_machines": rng.choice([2, 2, 3, 4]), "min_ops_per_job": 1,
                      "max_ops_per_job": rng.randint(2, 3), "min_processing_time": 1, "max_processing_time": rng.choice([2, 3, 5, 9])}
            if kind == "jssp":
                gp["one2one_ma_map"] = False
            torch.manual_seed(rng.randrange(2 ** 31))
            env = R.env(kind, mno, gp, stepwise=True)
            B = rng.randint(2, 4)
            td0 = env.generator(batch_size=[B])
            if B > 1 and rng.random() < 0.6:
                td0["proc_times"][B - 1] = td0["proc_times"][B - 1] * 3
            if guard.timed_out(kind):
                continue
            try:
                out = stepwise_episode(torch, kind, env, td0, [rng.choice(POLICIES) for _ in range(B)], rng, extra_pad=rng.randint(0, 2))
            except NotIntegral:
                R.skipped_nonintegral += B
                continue
            ctx.count("fjsp_stepwise_batches_%s_%s" % (kind, "mask_no_ops" if mno else "waits_allowed"))
            if out["crash"]:
                c = out["crash"]
                sig = (guard.signature(kind, c["call"]) if c["where"] == "timeout" else
                       "%s: %s" % (kind, {"mask": "empty-mask-row", "step": "step-raises-on-admitted-action", "reset": "reset-raises",
                                          "loop": "episode-does-not-terminate", "get_reward": "get_reward-raises"}[c["where"]]))
                R.failures.append((sig, stepwise_replay_obj(kind, mno, out, c.get("row", 0), "stepwise_reward=True: " + c["error"])))
                continue
            for b, row in enumerate(out["rows"]):
                why = stepwise_py_check(row)
                if why is not None:
                    R.failures.append((SW_SIG % kind, stepwise_replay_obj(kind, mno, out, b, why)))
                if stepwise_scale_tol(row) is None or row["sparse"] is None:
                    continue
                R.sw_rows.append((kind, mno, R.inst_index(out["insts"][b]), row, stepwise_replay_obj(kind, mno, out, b, "")))
                ctx.seen({"sw": True, "i": out["insts"][b], "a": row["acts"], "k": kind, "m": mno}, nontrivial=len(row["acts"]) >= 2 and row["choice"])
                ctx.count("fjsp_stepwise_rows")
                ctx.count("fjsp_stepwise_rows_%s" % ("exact_dyadic" if stepwise_scale_tol(row)[1] == 0 else "with_float32_rounding_allowance"))
                ctx.count("fjsp_stepwise_steps", len(row["r"]))
                ctx.count("fjsp_stepwise_steps_with_nonzero_reward", sum(1 for v in row["r"] if v != 0))
                ctx.count("fjsp_stepwise_padding_steps_after_done", len(row["r"]) - (row["first_done"] or len(row["r"])))


def _evaluate_stepwise(ctx, R, unit):
    if not R.sw_rows:
        return
    header = HEADER0 + "".join("Definition I%d : inst := %s.\n" % (k, _inst_coq(inst)) for k, inst in enumerate(R.insts))
    terms = [stepwise_term(kind, mno, "I%d" % idx, row) for kind, mno, idx, row, _ in R.sw_rows]
    try:
        codes = coq_eval_shards("cases_C07_fjsp_stepwise", header, "sw_case", "check_stepwise", terms, shard=150)
    except RuntimeError as e:
        ctx.broken.append("correspondence C07/fjsp/stepwise could not be evaluated in Coq: %s" % str(e)[-800:])
        return
    nz = [(k, c) for k, c in enumerate(codes) if c != 0]
    unit["stepwise_rows"] = len(codes)
    unit["stepwise_disagreements"] = len(nz)
    for k, c in nz:
        kind, mno, idx, row, rep = R.sw_rows[k]
        if c % 1000 == 4:      # the identity fails against the makespan recomputed from (instance, actions)
            R.failures.append((SW_SIG % kind, dict(rep, what="evaluated in Coq: " + SW_TAGS[4], code=c)))
    other = [(k, c) for k, c in nz if c % 1000 != 4]
    if other:
        k, c = other[0]
        kind, mno, idx, row, rep = R.sw_rows[k]
        path = ctx.write_replay(dict(rep, code=c, property="C07", what="model/implementation disagreement: " + SW_TAGS.get(c % 1000, "?")),
                                tag="corr-fjsp-stepwise")
        ctx.broken.append("correspondence C07/fjsp/stepwise_reward=True: %d of %d rows differ; first: code %d (step %d: %s), case file %s" % (
            len(other), len(codes), c, c // 1000, SW_TAGS.get(c % 1000, "?"), path))


def _generate_cases(ctx, R, scale, big):
    torch = R.torch
    rng = ctx.rng
    combos = [(k, m) for k in ("fjsp", "jssp") for m in (True, False)]
    # --- generator stream: padded batches + the same rows solo
    for kind, mno in combos:
        for rep in range(3 * scale):
            gp = R.gen_params(kind, big)
            torch.manual_seed(rng.randrange(2 ** 31))
            env = R.env(kind, mno, gp)
            B = rng.randint(3, 6)
            td0 = env.generator(batch_size=[B])
            for pol in POLICIES:
                R.episode(kind, mno, env, td0, pol, "generator", extra_pad=rng.randint(0, 3))
            for b in range(B):
                R.episode(kind, mno, env, td0[b:b + 1], rng.choice(POLICIES), "generator", extra_pad=rng.randint(0, 2))
    # --- long-horizon stream: the clock crosses the library's "not scheduled yet" sentinel INIT_FINISH = 9999, so any
    #     place where the code relies on `finish_time <= time` being false for unscheduled operations is exercised
    #     (processing times in the thousands are legal generator parameters and occur in benchmark files)
    for kind, mno in combos:
        for rep in range(scale):
            gp = {"num_jobs": rng.randint(4, 5), "num_machines": 2, "min_ops_per_job": 2, "max_ops_per_job": 3,
                  "min_processing_time": rng.choice([2500, 3000]), "max_processing_time": rng.choice([4000, 6000])}
            if kind == "jssp":
                gp["one2one_ma_map"] = False
            torch.manual_seed(rng.randrange(2 ** 31))
            env = R.env(kind, mno, gp)
            td0 = env.generator(batch_size=[2])
            ctx.count("fjsp_long_horizon_instances", 2)
            for pol in POLICIES:
                R.episode(kind, mno, env, td0, pol, "long-horizon", extra_pad=1)
            R.episode(kind, mno, env, td0[0:1], "random", "long-horizon", extra_pad=0)
    # --- file-read instances (own writer / documented format -> own parser), different op counts per file => padding
    for kind, mno in combos:
        for rep in range(scale):
            gp = R.gen_params(kind, big)
            if kind == "jssp":      # unequal op counts per file => the parser pads
                gp.update(one2one_ma_map=False, min_ops_per_job=1, max_ops_per_job=rng.randint(2, 3))
            torch.manual_seed(rng.randrange(2 ** 31))
            wenv = R.env(kind, mno, gp)
            nfiles = rng.randint(2, 4)
            tdw = wenv.reset(batch_size=[nfiles])
            path = R.write_files(kind, tdw, "%s_%d_%d" % (kind, int(mno), rep))
            try:
                renv = R.env(kind, mno, {"file_path": path})
                tdr = renv.generator(batch_size=[nfiles])
            except Exception as e:  # noqa: BLE001
                ctx.notes.append("fjsp unit: file round trip could not be constructed for %s: %r" % (kind, e))
                continue
            for pol in ("random", "wait", "nowait"):
                R.episode(kind, mno, renv, tdr, pol, "file", extra_pad=1)
            for b in range(nfiles):
                R.episode(kind, mno, renv, tdr[b:b + 1], "random", "file", extra_pad=1)
    # --- exhaustive on tiny instances
    for kind, mno in combos:
        for rep in range(4 * scale):
            J, M = (2, 2) if rep % 4 != 3 else (3, 2)
            gp = {"num_jobs": J, "num_machines": M, "min_ops_per_job": 1, "max_ops_per_job": 2,
                  "min_processing_time": 1, "max_processing_time": rng.choice([2, 3, 4])}
            if kind == "jssp":
                gp["one2one_ma_map"] = False
            torch.manual_seed(rng.randrange(2 ** 31))
            env = R.env(kind, mno, gp)
            td0 = env.generator(batch_size=[1])
            R.exhaustive(kind, mno, env, td0, cap=(400 if big else 120))


def _evaluate(ctx, R, cases, prefix):
    """Evaluates check_C07_fjsp in Coq; returns list of (corr, spec, notwf) or None."""
    header = HEADER0 + "".join("Definition I%d : inst := %s.\n" % (k, _inst_coq(inst)) for k, inst in enumerate(R.insts))
    terms = [_case_coq(c, "I%d" % c["inst"]) for c in cases]
    try:
        codes = coq_eval_shards(prefix, header, "fjsp_case", "check_C07_fjsp", terms, shard=150)
    except RuntimeError as e:
        ctx.broken.append("correspondence C07/fjsp could not be evaluated in Coq: %s" % str(e)[-800:])
        return None
    return [(c % 1000000, (c // 1000000) % 10, c // 10000000) for c in codes]


def _search(ctx, R, bad_cases, big):
    """A proof obligation or the correspondence broke: look for a concrete input on which the PROPERTY fails on the
    implementation -- the disagreeing instances first (many more walks, exhaustive when tiny), then a fresh sample.
    Failures are collected in R.failures by the python validator (and confirmed by valid_scheduleb afterwards)."""
    torch, rng = R.torch, ctx.rng
    n0 = len(R.cases)
    for c in bad_cases[:4]:
        meta = c["meta"]
        kind, mno = meta["env"], meta["mask_no_ops"]
        inst = R.insts[c["inst"]]
        from tensordict import TensorDict
        td0 = TensorDict({"start_op_per_job": torch.tensor([inst["start"]]), "end_op_per_job": torch.tensor([inst["end"]]),
                          "proc_times": torch.tensor([inst["proc"]], dtype=torch.float32),
                          "pad_mask": torch.tensor([inst["pad"]])}, batch_size=[1])
        env = R.env(kind, mno, {"num_jobs": len(inst["start"]), "num_machines": len(inst["proc"])})
        if sum(1 for p in inst["pad"] if not p) <= 5:
            R.exhaustive(kind, mno, env, td0, cap=2000)
        for k in range(60):
            R.episode(kind, mno, env, td0, rng.choice(POLICIES), "search", extra_pad=1)
    _generate_cases(ctx, R, 3, True)
    ctx.count("fjsp_search_cases", len(R.cases) - n0)
    return R.cases[n0:]


def run_unit(ctx, proofs_ok):
    t0 = time.time()
    big = ctx.tier == "thorough"
    R = Runner(ctx)
    ctx.rule += (" [fjsp] FJSPEnv/JSSPEnv(check_mask=True), mask_no_ops on/off; instances from the env generators at "
                 "2..5 jobs x 2..4 machines x 1..3 ops/job (thorough: up to 8 x 5 x 4), small integer processing times "
                 "(max 2..9, so simultaneous releases are frequent), batches of 3..6 rows with unequal op counts and the "
                 "same rows solo, instances written to files and read back by the env's parser; walks taken from the "
                 "implementation's mask: uniform, always-wait-when-allowed, never-wait, first/last admitted, plus ALL admitted "
                 "sequences of 2x2 / 3x2 instances (capped); 0..3 padding steps after the last row finished. "
                 "non-trivial = at least 2 steps and at least one state with >= 2 admitted actions; distinct by hash of "
                 "(instance, action list, env, flag).")
    ctx.assumptions += [
        "fjsp unit: per-row model; that batch-mates do not interfere is checked by running every instance batched and solo "
        "(the release phase applied to non-transiting rows is proved inert: FJSP_release_inert)",
        "fjsp unit: processing times are integers held in float32 (exact); instances violating wfb/solvableb/jssp_wfb are "
        "outside the theorems and are counted as such",
    ]
    _generate_cases(ctx, R, 24 if big else 4, big)
    _generate_stepwise(ctx, R, 12 if big else 2, big, random.Random(ctx.seed * 31 + 5))
    t1 = time.time()
    res = _evaluate(ctx, R, R.cases, "cases_C07_fjsp")
    unit = {"models": "Env/FJSP.v (FJSPEnv automaton; JSSPEnv mask + action translation); spec Spec/Schedule.v; "
                      "theorems Properties/C07_fjsp.v (Env/FJSPProofs.v)",
            "observables": "action_mask after reset and after every step (impl inside model), done (equal); at the end "
                           "start_times, finish_times, ma_assignment, reward (equal); spec-on-impl: valid_scheduleb with "
                           "makespan = -reward on every implementation schedule, cross-checked by a python validator",
            "cases": len(R.cases), "instances": len(R.insts), "skipped_nonintegral": R.skipped_nonintegral,
            "bookkeeping_keys_compared_per_state": {"FJSPEnv / JSSPEnv": KEYS_COMPARED + ["done", "action_mask (impl inside model)"],
                                                    "at_the_end": ["start_times", "finish_times", "ma_assignment", "reward"],
                                                    "not_compared (no model counterpart)": ["lbs", "is_ready", "num_eligible", "ops_sequence_order",
                                                                                            "ops_ma_adj / proc_times after scheduling", "adjacency", "next_ma"]},
            "cases_with_bookkeeping_keys": R.cases_with_keys,
            "wall_s_running_envs": round(t1 - t0, 1), "wall_s_coq_evaluation": round(time.time() - t1, 1)}
    _evaluate_stepwise(ctx, R, unit)
    unit["stepwise_reward_observables"] = ("FJSPEnv/JSSPEnv(stepwise_reward=True): td['lbs'].max() after reset and every step, td['reward'] "
                                           "after every step, env.get_reward(td, actions); identity L0 - sum(r) = makespan (python on the "
                                           "implementation alone; Coq against the makespan of the schedule the row model induces)")
    unit["env_call_guard"] = guard.evidence()
    bad = []
    if res is not None:
        nz = [(k, r) for k, r in enumerate(res) if r[0] != 0]
        notwf = sum(1 for r in res if r[2])
        specbad = [(k, r) for k, r in enumerate(res) if r[1] == 6]
        unit.update(disagreements=len(nz), outside_wf=notwf, spec_on_impl_failures=len(specbad),
                    spec_on_impl_evaluated=sum(1 for r in res if r[1] in (0, 6)))
        if nz:
            k, r = nz[0]
            m = dict(R.cases[k]["meta"])
            m.pop("replay", None)
            ctx.broken.append("correspondence C07/fjsp: model and implementation differ on %d of %d cases; first: case %d "
                              "code %d (step %d, tag %d) %s" % (len(nz), len(res), k, r[0], r[0] // 1000, r[0] % 1000, m))
            bad = [R.cases[k] for k, _ in nz]
        for k, r in specbad:
            c = R.cases[k]
            why = c["py_valid"] or "rejected-by-valid_scheduleb"
            R.failures.append(("%s: schedule-invalid/%s" % (c["meta"]["env"], why),
                               dict(c["meta"]["replay"], row=c["meta"]["row"], observed=c["final"])))
        # cross-check of the two validators (a disagreement is a defect of the harness, not of rl4co)
        cross = [k for k, r in enumerate(res) if r[1] in (0, 6) and ((r[1] == 6) != (R.cases[k]["py_valid"] is not None))]
        if cross:
            ctx.broken.append("C07/fjsp: python validator and valid_scheduleb disagree on case %d" % cross[0])
    if ((not proofs_ok) or bad or res is None) and not guard.timed_out():
        extra = _search(ctx, R, bad, big)
        if res is not None and extra:
            res2 = _evaluate(ctx, R, extra, "cases_C07_fjsp_search")
            if res2 is not None:
                for c, r in zip(extra, res2):
                    if r[1] == 6:
                        why = c["py_valid"] or "rejected-by-valid_scheduleb"
                        R.failures.append(("%s: schedule-invalid/%s" % (c["meta"]["env"], why),
                                           dict(c["meta"]["replay"], row=c["meta"]["row"], observed=c["final"])))
        unit["search_cases"] = len(extra)
    # smallest replay per signature
    best = {}
    for sig, rep in R.failures:
        size = len(str(rep))
        if sig not in best or size < best[sig][0]:
            best[sig] = (size, rep)
    for sig, (_, rep) in sorted(best.items()):
        rep = dict(rep)
        rep["what"] = "the implementation's own episode violates C07 (valid schedule with the reported makespan / no crash on admitted actions)"
        ctx.failure(sig, rep, tag="fjsp")
    unit["failures"] = sorted(best)
    for c in R.cases[:2] + R.cases[-1:]:
        ctx.sample({"unit": "fjsp", "env": c["meta"]["env"], "mask_no_ops": c["mno"], "instance": R.insts[c["inst"]],
                    "actions": [s[0] for s in c["steps"]], "final": c["final"], "batch": c["meta"]["batch"]})
    unit["wall_s_generation_and_coq"] = round(time.time() - t0, 1)
    ctx.units["fjsp"] = unit
    if SCRATCH.exists():
        shutil.rmtree(SCRATCH, ignore_errors=True)


def replay(obj):
    """Re-runs a recorded batch on the current tree and prints what the env reports for the recorded row."""
    if obj.get("stepwise_reward"):
        return stepwise_replay(obj)
    import torch
    from tensordict import TensorDict
    from rl4co.envs.scheduling.fjsp.env import FJSPEnv
    from rl4co.envs.scheduling.jssp.env import JSSPEnv
    cls = {"FJSPEnv": FJSPEnv, "JSSPEnv": JSSPEnv}[obj["env"]]
    insts = obj["instances"]
    td0 = TensorDict({"start_op_per_job": torch.tensor([i["start"] for i in insts]),
                      "end_op_per_job": torch.tensor([i["end"] for i in insts]),
                      "proc_times": torch.tensor([i["proc"] for i in insts], dtype=torch.float32),
                      "pad_mask": torch.tensor([i["pad"] for i in insts])}, batch_size=[len(insts)])
    env = cls(generator_params={"num_jobs": len(insts[0]["start"]), "num_machines": len(insts[0]["proc"])},
              mask_no_ops=obj["mask_no_ops"], check_mask=True)
    kind = "jssp" if obj["env"] == "JSSPEnv" else "fjsp"
    k = 0
    try:
        td = guard.call(kind, "reset", env.reset, td0)
        for k, acts in enumerate(obj.get("actions", []), 1):
            td.set("action", torch.tensor(acts, dtype=torch.int64))
            td = guard.call(kind, "step", env.step, td)["next"]
    except guard.EnvTimeout as e:
        print("signature:", obj.get("signature"))
        print("HANG reproduced: %s (at step %d of the recorded actions)" % (e, k))
        return 1
    b = obj.get("row", 0)
    N, M = len(insts[b]["pad"]), len(insts[b]["proc"])
    f = None
    if bool(td["done"].all()):
        a = _ints(td["ma_assignment"][b])
        f = {"start": _ints(td["start_times"][b]), "finish": _ints(td["finish_times"][b]),
             "assign": [[bool(x) for x in a[m * N:(m + 1) * N]] for m in range(M)],
             "reward": _ints(env.get_reward(td, None)[b])[0]}
    print("signature:", obj.get("signature"))
    print("instance :", insts[b])
    print("observed now :", f)
    print("recorded     :", obj.get("observed"))
    why = py_validate(insts[b], f) if f is not None else "episode-not-finished"
    print("validator    :", why or "valid schedule")
    return 1 if why else 0
