"""C06, unit "improve" -- check_solution_validity of the improvement environments TSPkoptEnv and PDPRuinRepairEnv.

Both checkers look at td["rec_best"] only (an int64 successor array per row: rec[i] = node visited after node i):
  TSPkoptEnv        assert (arange(n) == rec_best.sort(1)[0]).all()                    -- "rec_best is a permutation of 0..n-1"
  PDPRuinRepairEnv  the same assert; then visited_time by the loop `pre = 0; for i in range(n): cur = rec[pre];
                    vt[cur] = i + 1; pre = cur`; assert (vt[1 : n//2+1] < vt[n//2+1 :]).all()
Neither walks the array to see that it is ONE cycle, and the PDP precedence test reads visited_time = 0 for every node the
walk from the depot never reaches.

Proof obligations : coq/theories/Properties/C06_improve.v (models tspk_checker / pdp_checker of Env/ImproveChecker.v against the
                    independent definitions is_tour / pdp_valid of Env/Improve.v, Env/ImprovePDP.v): completeness for all n,
                    "accepts <-> permutation", PDP soundness on single cycles, and the two REFUTED soundness statements.
Correspondence    : coq/theories/Harness/HC06_improve.v restates both models over int64 arrays (list Z), proves them equal to
                    the nat models on in-range arrays and false elsewhere, and `check_verdict` compares, for every call of the
                    REAL checker made here, (1) the real verdict (raises / returns) with the specification -- judged first:
                    14 = rejects a valid solution, 15 = accepts an invalid one -- and (2) with the model: 13 (+100) = differs.
Streams           : (a) real TensorDicts reached by real episodes (reset + env sampler moves) of TSPkoptEnv k_max 2/3/4 and
                    PDPRuinRepairEnv; (b) exhaustive small arrays: every function [n]->[n], n <= 5 (TSP) / n in {1,3,5}
                    (PDP), every permutation with one entry replaced by n / -1 for n <= 4 (thorough: all permutations of
                    n = 6, 7 as well); (c) valid tours of larger n and their single-fault corruptions (duplicate successor,
                    self-loop, two cycles, isolated node, out-of-range entries n / n+3 / -1 / 2^40, PDP delivery before
                    pickup in several positions), random permutations and random functions, and batches with one bad row.
Findings          : the two refuted witnesses are replayed on the real code on every run (dedicated experiments)."""
import itertools
import json
import time

from vt.common import coq_eval_shards

UNIT = "improve"
HEADER = ("From Coq Require Import List ZArith Bool.\n"
          "From RL4CO Require Import Harness.HC06_improve.\n"
          "Import ListNotations.\nOpen Scope Z_scope.\n")
KIND = {"tspkopt": 0, "pdp_rr": 1}
# Which model the code is compared with.  "current" = the checkers as they are in /repo (permutation test only: the refuted
# soundness statements are genuine findings).  "repaired" = Env/ImproveCheckerFix.v (walk from node 0 must reach every node),
# proved to accept exactly the valid solutions; switch to it in the same change that repairs /repo.
MODEL_OF_CODE = "repaired"   # /repo carries the fix: commits b35ddfb (TSPkopt) and 90f2aa9 (PDP ruin-repair) since 2026-10-01
CHECK_FN = {"current": "check_verdict", "repaired": "check_verdict_fix"}
SIG_MULTI = "%s: checker-accepts-multi-cycle-successor-array"
# the witnesses of C06_improve_tspkopt_checker_sound_refuted / C06_improve_pdprr_checker_sound_refuted
WITNESSES = [("tspkopt", [1, 0, 3, 2], "C06_improve_tspkopt_checker_sound_refuted"),
             ("pdp_rr", [3, 2, 1, 4, 0], "C06_improve_pdprr_checker_sound_refuted")]
WHAT = {
    "tspkopt": ("TSPkoptEnv.check_solution_validity only tests that rec_best is a permutation of 0..n-1: the successor array "
                "[1,0,3,2] (two 2-cycles; the walk from node 0 visits nodes 0 and 1 only) is accepted although it is not a tour "
                "(so is the identity array of n self-loops)"),
    "pdp_rr": ("PDPRuinRepairEnv.check_solution_validity tests permutation + visited_time precedence; nodes the walk from the depot "
               "never reaches keep visited_time 0: [3,2,1,4,0] (cycles (0 3 4)(1 2): both pickups are never visited) is accepted"),
}
BIG = 2 ** 40


# ------------------------------------------------------------------------------------------------ python specification
def classify(env, rec):
    """None when `rec` is a solution by the problem definition, else the kind of fault (independent of the Coq spec)"""
    n = len(rec)
    if any((not isinstance(v, int)) or v < 0 or v >= n for v in rec):
        return "out-of-range-entry"
    if len(set(rec)) != n:
        return "duplicate-successor"
    order, c = [0], rec[0]
    while c != 0:
        order.append(c)
        c = rec[c]
    if len(order) != n:
        return "multi-cycle-successor-array"
    if env == "pdp_rr":
        pos = {v: i for i, v in enumerate(order)}
        h = n // 2
        if any(pos[j] > pos[j + h] for j in range(1, h + 1)):
            return "delivery-before-pickup"
    return None


def succ_of_order(order):
    rec = [0] * len(order)
    for i, v in enumerate(order):
        rec[v] = order[(i + 1) % len(order)]
    return rec


def random_order(rng, env, n):
    """visiting order of a valid solution, starting at node 0"""
    rest = list(range(1, n))
    rng.shuffle(rest)
    if env == "pdp_rr":
        h = n // 2
        pos = {v: i for i, v in enumerate(rest)}
        for j in range(1, h + 1):
            if pos[j] > pos[j + h]:
                a, b = pos[j], pos[j + h]
                rest[a], rest[b] = rest[b], rest[a]
                pos[j], pos[j + h] = b, a
    return [0] + rest


# ------------------------------------------------------------------------------------------------ the real checkers
class Real:
    def __init__(self, torch):
        self.torch = torch
        self.cache = {}
        self.calls = 0
        self.exc_kinds = {}

    def env(self, name, n, k=2, init="random"):
        from rl4co.envs.routing.pdp.env import PDPRuinRepairEnv
        from rl4co.envs.routing.tsp.env import TSPkoptEnv
        key = (name, n, k, init)
        if key not in self.cache:
            if name == "pdp_rr":
                self.cache[key] = PDPRuinRepairEnv(generator_params=dict(num_loc=n - 1, init_sol_type=init))
            else:
                self.cache[key] = TSPkoptEnv(generator_params=dict(num_loc=max(n, 1), init_sol_type=init), k_max=k)
        return self.cache[key]

    def verdict(self, name, rows, td=None, env=None):
        """(returned-without-raising, exception text) of the real check_solution_validity"""
        from tensordict import TensorDict
        torch = self.torch
        if env is None:
            env = self.env(name, len(rows[0]))
        if td is None:
            td = TensorDict({"rec_best": torch.tensor(rows, dtype=torch.int64)}, batch_size=[len(rows)])
        self.calls += 1
        try:
            env.check_solution_validity(td, None)
            return True, None
        except AssertionError as e:
            self.exc_kinds["AssertionError"] = self.exc_kinds.get("AssertionError", 0) + 1
            return False, "AssertionError: %s" % str(e)[:120]
        except Exception as e:      # raising is raising; the type is recorded
            t = type(e).__name__
            self.exc_kinds[t] = self.exc_kinds.get(t, 0) + 1
            return False, "%s: %s" % (t, str(e)[:200])


def mk_case(real, env, rows, src, td=None, envobj=None):
    acc, exc = real.verdict(env, rows, td=td, env=envobj)
    return {"env": env, "rows": [list(map(int, r)) for r in rows], "src": src, "accepted": acc, "exc": exc}


# ------------------------------------------------------------------------------------------------ streams
def stream_episodes(torch, rng, real, thorough):
    """(a) states of real episodes: the real td goes to the real checker after reset and after every move"""
    cases, crashes = [], []
    plan = [("tspkopt", 2, 5, 3, "random"), ("tspkopt", 2, 8, 1, "greedy"), ("tspkopt", 2, 20, 4, "random"),
            ("tspkopt", 3, 6, 3, "random"), ("tspkopt", 3, 12, 1, "random"), ("tspkopt", 4, 9, 4, "greedy"),
            ("pdp_rr", 2, 5, 3, "random"), ("pdp_rr", 2, 7, 1, "random"), ("pdp_rr", 2, 11, 4, "greedy"), ("pdp_rr", 2, 21, 3, "random")]
    if thorough:
        plan += [("tspkopt", 2, 50, 6, "random"), ("tspkopt", 3, 30, 5, "greedy"), ("tspkopt", 4, 20, 6, "random"), ("tspkopt", 5, 15, 4, "random"),
                 ("pdp_rr", 2, 3, 4, "random"), ("pdp_rr", 2, 31, 6, "random"), ("pdp_rr", 2, 51, 4, "greedy")] + plan
    T = 14 if thorough else 7
    for name, k, n, B, init in plan:
        env = real.env(name, n, k, init)
        try:
            td = env.reset(batch_size=[B])
            seen = set()
            for t in range(T + 1):
                if t > 0:
                    a = env._random_action(td)
                    td.set("action", (a if a is not None else td["action"]).clone())
                    td = env.step(td)["next"]
                rows = td["rec_best"].tolist()
                key = json.dumps(rows)
                c = mk_case(real, name, rows, "episode/k=%d/%s/step%d" % (k, init, t), td=td, envobj=env)
                if key not in seen:
                    seen.add(key)
                    cases.append(c)
                elif not c["accepted"]:
                    cases.append(c)
                # rec_current is a solution of the same kind: it goes through the same checker as a synthetic td
                if t > 0 and t % 3 == 0:
                    cases.append(mk_case(real, name, td["rec_current"].tolist(), "episode-current/k=%d/%s/step%d" % (k, init, t)))
        except Exception as e:
            crashes.append({"env": name, "k_max": k, "n": n, "B": B, "error": "%s: %s" % (type(e).__name__, str(e)[:200])})
    return cases, crashes


def stream_exhaustive(real, thorough):
    """(b) every function [n] -> [n] for small n; every permutation with one out-of-range entry"""
    cases = []
    for env, ns in (("tspkopt", [1, 2, 3, 4, 5]), ("pdp_rr", [1, 3, 5])):
        for n in ns:
            for f in itertools.product(range(n), repeat=n):
                cases.append(mk_case(real, env, [list(f)], "all-functions/n=%d" % n))
        for n in [x for x in ns if x <= 4]:
            for p in itertools.permutations(range(n)):
                for i in range(n):
                    for bad in (n, -1):
                        q = list(p)
                        q[i] = bad
                        cases.append(mk_case(real, env, [q], "perm-with-out-of-range/n=%d" % n))
        if thorough:
            for n in ([6, 7] if env == "tspkopt" else [7]):
                for p in itertools.permutations(range(n)):
                    cases.append(mk_case(real, env, [list(p)], "all-permutations/n=%d" % n))
    return cases


def corruptions(rng, env, order):
    """single-fault corruptions (name, array) of the valid tour given by its visiting order"""
    n = len(order)
    rec = succ_of_order(order)
    out = []

    def put(name, arr):
        out.append((name, list(arr)))

    i, j = rng.sample(range(n), 2)
    r = list(rec); r[i] = rec[j]; put("duplicate-successor", r)
    r = list(rec); r[i] = i; put("self-loop", r)
    r = list(rec); r[i], r[j] = r[j], r[i]; put("two-cycles(swap of two successors)", r)
    r = list(rec); a = rng.randrange(n); b = rec[a]; r[a], r[b] = r[b], r[a]; put("isolated-node(swap with own successor)", r)
    r = list(rec); r[0], r[rec[0]] = r[rec[0]], r[0]; put("isolated-first-visited-node", r)
    for bad in (n, n + 3, -1, BIG):
        r = list(rec); r[rng.randrange(n)] = bad; put("out-of-range(%s)" % ("n" if bad == n else "n+3" if bad == n + 3 else bad if bad < 0 else "2^40"), r)
    put("inverse-tour", succ_of_order([order[0]] + order[:0:-1]))
    put("rotated-labels", [(v + 1) % n for v in rec[-1:] + rec[:-1]])
    if env == "pdp_rr" and n >= 3:
        h = n // 2
        pos = {v: t for t, v in enumerate(order)}
        j = rng.randrange(1, h + 1)
        o = list(order); o[pos[j]], o[pos[j + h]] = o[pos[j + h]], o[pos[j]]; put("pdp: pair swapped (delivery before its pickup)", succ_of_order(o))
        # the pair adjacent, in both orders (margin of the strict comparison is exactly one visit)
        o = [v for v in order if v not in (j, j + h)]
        t = rng.randrange(1, len(o) + 1)
        put("pdp: pickup immediately before its delivery", succ_of_order(o[:t] + [j, j + h] + o[t:]))
        put("pdp: delivery immediately before its pickup", succ_of_order(o[:t] + [j + h, j] + o[t:]))
        put("pdp: delivery first, its pickup last", succ_of_order([0, j + h] + o[1:] + [j]))
        put("pdp: pickup first, its delivery last", succ_of_order([0, j] + o[1:] + [j + h]))
        put("pdp: all pickups then all deliveries", succ_of_order([0] + list(range(1, 2 * h + 1))))
        put("pdp: all deliveries then all pickups", succ_of_order([0] + list(range(h + 1, 2 * h + 1)) + list(range(1, h + 1))))
        if h >= 2:
            j2 = j % h + 1
            o = list(order); o[pos[j + h]], o[pos[j2 + h]] = o[pos[j2 + h]], o[pos[j + h]]; put("pdp: two deliveries exchanged", succ_of_order(o))
    p = list(range(n)); rng.shuffle(p); put("random-permutation", p)
    put("random-function", [rng.randrange(n) for _ in range(n)])
    return out


def stream_faults(rng, real, thorough):
    """(c) valid tours of larger n, their single-fault corruptions, and batches with one bad row"""
    cases = []
    sizes = {"tspkopt": [6, 7, 8, 10, 13, 20, 50], "pdp_rr": [7, 9, 11, 13, 21, 51]}
    if thorough:
        sizes = {"tspkopt": sizes["tspkopt"] + [9, 16, 33, 64, 100], "pdp_rr": sizes["pdp_rr"] + [15, 33, 65, 101]}
    V = 12 if thorough else 5
    for env, ns in sizes.items():
        for n in ns:
            valid = []
            for _ in range(V):
                order = random_order(rng, env, n)
                valid.append(succ_of_order(order))
                cases.append(mk_case(real, env, [valid[-1]], "valid-tour/n=%d" % n))
                for name, arr in corruptions(rng, env, order):
                    cases.append(mk_case(real, env, [arr], "fault:%s" % name))
            # batches: all rows valid; one corrupted row in first / middle / last position
            cases.append(mk_case(real, env, valid, "batch/all-valid"))
            for where in (0, len(valid) // 2, len(valid) - 1):
                name, arr = rng.choice(corruptions(rng, env, random_order(rng, env, n)))
                rows = [list(r) for r in valid]
                rows[where] = arr
                cases.append(mk_case(real, env, rows, "batch/row%d:%s" % (where, name)))
    return cases


def stream_witnesses(real):
    return [dict(mk_case(real, env, [rec], "witness:%s" % thm), theorem=thm) for env, rec, thm in WITNESSES]


# ------------------------------------------------------------------------------------------------ judging
def case_lit(c):
    rows = "[" + "; ".join("[" + "; ".join(str(int(v)) for v in r) + "]" for r in c["rows"]) + "]"
    return "(%d%%nat, %s, %s)" % (KIND[c["env"]], rows, "true" if c["accepted"] else "false")


def py_code(c):
    """the specification part of the verdict code, from the python specification"""
    faults = [classify(c["env"], r) for r in c["rows"]]
    spec = all(f is None for f in faults)
    if c["accepted"] and not spec:
        return 15, faults
    if (not c["accepted"]) and spec:
        return 14, faults
    return 0, faults


def signature(c, code, faults, differs):
    if code == 14:
        return "%s: checker-rejects-valid-tour" % c["env"]
    fault = next(f for f in faults if f is not None)
    sig = "%s: checker-accepts-%s" % (c["env"], fault)
    if fault == "multi-cycle-successor-array" and differs:
        sig += "(rejected-by-the-model)"      # not the recorded mechanism: the faithful model does not accept this one
    return sig


def replay_of(c, code, faults):
    n = len(c["rows"][0])
    return {"unit": UNIT, "kind": "checker", "env": c["env"], "rec_best": c["rows"], "source": c["src"],
            "call": "%s.check_solution_validity(TensorDict({'rec_best': tensor(rec_best, int64)}, batch_size=[%d]), None)" % (
                "TSPkoptEnv(generator_params={'num_loc': %d})" % n if c["env"] == "tspkopt"
                else "PDPRuinRepairEnv(generator_params={'num_loc': %d})" % (n - 1), len(c["rows"])),
            "observed": "returns (accepted)" if c["accepted"] else "raises %s" % c["exc"],
            "expected": "raises: row(s) %s not a solution" % {i: f for i, f in enumerate(faults) if f} if code == 15
            else "returns: every row is a single cycle through all nodes%s" % (" with each pickup before its delivery" if c["env"] == "pdp_rr" else ""),
            "what": WHAT[c["env"]] if code == 15 and "multi-cycle-successor-array" in faults else
            ("check_solution_validity accepts an invalid solution" if code == 15 else "check_solution_validity rejects a valid solution")}


def size_key(c):
    return (len(c["rows"]), len(c["rows"][0]), c["rows"])


def run_unit(ctx, proofs_ok):
    import torch

    t0 = time.time()
    rng = ctx.rng
    torch.manual_seed(rng.randrange(2 ** 31))
    torch.set_num_threads(2)
    thorough = ctx.tier == "thorough"
    real = Real(torch)
    unit = {"theorems": "Properties/C06_improve.v", "harness": "Harness/HC06_improve.v (%s)" % CHECK_FN[MODEL_OF_CODE], "model_of_code": MODEL_OF_CODE,
            "observable": "TSPkoptEnv / PDPRuinRepairEnv .check_solution_validity(td, None) returning vs raising"}
    ctx.rule += (" [improve] TSPkoptEnv / PDPRuinRepairEnv checkers (they read td['rec_best']): (a) real tds of real episodes (reset + 7 "
                 "(thorough 14) env-sampler moves; k_max 2/3/4(/5), n 5..21 (thorough ..51), batch 1..6, init random/greedy), (b) every "
                 "function [n]->[n] for n<=5 (PDP n in {1,3,5}), every permutation of n<=4 with one entry set to n / -1 (thorough: all "
                 "permutations of n=6,7), (c) 5 (thorough 12) random valid tours per size n in {6..50} / PDP {7..51} (thorough ..100/101) "
                 "each with ~13 (PDP ~21) single-fault corruptions (duplicate successor, self-loop, two cycles, isolated node, entries "
                 "n / n+3 / -1 / 2^40, inverse tour, PDP: pair swapped / adjacent both ways / first-last / deliveries first, random "
                 "permutation, random function) and batches with one corrupted row first / middle / last; non-trivial = n >= 2")
    ctx.assumptions += [
        "improve: per-row models; the code's assert is over the whole batch, modelled as 'returns iff every row passes' (checked on mixed batches)",
        "improve: PDPRuinRepairEnv arrays have odd length 2h+1 (depot + h pairs; the generator forces an even num_loc); even lengths are outside the model (for n = 6 the code's comparison raises a shape error)",
        "improve: 'raises' = any exception; the exception types seen are recorded (AssertionError on every rejected case of the unchanged tree)",
        "improve: soundness of both checkers is REFUTED for arrays consisting of several cycles (C06_improve_*_sound_refuted); what is proved is completeness, 'accepts <-> permutation' (TSPkopt) and soundness on single cycles (PDP)",
    ]

    # ---- real runs
    wit = stream_witnesses(real)
    epi, crashes = stream_episodes(torch, rng, real, thorough)
    exh = stream_exhaustive(real, thorough)
    flt = stream_faults(rng, real, thorough)
    cases = wit + epi + exh + flt
    unit["real_calls"] = real.calls
    unit["python_s"] = round(time.time() - t0, 1)
    for cr in crashes:
        ctx.broken.append("correspondence C06/improve: episode of the real environment raised: %s" % json.dumps(cr))

    # ---- the model and the specification, in Coq
    t1 = time.time()
    codes = None
    try:
        # 4 shards, cases dealt round-robin so that the large arrays (generated last) are spread over all of them
        S = 4
        deal = sorted(range(len(cases)), key=lambda i: i % S)
        out = coq_eval_shards("cases_C06_improve", HEADER, "chk_case", CHECK_FN[MODEL_OF_CODE], [case_lit(cases[i]) for i in deal],
                              shard=-(-len(cases) // S))
        codes = [0] * len(cases)
        for i, code in zip(deal, out):
            codes[i] = code
    except RuntimeError as e:
        ctx.broken.append("correspondence C06/improve: model could not be evaluated in Coq: %s" % str(e)[-600:])
    unit["coq_s"] = round(time.time() - t1, 1)

    fails, differ, incons, illformed = [], [], [], []
    stats = {}
    for idx, c in enumerate(cases):
        pc, faults = py_code(c)
        code = codes[idx] if codes is not None else pc
        if code == 12:
            illformed.append(c)
            continue
        spec_code = code % 100 if code % 100 in (14, 15) else 0
        differs = codes is not None and (code >= 100 or code == 13)
        if spec_code != pc:
            incons.append((c, code, pc))
        n = len(c["rows"][0])
        fault = next((f for f in faults if f is not None), None)
        key = "%s/%s/%s" % (c["env"], "valid" if fault is None else "invalid:" + fault, "accepted" if c["accepted"] else "rejected")
        stats[key] = stats.get(key, 0) + 1
        ctx.count("improve/%s/%s" % (c["env"], c["src"].split("/")[0].split(":")[0]))
        ctx.seen({"unit": UNIT, "env": c["env"], "rows": c["rows"]}, nontrivial=n >= 2)
        if spec_code or pc:
            fails.append((c, spec_code or pc, faults, differs))
        if differs:
            differ.append((c, code))
    unit["cases"] = len(cases)
    unit["by_stream"] = {"witnesses": len(wit), "episode_states": len(epi), "exhaustive_small": len(exh), "tours_and_single_faults": len(flt)}
    unit["verdicts"] = dict(sorted(stats.items()))
    unit["exception_types_of_rejections"] = dict(real.exc_kinds)
    unit["model_differs_from_implementation"] = len(differ)
    unit["checker_disagrees_with_specification"] = len(fails)

    for c in illformed[:1]:
        ctx.broken.append("harness C06/improve: ill-formed case generated (%s, rows %s)" % (c["src"], c["rows"]))
    for c, code, pc in incons[:1]:
        ctx.broken.append("harness C06/improve: the Coq specification (code %d) and the python specification (code %d) disagree on %s %s" % (
            code, pc, c["env"], c["rows"]))

    # ---- findings: dedicated witnesses first (stable replays), then everything else, smallest input first
    done = set()
    reported = report(ctx, [f for f in fails if f[0]["src"].startswith("witness:")], done)
    reported += report(ctx, sorted([f for f in fails if not f[0]["src"].startswith("witness:")], key=lambda f: size_key(f[0])), done)
    unit["signatures_reported"] = sorted(done)
    unit["witnesses_on_the_real_code"] = [{"env": c["env"], "rec_best": c["rows"][0], "theorem": c["theorem"],
                                           "accepted_by_the_real_checker": c["accepted"], "fault": classify(c["env"], c["rows"][0])} for c in wit]
    for c in wit:
        if not c["accepted"]:      # the code no longer does what the refuted theorem says the model does
            ctx.notes.append("improve: the real %s checker now rejects the witness %s of %s" % (c["env"], c["rows"][0], c["theorem"]))

    if differ:
        differ.sort(key=lambda d: size_key(d[0]))
        c, code = differ[0]
        pc, faults = py_code(c)
        path = ctx.write_replay(dict(replay_of(c, pc, faults), property=ctx.pid, code=code,
                                     what="model/implementation disagreement: the Coq model of the checker says %s" % (
                                         "raises" if c["accepted"] else "returns")), tag="improve-disagree")
        ctx.broken.append("correspondence C06/improve: model verdict differs from the real %s checker on %d of %d cases; smallest: rec_best=%s real=%s (%s)" % (
            c["env"], len(differ), len(cases), c["rows"], "returns" if c["accepted"] else "raises", path))
        ctx.extra.setdefault("first_disagreements", []).append({"unit": UNIT, "env": c["env"], "rec_best": c["rows"], "code": code,
                                                                "real": "returns" if c["accepted"] else "raises", "source": c["src"]})

    # ---- search: model or proof broken and nothing concrete (beyond the two recorded mechanisms) yet -> larger sample
    #      through the python specification
    if (differ or codes is None or not proofs_ok or crashes) and not reported:
        t2 = time.time()
        more = stream_faults(rng, real, True) + (stream_exhaustive(real, True) if not thorough else []) + stream_episodes(torch, rng, real, True)[0]
        sf = []
        for c in more:
            pc, faults = py_code(c)
            ctx.seen({"unit": UNIT, "env": c["env"], "rows": c["rows"], "search": True}, nontrivial=len(c["rows"][0]) >= 2)
            if pc:
                sf.append((c, pc, faults, True))
        report(ctx, sorted(sf, key=lambda f: size_key(f[0])), done)
        unit["search"] = {"cases": len(more), "failing": len(sf), "wall_s": round(time.time() - t2, 1)}

    for c in (wit + epi[:1] + flt[:2]):
        ctx.sample({"unit": UNIT, "env": c["env"], "rec_best": c["rows"], "source": c["src"],
                    "real": "returns" if c["accepted"] else "raises", "faults": [classify(c["env"], r) for r in c["rows"]]}, cap=12)
    unit["not_tested_by_the_code"] = ("single cycle (neither checker walks the whole array); PDP precedence for nodes the walk from the depot does not reach "
                                      "(their visited_time stays 0, which passes for a pickup and fails for a delivery)")
    unit["wall_s_unit"] = round(time.time() - t0, 1)
    ctx.units[UNIT] = unit


def report(ctx, fails, done):
    """one ctx.failure per signature (the first = smallest input); returns how many signatures other than the two recorded
    multi-cycle mechanisms were reported"""
    new = 0
    for c, code, faults, differs in fails:
        sig = signature(c, code, faults, differs)
        if sig in done:
            continue
        done.add(sig)
        rep = replay_of(c, code, faults)
        if c.get("theorem"):
            rep["coq"] = c["theorem"]
        ctx.failure(sig, rep, tag=UNIT)
        if sig not in (SIG_MULTI % "tspkopt", SIG_MULTI % "pdp_rr"):
            new += 1
    return new


# ------------------------------------------------------------------------------------------------ ./check --replay
def replay(obj):
    import torch
    real = Real(torch)
    rows = obj["rec_best"]
    env = obj["env"]
    acc, exc = real.verdict(env, rows)
    faults = [classify(env, [int(v) for v in r]) for r in rows]
    spec = all(f is None for f in faults)
    print("signature:", obj.get("signature"))
    print("call     :", obj.get("call"))
    print("rec_best :", rows)
    print("by the problem definition:", "every row is a valid solution" if spec else "invalid rows %s" % {i: f for i, f in enumerate(faults) if f})
    print("recorded :", obj.get("observed"))
    print("observed :", "returns (accepted)" if acc else "raises %s" % exc)
    bad = acc != spec
    print("still fails" if bad else "no longer fails")
    return 1 if bad else 0
