"""C18, unit graph -- MCP / FLP generators (Properties/C18_graph.v; model Data/GenGraph.v; harness Harness/HC18_graph.v).

(b) model vs code, exact: MCPGenerator._generate is run with fixed size / weight samplers (documented `size_sampler=`,
    `weight_sampler=` kwargs) and torch.randint patched to return chosen membership draws (many repeats on purpose); the
    Gallina post-processing (floor + clamp, cut-off mask, remove_repeat with the sorting permutation torch returns for
    the same row) must reproduce membership and weights exactly.
(a) property on the implementation: mcp_wfb / flp_wfb (the C08 hypotheses), quota <= selectable items, items of a set
    pairwise distinct with zero padding, weights / distances in range -- evaluated in Coq on instances of the unmodified
    generators.  Small configurations are tried too (the generator is documented for any num_sets)."""
import time

from vt.c18_util import bulk, FixedSampler, coq_cases, ensure_dirs, natmat, patched, queue_fn, quiet_logs, run_jobs, zlist, zs_floor, zzmat, fr
from vt.common import cq, cz

HEADER = ("From Coq Require Import List ZArith QArith.\nFrom RL4CO Require Import Harness.HC18_graph.\n"
          "Import ListNotations.\nOpen Scope Q_scope.\n")

SIG = {
    "mcp": "mcp: generated instance outside the environment's format / repeated items in a set / weights out of range / quota above number of sets",
    "mcp_crash": "mcp: MCPGenerator raises (shape mismatch) when no set in the batch reaches max_size",
    "mcp_base": "mcp: raw membership draws are not item ids in 1..num_items (0 is the padding code: such a draw silently drops the item)",
    "flp": "flp: generated instance outside the environment's format / quota above number of locations",
}


def run_unit(ctx, proofs_ok):
    import torch
    torch.set_num_threads(2)
    quiet_logs()
    ensure_dirs('graph')
    from rl4co.envs.graph.flp.generator import FLPGenerator
    from rl4co.envs.graph.mcp.generator import MCPGenerator
    rng = ctx.rng
    thorough = ctx.tier == "thorough"
    t0 = time.time()
    jobs = []

    def seed():
        s = rng.randrange(2 ** 31)
        torch.manual_seed(s)
        return s

    # ------------------------------------------------------------------ (b) MCP on chosen draws
    cases, metas = [], []
    for (n_items, n_sets, mins, maxs, minw, maxw) in [(6, 3, 1, 4, 1, 10), (10, 5, 2, 6, 1, 3), (4, 4, 3, 3, 2, 2), (30, 8, 5, 15, 1, 10), (3, 2, 1, 5, 1, 10)]:
        for rep in range(4 if thorough else 2):
            B = 3
            q = rng.randint(1, n_sets)
            su = [[rng.choice([float(rng.randint(mins - 1, maxs + 2)), rng.randint(mins * 4, (maxs + 1) * 4) / 4.0]) for _ in range(n_sets)] for _ in range(B)]
            if rep % 2 == 0:     # no set of the batch reaches max_size (the configuration that crashed before repo commit 78ab0ce)
                su = [[min(x, maxs - 0.5) if maxs > mins else x for x in row] for row in su]
            wu = [[rng.choice([float(rng.randint(minw - 1, maxw + 2)), rng.randint(minw * 4, (maxw + 1) * 4) / 4.0]) for _ in range(n_items)] for _ in range(B)]
            raw = [[[rng.randint(1, n_items) for _ in range(maxs)] for _ in range(n_sets)] for _ in range(B)]
            su_t, wu_t, raw_t = torch.tensor(su, dtype=torch.float32), torch.tensor(wu, dtype=torch.float32), torch.tensor(raw)
            g = MCPGenerator(num_items=n_items, num_sets=n_sets, min_weight=minw, max_weight=maxw, min_size=mins, max_size=maxs,
                             n_sets_to_choose=q, size_sampler=FixedSampler(su_t), weight_sampler=FixedSampler(wu_t))
            log = []
            try:
                with patched(torch, "randint", queue_fn([raw_t], log)):
                    td = g([B])
                if log and (tuple(log[0][0][:2]) != (1, n_items + 1) or tuple(log[0][0][2]) != (B, n_sets, maxs)):
                    ctx.broken.append("correspondence C18/graph/mcp: membership is drawn by randint%s, the theorem assumes randint(1, num_items + 1)" % (log[0][0][:2],))
            except Exception as e:
                ctx.broken.append("correspondence C18/graph/mcp: generator raised on in-range draws: %r" % (e,))
                if isinstance(e, RuntimeError):
                    ctx.failure(SIG["mcp_crash"], {"unit": "graph", "gen": "mcp", "kind": "crash_chosen_draws", "params": [n_items, n_sets, mins, maxs, minw, maxw, q],
                                                   "size_draws": su, "expected": "a TensorDict with membership [B, num_sets, max_size]", "observed": repr(e)[:300]}, tag="mcp")
                continue
            sizes = torch.clamp(torch.floor(su_t).long(), mins, maxs)
            cut = raw_t * (torch.arange(maxs).view(1, 1, -1) < sizes.unsqueeze(-1))
            perms = cut.sort(dim=-1)[1]
            for b in range(B):
                omem = [[int(x) for x in r] for r in td["membership"][b].tolist()]
                ow = [int(x) for x in td["weights"][b].tolist()]
                cases.append("(%d%%nat, %s, %s, %s, %s, [%s], [%s], %s, %s, %s, %s, %s)" % (
                    n_items, cz(minw), cz(maxw), cz(mins), cz(maxs), "; ".join(cq(fr(x)) for x in wu[b]), "; ".join(cq(fr(x)) for x in su[b]),
                    zzmat(raw[b]), natmat(perms[b].tolist()), cz(q), zzmat(omem), zlist(ow)))
                metas.append({"unit": "graph", "gen": "mcp", "kind": "model_vs_code", "params": [n_items, n_sets, mins, maxs, minw, maxw, q],
                              "size_draws": su[b], "weight_draws": wu[b], "raw_membership": raw[b], "observed_membership": omem, "observed_weights": ow})
                ctx.seen({"mcp_b": [su[b], wu[b], raw[b]]}, nontrivial=n_sets >= 2)
                ctx.count("mcp_model_vs_code_rows")
    if metas:
        ctx.sample({k: metas[0][k] for k in ("gen", "kind", "params", "size_draws", "raw_membership", "observed_membership")})
    jobs.append(("mcp", "nat * Z * Z * Z * Z * list Q * list Q * list (list Z) * list (list nat) * Z * list (list Z) * list Z", "check_mcp", cases, metas, "mcp"))

    # ------------------------------------------------------------------ (a) MCP, unmodified generator (incl. small configurations)
    cases, metas = [], []
    confs = [dict(), dict(num_items=50, num_sets=40, n_sets_to_choose=5), dict(num_items=20, num_sets=30, min_size=2, max_size=4, n_sets_to_choose=30),
             dict(num_items=12, num_sets=3, n_sets_to_choose=2), dict(num_items=20, num_sets=2, n_sets_to_choose=1), dict(num_items=8, num_sets=6, min_size=1, max_size=8, n_sets_to_choose=3)]
    crashes = 0
    plan = [(kw, 4 if thorough else 2) for kw in confs for rep in range(8 if thorough else 2)]
    if thorough:      # bulk: 10^4 small rows (batches in which often no set reaches max_size)
        plan += [(dict(num_items=12, num_sets=4, min_size=1, max_size=4, n_sets_to_choose=2), 1000)] * bulk(6) + \
                [(dict(num_items=9, num_sets=3, min_size=2, max_size=5, n_sets_to_choose=3), 1000)] * bulk(4)
    for (kw, B) in plan:
        if True:
            s = seed()
            g = MCPGenerator(**kw)
            draws = []
            real_randint = torch.randint

            def rec_randint(*a, **k):
                t = real_randint(*a, **k)
                draws.append(t)
                return t
            try:
                with patched(torch, "randint", rec_randint):
                    td = g([B])
                if draws and (int(draws[0].min()) < 1 or int(draws[0].max()) > g.num_items):
                    ctx.failure(SIG["mcp_base"], {"unit": "graph", "gen": "mcp", "kind": "raw_draws", "kwargs": kw, "torch_seed": s, "batch": B,
                                                  "observed_min_max_raw_item_id": [int(draws[0].min()), int(draws[0].max())],
                                                  "expected": "1 <= id <= num_items = %d" % g.num_items}, tag="mcp")
            except RuntimeError as e:
                crashes += 1
                ctx.failure(SIG["mcp_crash"], {"unit": "graph", "gen": "mcp", "kind": "crash", "kwargs": kw, "torch_seed": s, "batch": B,
                                               "expected": "a TensorDict with membership [B, num_sets, max_size]", "observed": repr(e)[:300]}, tag="mcp")
                ctx.seen({"mcp_crash": [s, kw]}, nontrivial=True)
                continue
            ok_shape = (tuple(td["membership"].shape) == (B, g.num_sets, g.max_size) and tuple(td["weights"].shape) == (B, g.num_items)
                        and tuple(td["n_sets_to_choose"].shape) == (B, 1))
            if not ok_shape:
                ctx.failure(SIG["mcp"], {"unit": "graph", "gen": "mcp", "kind": "generated", "kwargs": kw, "torch_seed": s, "batch": B,
                                         "shapes": {k: list(v.shape) for k, v in td.items()}, "what": "documented shapes"}, tag="mcp")
                continue
            for b in range(B):
                mem = [[int(x) for x in r] for r in td["membership"][b].tolist()]
                w = [int(x) for x in td["weights"][b].tolist()]
                cases.append("(%d%%nat, %s, %s, %s, %s, %s, %s, %s)" % (g.num_items, cz(g.min_weight), cz(g.max_weight), cz(g.min_size), cz(g.max_size),
                                                                       cz(int(td["n_sets_to_choose"][b, 0])), zzmat(mem), zlist(w)))
                metas.append({"unit": "graph", "gen": "mcp", "kind": "generated", "kwargs": kw, "torch_seed": s, "batch": B, "row": b})
                ctx.seen({"mcp_a": [s, b, kw]}, nontrivial=True)
                ctx.count("mcp_generated_rows")
    ctx.count("mcp_generator_crashes", crashes)
    jobs.append(("mcp_prop", "nat * Z * Z * Z * Z * Z * list (list Z) * list Z", "check_mcp_prop", cases, metas, "mcp"))

    # ------------------------------------------------------------------ (a) FLP
    cases, metas = [], []
    fplan = [(kw, 2) for kw in [dict(num_loc=5, to_choose=2), dict(num_loc=12, to_choose=12), dict(num_loc=25, to_choose=3)] + ([dict()] if thorough else [dict(num_loc=40, to_choose=10)])]
    if thorough:
        fplan += [(dict(num_loc=5, to_choose=2), 1000)] * bulk(6) + [(dict(num_loc=4, to_choose=4), 1000)] * bulk(4)
    for (kw, B) in fplan:
        s = seed()
        g = FLPGenerator(**kw)
        td = g([B])
        n = g.num_loc
        ok_shape = (tuple(td["locs"].shape) == (B, n, 2) and tuple(td["orig_distances"].shape) == (B, n, n) and tuple(td["distances"].shape) == (B, n)
                    and tuple(td["chosen"].shape) == (B, n) and not bool(td["chosen"].any()) and float(td["locs"].min()) >= 0 and float(td["locs"].max()) <= 1)
        if not ok_shape:
            ctx.failure(SIG["flp"], {"unit": "graph", "gen": "flp", "kind": "generated", "kwargs": kw, "torch_seed": s, "batch": B,
                                     "shapes": {k: list(v.shape) for k, v in td.items()}, "what": "documented shapes / chosen initially empty / coordinates"}, tag="flp")
            continue
        for b in range(B):
            D = [[zs_floor(x, 30) for x in r] for r in td["orig_distances"][b].tolist()]
            d0 = [zs_floor(x, 30) for x in td["distances"][b].tolist()]
            cases.append("(%d%%nat, %s, %s, %s)" % (n, zzmat(D), zlist(d0), cz(int(td["to_choose"][b]))))
            metas.append({"unit": "graph", "gen": "flp", "kind": "generated", "kwargs": kw, "torch_seed": s, "batch": B, "row": b, "to_choose": int(td["to_choose"][b])})
            ctx.seen({"flp_a": [s, b, kw]}, nontrivial=True)
            ctx.count("flp_generated_rows")
    jobs.append(("flp_prop", "nat * list (list Z) * list Z * Z", "check_flp_prop", cases, metas, "flp"))

    # ------------------------------------------------------------------ evaluate
    t1 = time.time()
    res = run_jobs(ctx, "graph", HEADER, [(l, t, f, c, m) for (l, t, f, c, m, sg) in jobs], cap=700 if thorough else 60)
    results = [(ms, res.get(label)) for (label, _, _, cs, ms, sg) in jobs]
    stats = {}
    for (label, _, _, cs, _, sig), (ms, codes) in zip(jobs, results):
        st = {"cases": len(cs)}
        if codes is not None:
            st["nonzero"] = sum(1 for c in codes if c != 0)
            first = True
            for m, c in zip(ms, codes):
                if c == 1:
                    if first:
                        first = False
                        ctx.broken.append("correspondence C18/graph/%s: model and generator differ on %s" % (label, m))
                        # search: the property on what the generator produced for these draws
                        p = m["params"]
                        pc = ["(%d%%nat, %s, %s, %s, %s, %s, %s, %s)" % (p[0], cz(p[4]), cz(p[5]), cz(p[2]), cz(p[3]), cz(p[6]),
                                                                        zzmat(mm["observed_membership"]), zlist(mm["observed_weights"])) for mm in ms]
                        pcodes = coq_cases(ctx, "graph_mcp_search", HEADER, "nat * Z * Z * Z * Z * Z * list (list Z) * list Z", "check_mcp_prop", pc, ms)
                        for mm, cc in zip(ms, pcodes or []):
                            if cc != 0:
                                ctx.failure(SIG["mcp"], dict(mm, code=cc, what="property false on the instance produced for these chosen draws"), tag="mcp")
                elif c != 0:
                    ctx.failure(SIG[sig], dict(m, code=c, what={12: "outside the environment's input format", 6: "quota / distinct items / range predicate false"}.get(c, "")), tag=sig)
        stats[label] = st
    ctx.units["graph"] = {"checks": stats, "python_s": round(t1 - t0, 1), "coq_s": round(time.time() - t1, 1), "mcp_generator_crashes": crashes,
                          "proved": "MCP (floor+clamp, cut-off, remove_repeat never invents items, ids in 0..n_items, quota, membership width = max_size for every batch), FLP format",
                          "property_evaluated_only": "MCP: items of a set pairwise distinct and none lost (needs `perm` to be a sorting permutation); FLP distance matrix symmetric / zero diagonal"}
    ctx.notes.append("graph: the former MCP crash (no set of the batch reaches max_size; fixed by repo commit 78ab0ce) is probed on every run by the small "
                     "configurations of (a) and by the chosen-draw batches of (b) whose sizes all stay below max_size; it fires again under its old signature if it returns. ")
    ctx.notes.append("graph: MCP membership zeros are not necessarily trailing (remove_repeat leaves a zero where a repeated item stood); the environment treats 0 as "
                     "'no item' anywhere. FLP documents to_choose as [batch, 1]; the generator emits [batch].")


def replay(obj):
    import torch
    quiet_logs()
    print("signature:", obj.get("signature"))
    if obj.get("gen") == "mcp" and obj.get("kind") == "raw_draws":
        from rl4co.envs.graph.mcp.generator import MCPGenerator
        draws = []
        real = torch.randint

        def rec(*a, **k):
            t = real(*a, **k)
            draws.append(t)
            return t
        torch.manual_seed(obj["torch_seed"])
        try:
            with patched(torch, "randint", rec):
                MCPGenerator(**obj["kwargs"])([obj["batch"]])
        except RuntimeError:
            pass
        mm = [int(draws[0].min()), int(draws[0].max())] if draws else None
        print("expected:", obj.get("expected"))
        print("observed: min / max raw item id =", mm)
        bad = mm is None or mm[0] < 1 or mm[1] > MCPGenerator(**obj["kwargs"]).num_items
        print("still fails" if bad else "no longer fails")
        return 1 if bad else 0
    if obj.get("gen") == "mcp" and obj.get("kind") in ("crash", "generated"):
        from rl4co.envs.graph.mcp.generator import MCPGenerator
        torch.manual_seed(obj["torch_seed"])
        print("expected:", obj.get("expected", "instance inside the documented format"))
        try:
            td = MCPGenerator(**obj["kwargs"])([obj["batch"]])
        except Exception as e:
            print("observed:", repr(e)[:300])
            print("still fails")
            return 1
        b = obj.get("row", 0)
        mem = td["membership"][b].long()
        bad = []
        for r in mem.tolist():
            nz = [x for x in r if x != 0]
            if len(nz) != len(set(nz)) or not nz:
                bad.append(r)
        print("observed: membership shape %s, rows with repeated / no items: %s" % (list(td["membership"].shape), bad))
        print("still fails" if bad else "no longer fails")
        return 1 if bad else 0
    import json
    print(json.dumps(obj, indent=1)[:3000])
    return 0
