"""C14 -- inference is per-instance: batch composition never changes the answer.            (PARTIAL)

What is PROVED (coq/theories/Properties/C14.v, models Decoding/Shapes.v and Decoding/Rowwise.v):
  (A) a tensor-shape calculus with the shape programs of every class of env_embeddings/{context,dynamic,init}.py,
      gather_by_index and the AM decoder's glimpse query, for every batch size B >= 1 (and S starts, size N,
      width H) -- full strength since the bare `.squeeze()` defects were repaired in /repo (81bfd82, 46a31b8; the check
      still looks for their signatures on every run); the batch-global first-step test of TSPContext equals its
      row-wise reading when the rows share the step counter.
  (B) `policy_rowwise`: IF encoder and decoder are row-wise (Section hypotheses, with a batch invariant that has to
      be discharged for batch-global constructs) THEN greedy actions (up to padding), reward and log-likelihood
      of an instance are independent of batch size, position and batch-mates (batch size 1 included).
What is only TESTED (kind = "differential-test"): that the neural layers of the bundled policies ARE row-wise --
      solo vs batched greedy decoding of randomly initialised policies (part C below).

Correspondence for (A): every real embedding module is run on TensorDicts of the real environments for
B in {1,2,3} and its output shape / "raises" is compared with the shape program evaluated in Coq; the registries
and classes of the three files are enumerated by introspection (fail-closed on anything the model does not cover).
"""
from __future__ import annotations

import ast
import contextlib
import inspect
import os
import textwrap
import time
import traceback
from pathlib import Path

from vt.common import BUILD, Ctx, clist, coq_eval_shards

HEADER = ("From Coq Require Import String.\nFrom Coq Require Import List Arith Bool ZArith.\n"
          "From RL4CO Require Import Decoding.Shapes Harness.HC14.\nImport ListNotations.\n"
          "Open Scope string_scope.\nOpen Scope list_scope.\nOpen Scope nat_scope.\n")
SCRATCH = BUILD / "c14"

# ------------------------------------------------------------------------------------------------ tables
ENV_COQ = {"tsp": "Etsp", "atsp": "Eatsp", "cvrp": "Ecvrp", "cvrptw": "Ecvrptw", "ffsp": "Effsp", "svrp": "Esvrp",
           "sdvrp": "Esdvrp", "pctsp": "Epctsp", "spctsp": "Espctsp", "op": "Eop", "dpp": "Edpp", "mdpp": "Emdpp",
           "pdp": "Epdp", "mtsp": "Emtsp", "smtwtp": "Esmtwtp", "mdcpdp": "Emdcpdp", "mtvrp": "Emtvrp",
           "jssp": "Ejssp", "fjsp": "Efjsp"}
CTX_COQ = {"EnvContext": "CEnvContext", "FFSPContext": "CFFSPContext", "TSPContext": "CTSPContext",
           "VRPContext": "CVRPContext", "VRPTWContext": "CVRPTWContext", "SVRPContext": "CSVRPContext",
           "PCTSPContext": "CPCTSPContext", "OPContext": "COPContext", "DPPContext": "CDPPContext",
           "PDPContext": "CPDPContext", "MTSPContext": "CMTSPContext", "SMTWTPContext": "CSMTWTPContext",
           "MDCPDPContext": "CMDCPDPContext", "SchedulingContext": "CSchedulingContext", "MTVRPContext": "CMTVRPContext"}
DYN_COQ = {"StaticEmbedding": "DStatic", "SDVRPDynamicEmbedding": "DSDVRP", "JSSPDynamicEmbedding": "DJSSP"}
INIT_COQ = {"TSPInitEmbedding": "ITSP", "MatNetInitEmbedding": "IMatNet", "VRPInitEmbedding": "IVRP",
            "VRPTWInitEmbedding": "IVRPTW", "SVRPInitEmbedding": "ISVRP", "PCTSPInitEmbedding": "IPCTSP",
            "OPInitEmbedding": "IOP", "DPPInitEmbedding": "IDPP", "MDPPInitEmbedding": "IMDPP",
            "PDPInitEmbedding": "IPDP", "MTSPInitEmbedding": "IMTSP", "SMTWTPInitEmbedding": "ISMTWTP",
            "MDCPDPInitEmbedding": "IMDCPDP", "JSSPInitEmbedding": "IJSSP", "FJSPInitEmbedding": "IFJSP",
            "FJSPMatNetInitEmbedding": "IFJSPMatNet", "MTVRPInitEmbedding": "IMTVRP"}
# registry keys that are not constructive environments of their own: (layout environment, class) they alias
INIT_ALIASES = {"matnet": ("atsp", "MatNetInitEmbedding"), "pdp_ruin_repair": ("tsp", "TSPInitEmbedding"),
                "tsp_kopt": ("tsp", "TSPInitEmbedding")}

SIG_CRASH_B1 = "%s/%s: crash-at-batch-size-1"
SIG_Q_SHAPE = "%s/%s: glimpse-query-shape-wrong-at-batch-size-1"
SIG_DIFF_ACTIONS = "%s/%s: greedy-actions-depend-on-batch"
SIG_DIFF_REWARD = "%s/%s: reward-depends-on-batch"
SIG_DIFF_LL = "%s/%s: log-likelihood-depends-on-batch"
SIG_CRASH_BATCH = "%s/%s: crash-in-batch-not-alone"
SIG_MTSP_REWARD = "mtsp/minmax: get_reward-loses-batch-axis-at-batch-size-1"
SIG_RANDOM_INIT = "matnet: result-depends-on-batch-position (random one-hot init embedding drawn from the global RNG)"
# environments whose reward is excluded from the comparison because a defect of the ENVIRONMENT (C03/C04) makes it batch-dependent
REWARD_NOT_COMPARED = {"mdcpdp": "MDCPDPEnv accumulates batch row 0's step lengths for every row (known C03/C04 finding, handled by the MDCPDP env unit)"}


# ------------------------------------------------------------------------------------------------ Coq literals
def cshape(s):
    return "[" + "; ".join(str(int(x)) for x in s) + "]"


def coshape(s):
    return "None" if s is None else "Some " + cshape(s)


def coshapes(ss):
    return "None" if ss is None else "Some [" + "; ".join(cshape(s) for s in ss) + "]"


def clayout(td_shapes):
    return "[" + "; ".join('("%s", %s)' % (k, cshape(v)) for k, v in sorted(td_shapes.items())) + "]"


def cb(b):
    return "true" if b else "false"


def cdims(d):
    return "(mkd %d %d %d %d %d)" % (d["B"], d["S"], d["N"], d["M"], d["O"])


# ------------------------------------------------------------------------------------------------ introspection
def registry_of(fn):
    """env name -> class name, read from the dict literal inside the registry function."""
    tree = ast.parse(textwrap.dedent(inspect.getsource(fn)))
    for node in ast.walk(tree):
        if isinstance(node, ast.Dict) and node.keys and all(isinstance(k, ast.Constant) for k in node.keys):
            return {k.value: (v.id if isinstance(v, ast.Name) else ast.dump(v)) for k, v in zip(node.keys, node.values)}
    return None


def module_classes(mod):
    import torch.nn as nn
    return sorted(n for n, c in inspect.getmembers(mod, inspect.isclass)
                  if c.__module__ == mod.__name__ and issubclass(c, nn.Module))


def enumerate_source(ctx):
    """Fail closed: every registry entry and every class of the three files must be covered by the shape model."""
    from rl4co.models.nn.env_embeddings import context as C, dynamic as D, init as I
    problems = []
    regs = {}
    for kind, mod, fn, table in (("context", C, "env_context_embedding", CTX_COQ), ("dynamic", D, "env_dynamic_embedding", DYN_COQ),
                                 ("init", I, "env_init_embedding", INIT_COQ)):
        reg = registry_of(getattr(mod, fn))
        if reg is None:
            problems.append("%s.py: cannot read the registry of %s" % (kind, fn))
            reg = {}
        regs[kind] = reg
        classes = module_classes(mod)
        for cls in classes:
            if cls not in table:
                problems.append("%s.py: class %s is not covered by the shape model" % (kind, cls))
        for cls in table:
            if cls not in classes:
                problems.append("%s.py: modelled class %s no longer exists" % (kind, cls))
        for env, cls in reg.items():
            if env not in ENV_COQ and not (kind == "init" and env in INIT_ALIASES):
                problems.append("%s.py: registry key '%s' (-> %s) has no layout in the shape model" % (kind, env, cls))
            if cls not in table:
                problems.append("%s.py: registry maps '%s' to unmodelled class %s" % (kind, env, cls))
        if kind == "init":
            for env, (_, cls) in INIT_ALIASES.items():
                if reg.get(env) != cls:
                    problems.append("init.py: registry key '%s' maps to %s, modelled as %s" % (env, reg.get(env), cls))
    ctx.units["source_enumeration"] = {"kind": "fail-closed-coverage", "registries": {k: len(v) for k, v in regs.items()},
                                       "classes": {"context": len(CTX_COQ), "dynamic": len(DYN_COQ), "init": len(INIT_COQ)},
                                       "problems": problems}
    return regs, problems


# ------------------------------------------------------------------------------------------------ environments
def eda_write_data():
    """tiny synthetic chip / decap / frequency files so that DPPEnv / MDPPEnv can be constructed offline."""
    import numpy as np
    root = SCRATCH / "eda"

    def write(dirp, size):
        os.makedirs(dirp, exist_ok=True)
        n, nf = size * size, 2
        rs = np.random.RandomState(size)
        pdn = (np.eye(n)[None] * 2 + 0.01 * rs.rand(nf, n, n)).astype(np.complex64)
        for name, arr in (("10x10_pkg_chip.npy", pdn), ("01nF_decap.npy", (np.ones((nf, 1, 1)) * 0.5).astype(np.complex64)),
                          ("freq_201.npy", (np.arange(1, nf + 1) * 1e9).astype(np.float32))):
            p = os.path.join(dirp, name)
            if not os.path.isfile(p):
                np.save(p, arr)
    write(str(root / "data" / "dpp"), 10)
    for size in (2, 3):
        write(str(root / ("s%d" % size)), size)
    return root


def make_env(name, N, M=2):
    """the real environment class with a small generator; returns (env, dims-without-B/S) or raises."""
    from rl4co.envs import get_env
    if name in ("dpp", "mdpp"):
        root = eda_write_data()
        cwd = os.getcwd()
        os.chdir(str(root))
        try:
            size = {4: 2, 9: 3}[N]
            gp = dict(data_dir=str(root / ("s%d" % size)), max_decaps=2, num_keepout_min=1, num_keepout_max=2)
            if name == "mdpp":
                gp.update(num_probes_min=2, num_probes_max=3)   # one probe: MDPPEnv._get_reward iterates a 0-d tensor (bare squeeze)
            env = get_env(name, generator_params=gp, check_solution=False)
        finally:
            os.chdir(cwd)
        return env, dict(N=N, M=0, O=0)
    if name == "smtwtp":
        return get_env(name, generator_params=dict(num_job=N)), dict(N=N, M=0, O=0)
    if name == "ffsp":
        return get_env(name, generator_params=dict(num_job=N, num_machine=M, num_stage=2)), dict(N=N, M=M, O=0)
    if name == "jssp":
        return get_env(name, generator_params=dict(num_jobs=N, num_machines=M)), dict(N=N, M=M, O=N * M)
    if name == "fjsp":
        return get_env(name, generator_params=dict(num_jobs=N, num_machines=M, min_ops_per_job=1, max_ops_per_job=2)), dict(N=N, M=M, O=None)
    if name == "mtvrp":
        return get_env(name, generator_params=dict(num_loc=N, variant_preset="all")), dict(N=N, M=0, O=0)
    if name == "mdcpdp":
        return get_env(name, generator_params=dict(num_loc=N, num_depot=M)), dict(N=N, M=M, O=0)
    return get_env(name, generator_params=dict(num_loc=N)), dict(N=N, M=0, O=0)


ENV_SIZES = {  # generator sizes per environment: (N, M)
    "tsp": [(2, 0), (5, 0)], "atsp": [(2, 0), (5, 0)], "cvrp": [(1, 0), (2, 0), (5, 0)], "cvrptw": [(1, 0), (2, 0), (5, 0)],
    "svrp": [(1, 0), (2, 0), (5, 0)], "sdvrp": [(1, 0), (2, 0), (5, 0)], "pctsp": [(1, 0), (2, 0), (5, 0)],
    "spctsp": [(2, 0), (5, 0)], "op": [(1, 0), (2, 0), (5, 0)], "pdp": [(2, 0), (4, 0)], "mtsp": [(3, 0), (5, 0)],
    "smtwtp": [(1, 0), (2, 0), (5, 0)], "mdcpdp": [(2, 1), (4, 2)], "mtvrp": [(1, 0), (2, 0), (5, 0)],
    "ffsp": [(3, 2)], "jssp": [(1, 2), (2, 2), (3, 3)], "fjsp": [(1, 2), (2, 2), (3, 3)], "dpp": [(4, 0), (9, 0)],
    "mdpp": [(4, 0), (9, 0)],
}


def shapes_of(td):
    return {k: [int(x) for x in v.shape] for k, v in td.items()}


def observe(fn):
    """(shapes or None, error string)"""
    import torch
    try:
        with torch.no_grad():
            out = fn()
    except Exception as e:  # the module raises: that is the observation
        return None, "%s: %s" % (type(e).__name__, str(e)[:160].replace("\n", " "))
    if isinstance(out, (tuple, list)):
        return [([int(x) for x in o.shape] if hasattr(o, "shape") else []) for o in out], None
    return [[int(x) for x in out.shape]], None


def random_step(env, td, gen):
    import torch
    m = td["action_mask"].float()
    a = torch.multinomial(m + 1e-9 * (m.sum(-1, keepdim=True) == 0), 1, generator=gen).squeeze(-1)
    td = td.clone()
    td.set("action", a)
    return env.step(td)["next"]


# ------------------------------------------------------------------------------------------------ part A
def part_a(ctx: Ctx, regs):
    import torch
    from tensordict import TensorDict
    from rl4co.models.nn.env_embeddings import context as C, dynamic as D, init as I
    from rl4co.models.nn.env_embeddings import env_context_embedding, env_dynamic_embedding, env_init_embedding
    from rl4co.models.zoo.am.decoder import AttentionModelDecoder
    from rl4co.utils.ops import batchify, unbatchify

    gen = torch.Generator().manual_seed(ctx.rng.randrange(2 ** 31))
    torch.manual_seed(ctx.rng.randrange(2 ** 31))
    Bs = [1, 2, 3]
    S_MS = 3
    ctx_cases, q_cases, dyn_cases, init_cases = [], [], [], []
    meta = {"ctx": [], "q": [], "dyn": [], "init": []}
    skipped = []
    spec_fail = []      # property-level findings on the implementation (glimpse query of the wrong shape / crash at B = 1)

    def add_ctx(env, clsname, via, stepped, first, d, H, emb, tdsh, out, err):
        ctx_cases.append("{| cc_env := %s; cc_cls := %s; cc_via_registry := %s; cc_stepped := %s; cc_first := %s; cc_dims := %s; "
                         "cc_H := %d; cc_emb := %s; cc_td := %s; cc_out := %s |}" % (
                             ENV_COQ[env], CTX_COQ[clsname], cb(via), cb(stepped), cb(first), cdims(d), H, cshape(emb),
                             clayout(tdsh), coshape(out[0] if out else None)))
        meta["ctx"].append({"env": env, "class": clsname, "stepped": stepped, "first": first, "dims": d, "H": H,
                            "observed": out[0] if out else "raises: %s" % err})

    for env_name in ENV_COQ:
        for (N, M) in ENV_SIZES[env_name]:
            try:
                env, dd = make_env(env_name, N, M)
            except Exception as e:
                skipped.append("%s N=%d: env construction failed (%s)" % (env_name, N, str(e)[:80]))
                continue
            for B in Bs:
                try:
                    td0 = env.reset(batch_size=[B])
                    td1 = random_step(env, td0, gen)
                except Exception as e:
                    skipped.append("%s N=%d B=%d: reset/step failed (%s: %s)" % (env_name, N, B, type(e).__name__, str(e)[:80]))
                    continue
                O = dd["O"] if dd["O"] is not None else int(td0["proc_times"].shape[-1])
                d = dict(B=B, S=0, N=N, M=dd["M"], O=O)
                nodes = int(td0["action_mask"].shape[-1]) if env_name not in ("jssp", "fjsp", "ffsp") else (O if env_name != "ffsp" else dd["M"])
                ctx.count("shape_env_%s" % env_name)
                for H in ((8, 1) if (B == 2 or N == ENV_SIZES[env_name][0][0]) else (8,)):
                    # ---------------- init embedding (through the registry)
                    if H == 8 and env_name in regs["init"]:
                        clsname = regs["init"][env_name]
                        out, err = observe(lambda: env_init_embedding(env_name, {"embed_dim": H})(td0))
                        init_cases.append("{| ic_env := %s; ic_cls := %s; ic_via_registry := true; ic_dims := %s; ic_H := %d; ic_td := %s; ic_out := %s |}" % (
                            ENV_COQ[env_name], INIT_COQ.get(clsname, "ITSP"), cdims(d), H, clayout(shapes_of(td0)), coshapes(out)))
                        meta["init"].append({"env": env_name, "class": clsname, "dims": d, "H": H, "observed": out or "raises: %s" % err})
                    # ---------------- context embedding (through the registry), flat batch, both phases, and S starts
                    if env_name in regs["context"]:
                        clsname = regs["context"][env_name]
                        try:
                            mod = env_context_embedding(env_name, {"embed_dim": H})
                        except Exception as e:
                            skipped.append("%s: context construction failed (%s)" % (env_name, str(e)[:80]))
                            mod = None
                        if mod is not None:
                            emb = torch.randn(B, nodes, H)
                            embarg = TensorDict({"machine_embeddings": emb}, batch_size=[B]) if env_name == "ffsp" else emb
                            for stepped, td in ((False, td0), (True, td1)):
                                first = bool(td["i"][(0,) * td["i"].dim()].item() < 1) if (clsname == "TSPContext" and "i" in td.keys()) else (not stepped)
                                out, err = observe(lambda: mod(embarg, td))
                                add_ctx(env_name, clsname, True, stepped, first, d, H, [B, nodes, H], shapes_of(td), out, err)
                            if H == 8 and env_name != "ffsp":
                                tdm = unbatchify(batchify(td1, S_MS), S_MS)
                                dm = dict(d, S=S_MS)
                                out, err = observe(lambda: mod(embarg, tdm))
                                add_ctx(env_name, clsname, True, True, False, dm, H, [B, nodes, H], shapes_of(tdm), out, err)
                            # ---------------- the AM decoder's glimpse query (and one full decoder step) on the same inputs
                            if H == 8 and env_name != "ffsp":
                                for gc in (True, False):
                                    try:
                                        dec = AttentionModelDecoder(embed_dim=H, num_heads=2, env_name=env_name, use_graph_context=gc).eval()
                                    except Exception as e:
                                        skipped.append("%s: AM decoder construction failed (%s)" % (env_name, str(e)[:80]))
                                        continue
                                    with torch.no_grad():
                                        cached = dec._precompute_cache(emb)
                                    for (stepped, td, dq) in ((False, td0, d), (True, td1, d), (True, unbatchify(batchify(td1, S_MS), S_MS), dict(d, S=S_MS))):
                                        first = bool(td["i"][(0,) * td["i"].dim()].item() < 1) if (clsname == "TSPContext" and "i" in td.keys()) else (not stepped)
                                        out, err = observe(lambda: dec._compute_q(cached, td))
                                        q_cases.append("{| qc_env := %s; qc_stepped := %s; qc_first := %s; qc_dims := %s; qc_H := %d; qc_gc := %s; qc_out := %s |}" % (
                                            ENV_COQ[env_name], cb(stepped), cb(first), cdims(dq), H, cb(gc), coshape(out[0] if out else None)))
                                        meta["q"].append({"env": env_name, "class": clsname, "stepped": stepped, "dims": dq, "H": H, "graph_context": gc,
                                                          "observed": out[0] if out else "raises: %s" % err})
                                        # spec on impl: the query must be [B, 1, H] (flat) / [B, S, H] (S starts)
                                        want = [B, 1, H] if dq["S"] == 0 else [B, dq["S"], H]
                                        got = out[0] if out else None
                                        if got != want:
                                            full, ferr = (None, None)
                                            if dq["S"] == 0 and env_name not in ("sdvrp",):
                                                full, ferr = observe(lambda: dec(td, cached, 0)[0])
                                            spec_fail.append({"env": env_name, "class": clsname, "graph_context": gc, "dims": dq, "H": H,
                                                              "expected_query_shape": want, "observed_query": got if got else "raises: %s" % err,
                                                              "decoder_step": ("logits %s" % full[0]) if full else ("raises: %s" % ferr if ferr else "not run")})
                    # ---------------- dynamic embedding
                    if H == 8:
                        clsname = regs["dynamic"].get(env_name, "StaticEmbedding")
                        try:
                            dyn = env_dynamic_embedding(env_name, {"embed_dim": H})
                            if clsname == "JSSPDynamicEmbedding":
                                import types
                                ma = torch.randn(B, dd["M"], H)
                                cache = types.SimpleNamespace(node_embeddings={"machine_embeddings": ma})
                                out, err = observe(lambda: dyn(td1, cache))
                                mash = [B, dd["M"], H]
                            else:
                                out, err = observe(lambda: dyn(td1))
                                mash = []
                            dyn_cases.append("{| dc_env := %s; dc_cls := %s; dc_dims := %s; dc_H := %d; dc_ma := %s; dc_td := %s; dc_out := %s |}" % (
                                ENV_COQ[env_name], DYN_COQ.get(clsname, "DStatic"), cdims(d), H, cshape(mash), clayout(shapes_of(td1)), coshapes(out)))
                            meta["dyn"].append({"env": env_name, "class": clsname, "dims": d, "H": H, "observed": out or "raises: %s" % err})
                        except Exception as e:
                            skipped.append("%s: dynamic embedding failed to construct (%s)" % (env_name, str(e)[:80]))
                # ---------------- classes that no registry reaches, constructed directly
                H = 8
                if env_name == "cvrp":
                    out, err = observe(lambda: C.EnvContext(H)(torch.randn(B, nodes, H), td1))
                    add_ctx("cvrp", "EnvContext", False, True, False, d, H, [B, nodes, H], shapes_of(td1), out, err)
                if env_name in ("jssp", "fjsp"):
                    out, err = observe(lambda: C.SchedulingContext(H)(torch.randn(B, dd["M"], H), td1))
                    add_ctx(env_name, "SchedulingContext", False, True, False, d, H, [B, dd["M"], H], shapes_of(td1), out, err)
                    for clsname, cls in (("JSSPInitEmbedding", I.JSSPInitEmbedding), ("FJSPMatNetInitEmbedding", I.FJSPMatNetInitEmbedding)):
                        out, err = observe(lambda: cls(H)(td0))
                        init_cases.append("{| ic_env := %s; ic_cls := %s; ic_via_registry := false; ic_dims := %s; ic_H := %d; ic_td := %s; ic_out := %s |}" % (
                            ENV_COQ[env_name], INIT_COQ[clsname], cdims(d), H, clayout(shapes_of(td0)), coshapes(out)))
                        meta["init"].append({"env": env_name, "class": clsname, "dims": d, "H": H, "observed": out or "raises: %s" % err})
                if env_name == "atsp":
                    for Hm in (8, 4):     # N <= H and (for N = 5) N > H: the one-hot column embedding raises
                        out, err = observe(lambda: I.MatNetInitEmbedding(Hm)(td0))
                        init_cases.append("{| ic_env := Eatsp; ic_cls := IMatNet; ic_via_registry := false; ic_dims := %s; ic_H := %d; ic_td := %s; ic_out := %s |}" % (
                            cdims(d), Hm, clayout(shapes_of(td0)), coshapes(out)))
                        meta["init"].append({"env": "atsp", "class": "MatNetInitEmbedding", "dims": d, "H": Hm, "observed": out or "raises: %s" % err})

    # ---------------- the first-step test of TSPContext on batches of step counters (hand-made TensorDicts)
    first_cases, first_meta = [], []
    H = 8
    tspc = C.TSPContext(H).eval()
    with torch.no_grad():
        placeholder_row = tspc.project_context(tspc.W_placeholder)
    rowwise_readings = 0
    for counters in ([0], [1], [0, 0], [3, 3], [0, 1], [1, 0], [0, 1, 1], [2, 0, 5], [1, 1, 0], [0, 0, 0, 0], [4, 4, 4]):
        Bc, Nn = len(counters), 5
        td = TensorDict({"first_node": torch.zeros(Bc, dtype=torch.long), "current_node": torch.arange(Bc) % Nn,
                         "i": torch.tensor(counters, dtype=torch.long)[:, None]}, batch_size=[Bc])
        with torch.no_grad():
            out = tspc(torch.randn(Bc, Nn, H), td)
        obs = [bool(torch.allclose(out[r], placeholder_row, atol=1e-6)) for r in range(Bc)]
        first_cases.append("(%s, %s)" % (cshape(counters), "[" + "; ".join(cb(x) for x in obs) + "]"))
        first_meta.append({"counters": counters, "treated_as_first_step": obs})

    # ---------------- MTSPEnv._get_reward (minmax): td["reward"].squeeze(-1) on a [B] tensor
    rew_cases, rew_meta = [], []
    try:
        env = make_env("mtsp", 4)[0]
        for B in (1, 2, 3):
            td = env.reset(batch_size=[B])
            for _ in range(64):
                if bool(td["done"].all()):
                    break
                td = random_step(env, td, gen)
            out, err = observe(lambda: env.get_reward(td, None))
            rew_cases.append("(%d, %s)" % (B, coshape(out[0] if out else None)))
            rew_meta.append({"env": "mtsp", "cost_type": getattr(env, "cost_type", None), "B": B, "observed": out[0] if out else "raises: %s" % err})
            if (out[0] if out else None) != [B]:
                spec_fail.append({"mtsp_reward": True, "B": B, "expected_reward_shape": [B], "observed": out[0] if out else "raises: %s" % err})
    except Exception as e:
        skipped.append("mtsp reward shape: %s" % str(e)[:100])

    # ---------------- evaluate the models in Coq
    results = {}
    for key, cases, ctype, fn in (("ctx", ctx_cases, "ctx_case", "check_ctx"), ("q", q_cases, "q_case", "check_q"),
                                  ("dyn", dyn_cases, "dyn_case", "check_dyn"), ("init", init_cases, "init_case", "check_init"),
                                  ("first", first_cases, "list nat * list bool", "check_first"),
                                  ("reward", rew_cases, "nat * option shape", "check_mtsp_reward")):
        try:
            codes = coq_eval_shards("c14/cases_C14_%s" % key, HEADER, ctype, fn, cases, shard=120) if cases else []
        except RuntimeError as e:
            ctx.broken.append("correspondence C14/shapes-%s could not be evaluated: %s" % (key, str(e)[-500:]))
            codes = None
        results[key] = codes
    names = {"ctx": "context embeddings (context.py)", "q": "AM decoder glimpse query (_compute_q)",
             "dyn": "dynamic embeddings (dynamic.py)", "init": "init embeddings (init.py)"}
    for key in ("ctx", "q", "dyn", "init"):
        codes = results[key]
        if codes is None:
            continue
        nz = [(i, c) for i, c in enumerate(codes) if c != 0]
        ctx.units["shapes/" + key] = {"kind": "proof+correspondence", "what": names[key], "cases": len(codes), "disagreements": len(nz),
                                      "raises_observed": sum(1 for m in meta[key] if isinstance(m["observed"], str))}
        for m in meta[key]:
            ctx.seen({"k": key, **m}, nontrivial=True)
        if nz:
            i, c = nz[0]
            why = {1: "the layout table differs from the real TensorDict on a modelled key", 2: "output shape / raises differs",
                   3: "the registry maps the environment to another class"}.get(c, "code %d" % c)
            ctx.broken.append("correspondence C14/shapes-%s: shape model and implementation differ in %d of %d cases (first: %s -- %s)" % (
                key, len(nz), len(codes), why, meta[key][i]))
            ctx.units["shapes/" + key]["first_disagreements"] = [dict(meta[key][i], code=c) for i, c in nz[:5]]
    if results.get("reward") is not None:
        nz = [i for i, c in enumerate(results["reward"]) if c != 0]
        ctx.units["shapes/mtsp_reward"] = {"kind": "proof+correspondence", "what": "MTSPEnv._get_reward (minmax) output shape", "cases": len(rew_cases),
                                           "disagreements": len(nz), "observed": rew_meta}
        for m in rew_meta:
            ctx.seen({"k": "reward", **m}, nontrivial=True)
        if nz:
            ctx.broken.append("correspondence C14/shapes-mtsp-reward: model and implementation differ: %s" % rew_meta[nz[0]])
    if results["first"] is not None:
        nz = [i for i, c in enumerate(results["first"]) if c != 0]
        bad_shared, other = [], []
        for i in nz:
            cs, obs = first_meta[i]["counters"], first_meta[i]["treated_as_first_step"]
            if len(set(cs)) == 1:
                bad_shared.append(first_meta[i])     # reachable batches (shared counter): every reading must agree
            elif obs == [c < 1 for c in cs]:
                rowwise_readings += 1                # a row-wise reading is harmless for C14 (stronger than the model)
            else:
                other.append(first_meta[i])
        ctx.units["shapes/first_step_test"] = {"kind": "proof+correspondence", "cases": len(first_cases),
                                               "batch_global_reading_confirmed": len(first_cases) - len(nz),
                                               "row_wise_readings_on_mixed_batches": rowwise_readings,
                                               "other_readings_on_mixed_batches": other[:3],
                                               "note": "mixed-counter batches are unreachable (C14_first_step_test_rowwise); they only document which reading the code uses"}
        for m in first_meta:
            ctx.seen({"k": "first", **m}, nontrivial=len(set(m["counters"])) > 1)
        if rowwise_readings or other:
            ctx.notes.append("TSPContext's first-step test no longer reads batch row 0 on mixed-counter batches (unreachable states); "
                             "the model's batch-global reading is kept, the composition theorem needs the shared-counter invariant either way")
        if bad_shared:
            ctx.broken.append("correspondence C14/first-step-test: wrong verdict on a batch whose rows share the step counter: %s" % bad_shared[:2])
    ctx.count("shape_cases", len(ctx_cases) + len(q_cases) + len(dyn_cases) + len(init_cases) + len(first_cases))
    ctx.extra["shape_cases_skipped"] = skipped
    for m in meta["ctx"][:2] + meta["q"][:1]:
        ctx.sample({"unit": "shapes", **m})
    return spec_fail


# ------------------------------------------------------------------------------------------------ part C
class Recorder:
    """records (logits, mask) of every DecodingStrategy.step call."""

    def __init__(self):
        self.steps = []

    @contextlib.contextmanager
    def on(self):
        from rl4co.utils.decoding import DecodingStrategy
        orig = DecodingStrategy.step
        rec = self

        def step(self_, logits, mask, td=None, action=None, **kw):
            try:
                rec.steps.append((logits.detach().clone(), None if mask is None else mask.detach().clone()))
            except Exception:
                pass
            return orig(self_, logits, mask, td, action, **kw)
        DecodingStrategy.step = step
        try:
            yield self
        finally:
            DecodingStrategy.step = orig

    def gaps(self, nrows):
        """per step, per row: difference between the two largest feasible logits (inf if one feasible action)."""
        import torch
        out = []
        for logits, mask in self.steps:
            if logits.dim() != 2 or logits.shape[0] != nrows:
                out.append(None)
                continue
            l = logits.float().clone()
            if mask is not None and mask.shape == l.shape:
                l[~mask.bool()] = float("-inf")
            if l.shape[1] < 2:
                out.append([float("inf")] * nrows)
                continue
            top = torch.topk(l, 2, dim=1).values
            g = (top[:, 0] - top[:, 1])
            out.append([float(x) if x == x else float("inf") for x in g])
        return out


def policy_specs(tier):
    """(label, env name, N, policy factory kwargs, decode kwargs).  quick = one representative per mechanism (every context class
    once, every policy class once); thorough = the full cross product."""
    quick = tier == "quick"
    n = 8 if quick else 12
    small = dict(embed_dim=32, num_heads=2, num_encoder_layers=1 if quick else 2)
    specs = []
    for e in ("tsp", "cvrp", "cvrptw", "op", "pctsp", "spctsp", "sdvrp", "pdp", "mtsp", "svrp", "smtwtp", "mtvrp", "mdcpdp", "dpp", "mdpp"):
        specs.append(("am", e, n, dict(cls="am", **small), dict(decode_type="greedy")))
    for e in (("pdp", "svrp", "mdcpdp", "mtsp", "cvrp") if quick else ("tsp", "cvrp", "sdvrp", "pdp", "svrp", "mdcpdp", "mtsp", "op")):
        specs.append(("am-no-graph-context", e, n, dict(cls="am", use_graph_context=False, normalization="instance", **small), dict(decode_type="greedy")))
    # sdvrp is the environment with a non-static dynamic embedding: only there is the decoder cache itself batchified
    for e in (("tsp", "pdp", "sdvrp") if quick else ("tsp", "cvrp", "pdp", "sdvrp")):
        specs.append(("am-multistart", e, n, dict(cls="am", **small), dict(decode_type="multistart_greedy", num_starts=3)))
    for e in (("pdp",) if quick else ("tsp", "cvrp", "pdp")):
        specs.append(("am-no-graph-context-multistart", e, n, dict(cls="am", use_graph_context=False, normalization="instance", **small),
                      dict(decode_type="multistart_greedy", num_starts=3)))
    specs.append(("ham", "pdp", n, dict(cls="ham", **small), dict(decode_type="greedy")))
    specs.append(("ptrnet", "tsp", n, dict(cls="ptrnet", embed_dim=32, hidden_dim=32), dict(decode_type="greedy")))
    specs.append(("symnco", "tsp", n, dict(cls="symnco", **small), dict(decode_type="greedy")))
    if not quick:
        specs.append(("symnco", "cvrp", n, dict(cls="symnco", **small), dict(decode_type="greedy")))
    specs.append(("polynet", "tsp", n, dict(cls="polynet", k=3, **small), dict(decode_type="greedy")))
    specs.append(("mdam", "tsp", n, dict(cls="mdam", **small), dict(decode_type="greedy")))
    # MatNet draws a random one-hot column embedding per batch row from the global RNG (open known finding, re-found by
    # matnet_position_experiment): here that draw is made a function of the instance, so that everything else is compared
    specs.append(("matnet-derandomised", "atsp", n, dict(cls="matnet", embed_dim=32, num_heads=2, num_encoder_layers=1 if quick else 2), dict(decode_type="greedy")))
    specs.append(("matnet-multistage-derandomised", "ffsp", 4, dict(cls="ffsp", embed_dim=32, num_heads=2, num_encoder_layers=1, test_decode_type="greedy"), dict()))   # phase="test" = greedy
    specs.append(("l2d", "jssp", 4, dict(cls="l2d", embed_dim=32, num_encoder_layers=2), dict(decode_type="greedy")))
    specs.append(("l2d", "fjsp", 4, dict(cls="l2d", embed_dim=32, num_encoder_layers=2), dict(decode_type="greedy")))
    return specs


def build_policy(env_name, kw):
    kw = dict(kw)
    cls = kw.pop("cls")
    if cls == "am":
        from rl4co.models import AttentionModelPolicy
        return AttentionModelPolicy(env_name=env_name, **kw)
    if cls == "ham":
        from rl4co.models.zoo.ham import HeterogeneousAttentionModelPolicy
        return HeterogeneousAttentionModelPolicy(env_name=env_name, **kw)
    if cls == "ptrnet":
        from rl4co.models import PointerNetworkPolicy
        return PointerNetworkPolicy(env_name=env_name, **kw)
    if cls == "symnco":
        from rl4co.models.zoo.symnco import SymNCOPolicy
        return SymNCOPolicy(env_name=env_name, **kw)
    if cls == "polynet":
        from rl4co.models.zoo.polynet.policy import PolyNetPolicy
        return PolyNetPolicy(env_name=env_name, **kw)
    if cls == "mdam":
        from rl4co.models.zoo.mdam import MDAMPolicy
        return MDAMPolicy(env_name=env_name, **kw)
    if cls == "matnet":
        from rl4co.models.zoo.matnet import MatNetPolicy
        return MatNetPolicy(env_name=env_name, **kw)
    if cls == "ffsp":
        from rl4co.models.zoo.matnet.policy import MultiStageFFSPPolicy
        return MultiStageFFSPPolicy(stage_cnt=2, **kw)
    if cls == "l2d":
        from rl4co.models.zoo.l2d import L2DPolicy
        return L2DPolicy(env_name=env_name, **kw)
    raise ValueError(cls)


def build_env(env_name, n):
    from rl4co.envs import get_env
    if env_name in ("dpp", "mdpp"):
        return make_env(env_name, 9)[0]
    if env_name == "smtwtp":
        return get_env(env_name, generator_params=dict(num_job=n))
    if env_name == "ffsp":
        return get_env(env_name, generator_params=dict(num_job=n, num_machine=2, num_stage=2, flatten_stages=False))
    if env_name == "jssp":
        return get_env(env_name, generator_params=dict(num_jobs=n, num_machines=3))
    if env_name == "fjsp":
        return get_env(env_name, generator_params=dict(num_jobs=n, num_machines=3, min_ops_per_job=2, max_ops_per_job=3))
    if env_name == "mtvrp":
        return get_env(env_name, generator_params=dict(num_loc=n, variant_preset="all"))
    return get_env(env_name, generator_params=dict(num_loc=n))


@contextlib.contextmanager
def matnet_derandomised(active):
    """MatNetInitEmbedding.forward with the random permutation drawn from a generator seeded by the instance's own cost matrix
    (mode RandomOneHot only): the same instance gets the same column embedding wherever it sits."""
    if not active:
        yield
        return
    import torch
    from rl4co.models.nn.env_embeddings.init import MatNetInitEmbedding
    orig = MatNetInitEmbedding.forward

    def forward(self, td):
        dmat = td["cost_matrix"]
        b, r, c = dmat.shape
        row_emb = torch.zeros(b, r, self.embed_dim, device=dmat.device)
        col_emb = torch.zeros(b, c, self.embed_dim, device=dmat.device)
        for k in range(b):
            g = torch.Generator().manual_seed(int(abs(float(dmat[k].double().sum())) * 1e6) % (2 ** 31 - 1))
            idx = torch.rand(c, generator=g).argsort()
            col_emb[k, torch.arange(c), idx] = 1.0
        return row_emb, col_emb, dmat
    MatNetInitEmbedding.forward = forward
    try:
        yield
    finally:
        MatNetInitEmbedding.forward = orig


DERANDOMISE = [False]


def decode(policy, env, td, dkw, seed=None):
    """returns dict(actions [R,T] list, reward [R] list of lists, ll [R], gaps [T][R]) or raises."""
    import torch
    rec = Recorder()
    if seed is not None:
        torch.manual_seed(seed)
    with torch.no_grad(), rec.on(), matnet_derandomised(DERANDOMISE[0]):
        out = policy(td.clone(), env, phase="test", **dkw)
    acts = out["actions"]
    R = acts.shape[0]
    rew = out["reward"].reshape(R, -1) if out["reward"].shape[0] == R else out["reward"].reshape(-1, 1)
    ll = out["log_likelihood"]
    ll = ll.reshape(R, -1) if ll.shape[0] == R else ll.reshape(-1, 1)
    return {"actions": acts.tolist(), "reward": rew.tolist(), "ll": ll.tolist(), "gaps": rec.gaps(R), "rows": R}


def compare_rows(ref, ref_row, got, got_row, tol_gap=1e-4, check_reward=True):
    """ref/got: outputs of decode.  Returns (status, detail); status in ok / tie / actions / reward / ll."""
    a, b = ref["actions"][ref_row], got["actions"][got_row]
    T = min(len(a), len(b))
    for t in range(T):
        if a[t] != b[t]:
            g1 = ref["gaps"][t][ref_row] if t < len(ref["gaps"]) and ref["gaps"][t] else None
            g2 = got["gaps"][t][got_row] if t < len(got["gaps"]) and got["gaps"][t] else None
            gs = [g for g in (g1, g2) if g is not None]
            if gs and min(gs) <= tol_gap:
                return "tie", {"step": t, "gap": min(gs)}
            return "actions", {"step": t, "alone": a[t], "batched": b[t], "top_two_logit_gap": min(gs) if gs else None}
    r1, r2 = ref["reward"][ref_row], got["reward"][got_row]
    for x, y in (zip(r1, r2) if check_reward else ()):
        if abs(x - y) > 1e-5 * max(1.0, abs(x)):
            return "reward", {"alone": r1, "batched": r2}
    l1, l2 = ref["ll"][ref_row], got["ll"][got_row]
    for x, y in zip(l1, l2):
        if abs(x - y) > 1e-4 * max(1.0, abs(x)):
            return "ll", {"alone": l1, "batched": l2}
    return "ok", None


def compositions(rng, pool, tier):
    """batches as lists of pool indices: sizes 2, 3, 7; shuffled; next to copies and strangers."""
    idx = list(range(pool))
    comps = [[3, 0], [2, 2, 5]]                                # a stranger first; next to a copy of itself
    p = idx[:]
    rng.shuffle(p)
    comps.append(p[:3])
    q = idx[:]
    rng.shuffle(q)
    comps.append(q)                                            # all 7, shuffled
    if tier == "thorough":
        comps.append([0, 1])
        comps.append(list(reversed(idx)))
        for _ in range(6):
            k = rng.choice([2, 3, 7])
            comps.append([rng.randrange(pool) for _ in range(k)])
    return comps


def rows_of(instance_pos, B, S):
    """rows of the output that belong to the instance at batch position instance_pos (S starts: start-major layout)."""
    return [instance_pos] if S <= 1 else [j * B + instance_pos for j in range(S)]


def part_c(ctx: Ctx, only=None):
    import torch
    tier = ctx.tier
    pool = 7
    summary = {}
    n_cmp = n_tie = 0
    reps = 3 if tier == "thorough" else 1          # thorough: three independent draws of weights, instances and batches
    for rep, (label, env_name, n, pkw, dkw) in [(r, sp) for r in range(reps) for sp in policy_specs(tier)]:
        if only and (label, env_name) not in only:
            continue
        key = "%s/%s" % (label, env_name)
        t0 = time.time()
        wseed = ctx.rng.randrange(2 ** 31)
        dseed = ctx.rng.randrange(2 ** 31)
        cseed = ctx.rng.randrange(2 ** 31)
        base = {"policy": label, "policy_kwargs": pkw, "env": env_name, "size": n, "decode_kwargs": dkw, "weights_seed": wseed,
                "data_seed": dseed, "call_seed": cseed, "pool": pool, "kind": "differential-test"}
        try:
            env = build_env(env_name, n)
            torch.manual_seed(wseed)
            policy = build_policy(env_name, pkw).eval()
            torch.manual_seed(dseed)
            td_all = env.reset(batch_size=[pool])
        except Exception as e:
            summary[key] = {"kind": "differential-test", "status": "not constructible here: %s: %s" % (type(e).__name__, str(e)[:120])}
            continue
        S = dkw.get("num_starts", 1)
        DERANDOMISE[0] = label.endswith("-derandomised")
        check_reward = env_name not in REWARD_NOT_COMPARED
        # --- alone (batch size 1)
        solo, solo_err = {}, {}
        for k in range(pool):
            try:
                solo[k] = decode(policy, env, td_all[[k]], dkw, seed=cseed)
            except Exception as e:
                solo_err[k] = "%s: %s" % (type(e).__name__, str(e)[:200].replace("\n", " "))
        st = {"kind": "differential-test", "alone_ok": len(solo), "alone_crashed": len(solo_err), "comparisons": 0, "ties_cut": 0,
              "batches": 0, "differences": 0}
        # --- batches
        batch_ok = 0
        first_batch_rows = {}
        for comp in compositions(ctx.rng, pool, tier):
            try:
                got = decode(policy, env, td_all[comp], dkw, seed=cseed)
            except Exception as e:
                err = "%s: %s" % (type(e).__name__, str(e)[:200].replace("\n", " "))
                st.setdefault("batch_crashes", []).append({"composition": comp, "error": err})
                if all(k in solo for k in comp):
                    ctx.failure(SIG_CRASH_BATCH % (label, env_name), dict(base, composition=comp, error=err,
                                expected="every instance of the batch decodes alone", observed="the batch raises"), tag="c14")
                continue
            batch_ok += 1
            st["batches"] += 1
            B = len(comp)
            for pos, k in enumerate(comp):
                ref, ref_rows = (solo[k], rows_of(0, 1, S)) if k in solo else first_batch_rows.get(k, (None, None))
                got_rows = rows_of(pos, B, S)
                if ref is None:
                    first_batch_rows[k] = (got, got_rows)
                    continue
                for rr, gr in zip(ref_rows, got_rows):
                    status, detail = compare_rows(ref, rr, got, gr, check_reward=check_reward)
                    st["comparisons"] += 1
                    n_cmp += 1
                    ctx.seen({"p": key, "k": k, "comp": comp, "pos": pos, "row": gr, "seed": dseed}, nontrivial=B > 1)
                    if status == "tie":
                        st["ties_cut"] += 1
                        n_tie += 1
                    elif status != "ok":
                        st["differences"] += 1
                        sig = {"actions": SIG_DIFF_ACTIONS, "reward": SIG_DIFF_REWARD, "ll": SIG_DIFF_LL}[status] % (label, env_name)
                        ctx.failure(sig, dict(base, composition=comp, instance=k, position=pos, row=gr, difference=detail,
                                              alone={"actions": ref["actions"][rr], "reward": ref["reward"][rr], "ll": ref["ll"][rr]},
                                              batched={"actions": got["actions"][gr], "reward": got["reward"][gr], "ll": got["ll"][gr]},
                                              reference="alone (batch size 1)" if k in solo else "first batch containing the instance"), tag="c14")
        # --- batch size 1 must not crash when batches work
        if solo_err and batch_ok:
            k = sorted(solo_err)[0]
            st["alone_error"] = solo_err[k]
            ctx.failure(SIG_CRASH_B1 % (label, env_name), dict(base, instance=k, error=solo_err[k],
                        expected="policy(td[[k]], env, decode_type=greedy) returns like it does inside a batch",
                        observed="raises at batch size 1; batches of size 2, 3 and 7 containing the same instance decode"), tag="c14")
        elif solo_err and not batch_ok:
            st["status"] = "policy does not run at all in this configuration: %s" % solo_err[sorted(solo_err)[0]]
        if not check_reward:
            st["reward_not_compared"] = REWARD_NOT_COMPARED[env_name]
        st["wall_s"] = round(time.time() - t0, 2)
        if key in summary and "comparisons" in summary[key]:      # accumulate over repetitions
            old = summary[key]
            for f in ("alone_ok", "alone_crashed", "comparisons", "ties_cut", "batches", "differences", "wall_s"):
                st[f] = round(st.get(f, 0) + old.get(f, 0), 2)
            for f in old:
                st.setdefault(f, old[f])
        st["repetitions"] = rep + 1
        summary[key] = st
        ctx.count("diff_policies")
    DERANDOMISE[0] = False
    ctx.count("diff_comparisons", n_cmp)
    ctx.count("diff_ties_cut", n_tie)
    return summary


def matnet_position_experiment(ctx: Ctx):
    """Dedicated, deterministic re-finding experiment for the open finding SIG_RANDOM_INIT (fixed seeds, independent of
    VERIF_SEED): the same ATSP / FFSP instance decoded alone and at position 1 of the batch [1, 0, 2] by MatNet as shipped,
    with the torch RNG re-seeded identically before both calls.  Candidates are tried in a fixed order until one shows."""
    import torch
    DERANDOMISE[0] = False
    tried = []
    for (label, env_name, n, pkw, dkw) in (
            ("matnet", "atsp", 8, dict(cls="matnet", embed_dim=32, num_heads=2, num_encoder_layers=1), dict(decode_type="greedy")),
            ("matnet-multistage", "ffsp", 4, dict(cls="ffsp", embed_dim=32, num_heads=2, num_encoder_layers=1, test_decode_type="greedy"), dict())):
        for wseed in (101, 202, 303, 404, 505):
            base = {"policy": label, "policy_kwargs": pkw, "env": env_name, "size": n, "decode_kwargs": dkw, "weights_seed": wseed,
                    "data_seed": 7, "call_seed": 11, "pool": 3, "kind": "differential-test"}
            try:
                env = build_env(env_name, n)
                torch.manual_seed(wseed)
                policy = build_policy(env_name, pkw).eval()
                torch.manual_seed(7)
                td_all = env.reset(batch_size=[3])
                alone = decode(policy, env, td_all[[0]], dkw, seed=11)
                batched = decode(policy, env, td_all[[1, 0, 2]], dkw, seed=11)
            except Exception as e:
                tried.append({"policy": label, "weights_seed": wseed, "status": "raises %s: %s" % (type(e).__name__, str(e)[:100])})
                continue
            status, detail = compare_rows(alone, 0, batched, 1)
            tried.append({"policy": label, "env": env_name, "weights_seed": wseed, "status": status})
            ctx.seen({"p": "matnet-position", "label": label, "w": wseed}, nontrivial=True)
            if status in ("actions", "reward", "ll"):
                ctx.failure(SIG_RANDOM_INIT, dict(base, composition=[1, 0, 2], instance=0, position=1, difference=detail,
                            alone={"actions": alone["actions"][0], "reward": alone["reward"][0]},
                            batched={"actions": batched["actions"][1], "reward": batched["reward"][1]},
                            note="torch RNG re-seeded identically before both calls; MatNetInitEmbedding draws torch.rand(b, c) per batch row; with "
                                 "that draw made a function of the instance (units diff/matnet-derandomised/*) the policy is batch-independent"), tag="c14")
                ctx.units["diff/matnet-position-experiment"] = {"kind": "differential-test", "observed": True, "tried": tried}
                return
    ctx.units["diff/matnet-position-experiment"] = {"kind": "differential-test", "observed": False, "tried": tried}


def improvement_observations(ctx: Ctx):
    """the other bare-.squeeze() sites of models/ live in improvement policies (n2s/decoder.py, neuopt/policy.py): outside
    C14's quantifier (constructive policies), so only observed, never reported."""
    import torch
    from rl4co.envs import get_env
    obs = []
    for label, envname, ekw, mk in (
            ("n2s", "pdp_ruin_repair", {}, lambda: __import__("rl4co.models", fromlist=["N2SPolicy"]).N2SPolicy(
                env_name="pdp_ruin_repair", embed_dim=32, num_heads=2, num_encoder_layers=1)),
            ("neuopt", "tsp_kopt", {"k_max": 4}, lambda: __import__("rl4co.models.zoo.neuopt", fromlist=["NeuOptPolicy"]).NeuOptPolicy(
                env_name="tsp_kopt", embed_dim=32, num_heads=2, num_encoder_layers=1)),
            ("dact", "tsp_kopt", {"k_max": 2}, lambda: __import__("rl4co.models.zoo.dact", fromlist=["DACTPolicy"]).DACTPolicy(
                env_name="tsp_kopt", embed_dim=32, num_heads=2, num_encoder_layers=1))):
        rec = {"policy": label, "env": envname, "kind": "observation (improvement policy, outside C14's quantifier)"}
        try:
            env = get_env(envname, generator_params=dict(num_loc=10), **ekw)
            torch.manual_seed(0)
            pol = mk().eval()
            for B in (2, 1):
                td = env.reset(batch_size=[B])
                try:
                    with torch.no_grad():
                        pol(td.clone(), env, phase="test", decode_type="greedy")
                    rec["batch_size_%d" % B] = "ok"
                except Exception as e:
                    rec["batch_size_%d" % B] = "raises %s: %s" % (type(e).__name__, str(e)[:120].replace("\n", " "))
        except Exception as e:
            rec["status"] = "not constructible: %s" % str(e)[:120]
        obs.append(rec)
    return obs


# ------------------------------------------------------------------------------------------------ entry points
def run(ctx: Ctx, proofs_ok: bool):
    import torch
    torch.set_num_threads(2)
    SCRATCH.mkdir(parents=True, exist_ok=True)
    import logging
    logging.getLogger("rl4co").setLevel(logging.ERROR)
    for name in list(logging.root.manager.loggerDict):
        if name.startswith("rl4co"):
            logging.getLogger(name).setLevel(logging.ERROR)

    ctx.level = "proof"
    ctx.rule = ("(A) shape cases: every embedding class of env_embeddings/{context,dynamic,init}.py (enumerated by introspection) on "
                "TensorDicts of the real environments, B in {1,2,3}, generator sizes 1/2/5 (where the generator accepts them), H in {8,1}, "
                "after reset and after one random step, flat and with S = 3 starts; plus AttentionModelDecoder._compute_q with and without "
                "graph context; plus TSPContext's first-step test on hand-made counter batches.  non-trivial = every case (each is a distinct "
                "(class, env, B, N, H, phase) combination).  (C) differential test: 7 generator instances per (policy, env), alone vs in "
                "batches of 2, 3, 7 (shuffled, next to a copy, next to strangers), greedy, eval mode, random weights; non-trivial = batch size > 1")
    ctx.assumptions += [
        "PARTIAL: that the neural layers (attention, normalisation, float kernels) are row-wise is the HYPOTHESIS of policy_rowwise; it is tested (part C), not proved",
        "shape programs are hand-written against the source; tie = the correspondence on B in {1,2,3} (theorems then cover every B, N, H)",
        "layout tables (TensorDict key shapes per environment) are compared with the real environments on every run",
        "DPP/MDPP environments are constructed on tiny synthetic chip data (no network)",
        "torch's broadcasting / cat / stack / squeeze / view / gather rank rules as documented",
    ]
    ctx.trusted.append("C14: the differential test of the bundled policies is testing, not proof; its verdict bounds only the sampled instances, weights and batches")
    ctx.notes.append("PARTIAL claim: proved = shape calculus for all B/N/H incl. the B = 1 refutations, the first-step test under the shared-counter "
                     "invariant, and the composition theorem under row-wise hypotheses; tested = row-wiseness of the real networks "
                     "(kind differential-test).  A cross-row numeric leak inside a layer (e.g. batch statistics in eval mode) can only be found by the test.")

    regs, problems = enumerate_source(ctx)
    for p in problems:
        ctx.broken.append("correspondence C14/shapes: " + p)
    t0 = time.time()
    spec_fail = []
    try:
        spec_fail = part_a(ctx, regs)
    except Exception:
        ctx.broken.append("correspondence C14/shapes crashed: " + traceback.format_exc()[-800:])
    ctx.extra["shape_wall_s"] = round(time.time() - t0, 2)

    # property-level findings of part A: the decoder's query has the wrong shape at batch size 1
    seen_sf = set()
    for f in spec_fail:
        if f.get("mtsp_reward"):
            if f["B"] == 1:
                ctx.failure(SIG_MTSP_REWARD, dict(f, kind="mtsp-reward-shape", env="mtsp", size=4,
                                                  expected="MTSPEnv.get_reward on a finished batch of one returns shape [1]",
                                                  note="td['reward'] is [B]; a .squeeze(-1) on it drops the batch axis at B = 1 and "
                                                       "ConstructivePolicy.forward then fails in td.set('reward', ...) (fixed by /repo 46a31b8)"), tag="c14")
            continue
        label = "am" if f["graph_context"] else "am-no-graph-context"
        crashes = isinstance(f["decoder_step"], str) and f["decoder_step"].startswith("raises") or (isinstance(f["observed_query"], str))
        if f["dims"]["B"] == 1 and f["dims"]["S"] == 0:
            sig = (SIG_CRASH_B1 if crashes else SIG_Q_SHAPE) % (label, f["env"])
            if sig not in seen_sf:
                seen_sf.add(sig)
                ctx.failure(sig, dict(f, kind="shape-spec-on-implementation",
                                      replay_hint="AttentionModelDecoder(embed_dim=8, num_heads=2, env_name=%r, use_graph_context=%r) on env.reset(batch_size=[1]) after one step"
                                      % (f["env"], f["graph_context"])), tag="c14")
        else:
            ctx.extra.setdefault("out_of_scope_observations", []).append(
                dict(f, note="query shape differs from [B,S,H] in a configuration no bundled test exercises (multistart on this environment)"))
    ctx.units["shapes/spec_on_impl"] = {"kind": "spec-on-implementation", "shape_mismatches": len(spec_fail)}

    t1 = time.time()
    try:
        summary = part_c(ctx)
        for k, v in summary.items():
            ctx.units["diff/" + k] = v
    except Exception:
        ctx.broken.append("differential test C14 crashed: " + traceback.format_exc()[-800:])
    try:
        matnet_position_experiment(ctx)
    except Exception:
        ctx.broken.append("differential test C14 (matnet position experiment) crashed: " + traceback.format_exc()[-500:])
    ctx.extra["differential_wall_s"] = round(time.time() - t1, 2)
    for e, why in REWARD_NOT_COMPARED.items():
        ctx.notes.append("%s: actions and log-likelihood are compared, the reward is not -- %s" % (e, why))
    try:
        ctx.extra.setdefault("out_of_scope_observations", []).extend(improvement_observations(ctx))
    except Exception as e:
        ctx.notes.append("improvement-policy observations could not be made: %s" % str(e)[:200])
    ctx.units["policy_rowwise"] = {"kind": "proof", "what": "composition theorem (Decoding/Rowwise.v): row-wise encoder/decoder + padding-inert env => "
                                   "actions/reward/log-likelihood independent of the batch; first-step test discharged under the shared-counter invariant",
                                   "checked": bool(proofs_ok)}


def replay(obj):
    """re-run a recorded differential case (or shape finding) on the current tree."""
    import torch
    torch.set_num_threads(2)
    if obj.get("kind") == "shape-spec-on-implementation":
        from rl4co.models.zoo.am.decoder import AttentionModelDecoder
        env, dd = make_env(obj["env"], obj["dims"]["N"], max(obj["dims"]["M"], 1))
        td = env.reset(batch_size=[obj["dims"]["B"]])
        td = random_step(env, td, torch.Generator().manual_seed(0))
        H = obj["H"]
        dec = AttentionModelDecoder(embed_dim=H, num_heads=2, env_name=obj["env"], use_graph_context=obj["graph_context"]).eval()
        nodes = int(td["action_mask"].shape[-1])
        cached = dec._precompute_cache(torch.randn(obj["dims"]["B"], nodes, H))
        out, err = observe(lambda: dec._compute_q(cached, td))
        print("expected glimpse query shape", obj["expected_query_shape"], "observed", out[0] if out else "raises: " + err)
        full, ferr = observe(lambda: dec(td, cached, 0)[0])
        print("one decoder step:", ("logits %s" % full[0]) if full else "raises: " + ferr)
        return 0 if (out and out[0] == obj["expected_query_shape"]) else 1
    if obj.get("kind") == "mtsp-reward-shape":
        env = make_env("mtsp", obj.get("size", 4))[0]
        td = env.reset(batch_size=[obj["B"]])
        g = torch.Generator().manual_seed(0)
        while not bool(td["done"].all()):
            td = random_step(env, td, g)
        out, err = observe(lambda: env.get_reward(td, None))
        print("expected reward shape", obj["expected_reward_shape"], "observed", out[0] if out else "raises: " + err)
        return 0 if (out and out[0] == obj["expected_reward_shape"]) else 1
    if obj.get("kind") != "differential-test":
        import json
        print(json.dumps(obj, indent=1)[:3000])
        return 0
    env = build_env(obj["env"], obj["size"])
    DERANDOMISE[0] = obj["policy"].endswith("-derandomised")
    check_reward = obj["env"] not in REWARD_NOT_COMPARED
    torch.manual_seed(obj["weights_seed"])
    policy = build_policy(obj["env"], obj["policy_kwargs"]).eval()
    torch.manual_seed(obj["data_seed"])
    td_all = env.reset(batch_size=[obj["pool"]])
    dkw = obj["decode_kwargs"]
    S = dkw.get("num_starts", 1)
    k = obj.get("instance", 0)
    rc = 0
    try:
        solo = decode(policy, env, td_all[[k]], dkw, seed=obj["call_seed"])
        print("alone   : actions", solo["actions"][0], "reward", solo["reward"][0], "ll", solo["ll"][0])
    except Exception as e:
        solo = None
        rc = 1
        print("alone   : RAISES %s: %s" % (type(e).__name__, str(e)[:300]))
    comp = obj.get("composition") or [k, (k + 1) % obj["pool"]]
    try:
        got = decode(policy, env, td_all[comp], dkw, seed=obj["call_seed"])
        pos = obj.get("position", comp.index(k) if k in comp else 0)
        row = rows_of(pos, len(comp), S)[0]
        print("batched : composition", comp, "position", pos, "actions", got["actions"][row], "reward", got["reward"][row], "ll", got["ll"][row])
        if solo is not None:
            status, detail = compare_rows(solo, 0, got, row, check_reward=check_reward)
            print("verdict :", status, detail or "")
            rc = rc or (0 if status in ("ok", "tie") else 1)
    except Exception as e:
        print("batched : composition", comp, "RAISES %s: %s" % (type(e).__name__, str(e)[:300]))
        rc = 1
    return rc
