"""C05 -- generic driver over the environment adapters of vt/envs (see vt/envprops.py), plus any
vt/props/c05_<unit>.py units."""
from vt.envprops import run_env_property
from vt.props._units import run_units


def run(ctx, proofs_ok):
    run_env_property(ctx, proofs_ok, "C05")
    run_units(ctx, proofs_ok)


def replay(obj):
    if obj.get("unit") == "sched":
        from vt.props import c05_sched
        return c05_sched.replay(obj)
    if obj.get("unit") == "graph":
        from vt.props import c05_graph
        return c05_graph.replay(obj)
    from vt import envreplay
    return envreplay.replay(obj, "C05")
