"""C03 / unit graph -- FLPEnv: reward = minus the summed nearest-chosen-facility distance; MCPEnv: reward = covered
weight; both recomputed in Coq from the original instance data and the row's executed selections alone.

Proof obligations: coq/theories/Properties/C03_graph.v.
Correspondence: env.get_reward of every row of batches of 1..4 rows (exact point sets / dyadic / asymmetric matrices:
compared exactly; FLPGenerator output: relative 1e-5 of the float32 sum), to_choose as [B] and [B,1], common and per-row
quotas (in a per-row-quota batch the objective is that of the selections the row was actually made to take)."""
import random
import time

from vt import sched_graph_common as C
from vt.common import clist, cnat, czraw
from vt.props import c08 as S


def _evaluate(ctx, res, coll, tag, count=True):
    n = {}
    for envname in ("flp", "mcp"):
        cases, metas = [], []
        for en, rows, recs, rew, qshape, mixed in res:
            if en != envname or rew is None:
                continue
            for b, (row, rec) in enumerate(zip(rows, recs)):
                if not rec["acts"] or rec["deviated"]:
                    continue
                acts = clist(cnat(a) for a in rec["acts"])
                try:
                    if envname == "flp":
                        tol = row["tol"] * (1 << S.DBITS)
                        tolz = -(-tol.numerator // tol.denominator)
                        cases.append("(%s, %s, (%s, %s))" % (C.flp_inst_term(row), acts, czraw(S.zs(rew[b], S.DBITS)), czraw(tolz)))
                    else:
                        cases.append("(%s, %s, %s)" % (C.mcp_inst_term(row), acts, czraw(S.zs(rew[b], S.WBITS))))
                except ValueError:
                    ctx.count("c03_%s_dropped_unrepresentable" % envname)
                    continue
                metas.append(C.graph_replay_obj(envname, rows, recs, b, {"observed_reward": rew[b]}, qshape))
                if count:
                    ctx.count("c03_%s_rows_%s" % (envname, "per_row_quota_batch" if mixed else row["kind"]))
                    ctx.seen({"e": envname, "i": {k: v for k, v in row.items() if k not in ("tol", "locs")}, "a": rec["acts"]},
                             nontrivial=len(rec["acts"]) >= 2 and rec["forced"] < len(rec["acts"]))
        ctype = "flp_inst * list nat * (Z * Z)" if envname == "flp" else "mcp_inst * list nat * Z"
        codes = C.coq_codes(ctx, "cases_C03_graph_%s%s" % (envname, tag), C.HDR_GRAPH, ctype, "check_C03_%s" % envname, cases, shard=60)
        if codes is not None:
            n[envname + "_rows"] = len(codes)
            coll.codes(envname, codes, metas, "c03")
    return n


def run_unit(ctx, proofs_ok):
    import torch
    t0 = time.time()
    rng = random.Random(ctx.rng.randrange(2 ** 62))
    torch.manual_seed(rng.randrange(2 ** 31))
    ctx.rule += (" [graph] FLPEnv / MCPEnv batches of 1..4 rows with 3..7 locations / sets: integral point sets /128, dyadic and "
                 "asymmetric k/64 matrices (exact), FLPGenerator output (tolerance), memberships with zero padding anywhere and "
                 "repeated ids, integer and dyadic weights; uniform walks; common and per-row quotas.")
    ctx.assumptions += [
        "graph unit: distances and weights are instance data (the float32 tensors the env received, converted exactly); that "
        "orig_distances is the Euclidean distance matrix of locs is the generator's business (C18)",
        "graph unit: DPP / MDPP rewards come from the decap simulator, which C03 does not name: not covered",
    ]
    with C.Threads():
        coll = C.Collector(ctx, "C03", "graph")
        pyc = C.Collector(ctx, "C03", "graph-c02side")
        scale = C.budget(ctx, 8, 100)
        res = C.graph_streams(ctx, rng, torch, scale, pyc, "c03", envs=("flp", "mcp"), with_gen=True)
        unit = _evaluate(ctx, res, coll, "")
        if (coll.n_disagree or not proofs_ok or any("C03_graph" in b for b in ctx.broken)) and not coll.best:
            res2 = C.graph_streams(ctx, rng, torch, 4 * scale, pyc, "c03_search", envs=("flp", "mcp"), with_gen=True)
            unit["search_rows"] = sum(_evaluate(ctx, res2, coll, "_search", count=False).values())
        unit["concrete_failures"] = coll.flush()
        unit["disagreements"] = coll.n_disagree
        unit["c02_type_failures_seen"] = sorted(pyc.best)
        unit["observables"] = "env.get_reward per row vs the objective recomputed in Coq from (instance, selections)"
        unit["wall_s_unit"] = round(time.time() - t0, 1)
        ctx.units["graph"] = unit


def replay(obj):
    return C.replay(obj)
