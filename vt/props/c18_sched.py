"""C18, unit sched -- FJSP / JSSP / FFSP / SMTWTP generators (Properties/C18_sched.v; model Data/GenSched.v;
harness Harness/HC18_sched.v).

(b) model vs code, exact: FJSPGenerator / JSSPGenerator._generate are run with torch.randint / torch.rand_like /
    torch.rand patched to return chosen draws (operations per job, eligible machines per operation, shuffle keys, means,
    raw times, machine ids); the Gallina post-processing (start/end op indices, pad mask, eligibility shuffle,
    same-mean time formula, one-hot machine assignment) must reproduce the four emitted tensors exactly.
(a) property on the implementation: the environments' own wfb / solvableb / jssp_wfb (Env/FJSP.v), "padded operations
    have no machine", documented time ranges, FFSP / SMTWTP formats -- evaluated in Coq on instances of the
    unmodified generators over several shapes."""
import time

from vt.c18_util import bulk, boollist, coq_cases, ensure_dirs, natlist, natmat, patched, queue_fn, quiet_logs, run_jobs, zs_floor, zzmat, zlist
from vt.common import cz

HEADER = ("From Coq Require Import List ZArith Bool.\nFrom RL4CO Require Import Env.FJSP Data.GenSched Harness.HC18_sched.\n"
          "Import ListNotations.\nOpen Scope nat_scope.\n")

SIG = {
    "fjsp": "fjsp: generated instance outside the environment's input format / operation without machine / padded operation with machine / time out of range",
    "jssp": "jssp: generated instance outside the environment's input format / operation without exactly one machine / time out of range",
    "jssp_121": "jssp: one2one_ma_map instance in which a job uses a machine twice",
    "ffsp": "ffsp: run_time outside the documented shape or range",
    "smtwtp": "smtwtp: generated rows outside the documented format (length n+1, dummy node 0, non-negative)",
}


def inst_lit(td, b):
    proc = [[int(x) for x in row] for row in td["proc_times"][b].tolist()]
    return "{| start_op := %s; end_op := %s; proc := %s; pad_mask := %s |}" % (
        natlist(td["start_op_per_job"][b].tolist()), natlist(td["end_op_per_job"][b].tolist()), zzmat(proc),
        boollist(td["pad_mask"][b].tolist()))


def inst_json(td, b):
    return {"start_op_per_job": td["start_op_per_job"][b].tolist(), "end_op_per_job": td["end_op_per_job"][b].tolist(),
            "proc_times": [[int(x) for x in row] for row in td["proc_times"][b].tolist()], "pad_mask": [bool(x) for x in td["pad_mask"][b].tolist()]}


def run_unit(ctx, proofs_ok):
    import torch
    torch.set_num_threads(2)
    quiet_logs()
    ensure_dirs('sched')
    from rl4co.envs.scheduling.ffsp.generator import FFSPGenerator
    from rl4co.envs.scheduling.fjsp.generator import FJSPGenerator
    from rl4co.envs.scheduling.jssp.generator import JSSPGenerator
    from rl4co.envs.scheduling.smtwtp.generator import SMTWTPGenerator
    rng = ctx.rng
    thorough = ctx.tier == "thorough"
    t0 = time.time()
    jobs = []

    def seed():
        s = rng.randrange(2 ** 31)
        torch.manual_seed(s)
        return s

    # ------------------------------------------------------------------ (b) FJSP on chosen draws
    cases, metas = [], []
    shapes = [(1, 1, 1, 1), (2, 2, 1, 3), (3, 2, 2, 2), (4, 3, 1, 4), (5, 4, 2, 5), (3, 5, 1, 2)] + ([(8, 6, 3, 6), (10, 5, 4, 6)] if thorough else [])
    for (J, M, lo, hi) in shapes:
        for same in (True, False):
            for rep in range(3 if thorough else 1):
                B = 3
                nmax = hi * J
                minp, maxp = rng.choice([(1, 20), (1, 5), (3, 9)])
                emin, emax = rng.choice([(1, M), (1, max(1, M - 1)), (min(2, M), M)])
                ns = torch.tensor([[rng.randint(lo, hi) for _ in range(J)] for _ in range(B)])
                nel = torch.tensor([[rng.randint(emin, emax) for _ in range(nmax)] for _ in range(B)])
                keys = torch.tensor([[rng.sample(range(1, 4 * M + 4), M) for _ in range(nmax)] for _ in range(B)], dtype=torch.float32) / 64.0
                idx = keys.argsort()
                q = [ns, nel]
                if same:
                    means = torch.tensor([[rng.randint(minp, maxp - 1) for _ in range(nmax)] for _ in range(B)])
                    big = torch.tensor([[[rng.randrange(2 ** 24) for _ in range(nmax)] for _ in range(M)] for _ in range(B)])
                    q += [means, big]
                else:
                    means = None
                    big = torch.tensor([[[rng.randint(minp, maxp) for _ in range(nmax)] for _ in range(M)] for _ in range(B)])
                    q += [big]
                g = FJSPGenerator(num_jobs=J, num_machines=M, min_ops_per_job=lo, max_ops_per_job=hi, min_processing_time=minp,
                                  max_processing_time=maxp, min_eligible_ma_per_op=emin, max_eligible_ma_per_op=emax, same_mean_per_op=same)
                log = []
                try:
                    with patched(torch, "randint", queue_fn(q, log)), patched(torch, "rand_like", queue_fn([keys])):
                        td = g([B])
                    got = [tuple(a[:2]) if len(a) >= 2 and isinstance(a[1], int) else tuple(a[:1]) for a, k in log]
                    want = [(lo, hi + 1), (emin, emax + 1)] + ([(minp, maxp), (2 ** 63 - 1,)] if same else [(minp, maxp + 1)])
                    if got != want and "fjsp_bounds" not in ctx.extra:
                        ctx.extra["fjsp_bounds"] = [got, want]
                        ctx.broken.append("correspondence C18/sched/fjsp: randint bounds %s differ from the documented ranges %s the theorems assume" % (got, want))
                except Exception as e:
                    ctx.broken.append("correspondence C18/sched/fjsp: generator raised on in-range draws (%s): %r" % ((J, M, lo, hi, same), e))
                    continue
                for b in range(B):
                    cases.append("(%s, %d, %d, %s, %s, %s, %s, %s, %s, %s, %s)" % (
                        natlist(ns[b].tolist()), hi, M, natlist(nel[b].tolist()), natmat(idx[b].tolist()), "true" if same else "false",
                        cz(minp), cz(maxp), zlist(means[b].tolist()) if same else "[]", zzmat(big[b].tolist()), inst_lit(td, b)))
                    metas.append({"unit": "sched", "gen": "fjsp", "kind": "model_vs_code", "shape_J_M_minops_maxops": [J, M, lo, hi], "same_mean_per_op": same,
                                  "min_max_processing_time": [minp, maxp], "eligible": [emin, emax], "n_ope_per_job": ns[b].tolist(),
                                  "n_eligible": nel[b].tolist(), "shuffle_idx": idx[b].tolist(), "means": means[b].tolist() if same else None,
                                  "raw_times": big[b].tolist(), "observed": inst_json(td, b), "sig": SIG["fjsp"]})
                    ctx.seen({"fjsp_b": [ns[b].tolist(), nel[b].tolist(), idx[b].tolist(), big[b].tolist()]}, nontrivial=J >= 2)
                    ctx.count("fjsp_model_vs_code_rows")
    if metas:
        m = metas[len(metas) // 3]
        ctx.sample({k: m[k] for k in ("gen", "kind", "shape_J_M_minops_maxops", "n_ope_per_job", "n_eligible", "shuffle_idx", "observed")})
    jobs.append(("fjsp", "list nat * nat * nat * list nat * list (list nat) * bool * Z * Z * list Z * list (list Z) * inst", "check_fjsp",
                 cases, metas, "fjsp"))

    # ------------------------------------------------------------------ (b) JSSP on chosen draws
    cases, metas = [], []
    for (J, M, one2one, lo, hi) in [(1, 1, True, 1, 1), (2, 3, True, 3, 3), (4, 4, True, 4, 4), (3, 2, False, 1, 3), (4, 3, False, 2, 4), (6, 6, True, 6, 6)]:
        for rep in range(3 if thorough else 1):
            B = 3
            nmax = hi * J
            minp, maxp = rng.choice([(1, 99), (1, 9), (5, 20)])
            ns = torch.tensor([[rng.randint(lo, hi) for _ in range(J)] for _ in range(B)])
            pt = torch.tensor([[[rng.randint(minp, maxp) for _ in range(nmax)] for _ in range(M)] for _ in range(B)])
            g = JSSPGenerator(num_jobs=J, num_machines=M, min_ops_per_job=lo, max_ops_per_job=hi, min_processing_time=minp,
                              max_processing_time=maxp, one2one_ma_map=one2one)
            try:
                if one2one:
                    keys = torch.tensor([[rng.sample(range(1, 4 * M + 4), M) for _ in range(J)] for _ in range(B)], dtype=torch.float32) / 64.0
                    ids = keys.argsort(dim=-1).flatten(1, 2)
                    with patched(torch, "randint", queue_fn([ns, pt])), patched(torch, "rand", queue_fn([keys])):
                        td = g([B])
                else:
                    ids = torch.tensor([[rng.randrange(M) for _ in range(nmax)] for _ in range(B)])
                    with patched(torch, "randint", queue_fn([ns, ids, pt])):
                        td = g([B])
            except Exception as e:
                ctx.broken.append("correspondence C18/sched/jssp: generator raised on in-range draws (%s): %r" % ((J, M, one2one), e))
                continue
            for b in range(B):
                cases.append("(%s, %d, %d, %s, %s, %s, %s, %s)" % (natlist(ns[b].tolist()), hi, M, natlist(ids[b].tolist()), zzmat(pt[b].tolist()),
                                                                   cz(minp), cz(maxp), inst_lit(td, b)))
                metas.append({"unit": "sched", "gen": "jssp", "kind": "model_vs_code", "shape_J_M": [J, M], "one2one_ma_map": one2one, "ops_per_job": [lo, hi],
                              "n_ope_per_job": ns[b].tolist(), "machine_ids": ids[b].tolist(), "raw_times": pt[b].tolist(), "observed": inst_json(td, b),
                              "sig": SIG["jssp"]})
                ctx.seen({"jssp_b": [ns[b].tolist(), ids[b].tolist(), pt[b].tolist()]}, nontrivial=J >= 2)
                ctx.count("jssp_model_vs_code_rows")
    jobs.append(("jssp", "list nat * nat * nat * list nat * list (list Z) * Z * Z * inst", "check_jssp", cases, metas, "jssp"))

    # ------------------------------------------------------------------ (a) unmodified generators
    cases, metas = [], []
    B0 = 48 if thorough else 4
    fj_shapes = [dict(), dict(num_jobs=3, num_machines=2, min_ops_per_job=1, max_ops_per_job=3),
                 dict(num_jobs=5, num_machines=3, min_ops_per_job=2, max_ops_per_job=2, same_mean_per_op=False),
                 dict(num_jobs=6, num_machines=4, min_ops_per_job=1, max_ops_per_job=5, max_eligible_ma_per_op=2),
                 dict(num_jobs=4, num_machines=6, min_ops_per_job=3, max_ops_per_job=4, min_eligible_ma_per_op=2, min_processing_time=2, max_processing_time=7)]
    if thorough:
        fj_shapes += [dict(num_jobs=20, num_machines=10), dict(num_jobs=15, num_machines=8, min_ops_per_job=2, max_ops_per_job=9, same_mean_per_op=False)]
    fj_plan = [(kw, B0) for kw in fj_shapes]
    if thorough:      # bulk: 10^4 small rows
        fj_plan += [(dict(num_jobs=3, num_machines=2, min_ops_per_job=1, max_ops_per_job=3), 1000)] * bulk(6) + \
                   [(dict(num_jobs=2, num_machines=3, min_ops_per_job=2, max_ops_per_job=4, same_mean_per_op=False), 1000)] * bulk(4)
    for (kw, B) in fj_plan:
        s = seed()
        g = FJSPGenerator(**kw)
        td = g([B])
        for b in range(B):
            cases.append("(%s, %s, %s)" % (cz(g.min_processing_time), cz(g.max_processing_time), inst_lit(td, b)))
            metas.append({"unit": "sched", "gen": "fjsp", "kind": "generated", "kwargs": kw, "torch_seed": s, "batch": B, "row": b,
                          "observed": inst_json(td, b) if B < 100 else None})
            ctx.seen({"fjsp_a": [s, b, kw]}, nontrivial=True)
            ctx.count("fjsp_generated_rows")
    jobs.append(("fjsp_prop", "Z * Z * inst", "check_fjsp_prop", cases, metas, "fjsp"))
    cases, metas = [], []
    js_shapes = [dict(), dict(num_jobs=3, num_machines=4), dict(num_jobs=4, num_machines=3, min_ops_per_job=1, max_ops_per_job=3, one2one_ma_map=False),
                 dict(num_jobs=5, num_machines=2, min_ops_per_job=2, max_ops_per_job=4, one2one_ma_map=False, min_processing_time=3, max_processing_time=8)]
    if thorough:
        js_shapes += [dict(num_jobs=15, num_machines=10), dict(num_jobs=10, num_machines=5, min_ops_per_job=3, max_ops_per_job=8, one2one_ma_map=False)]
    pads_with_machine = 0
    js_plan = [(kw, B0) for kw in js_shapes]
    if thorough:      # bulk: 10^4 small rows
        js_plan += [(dict(num_jobs=3, num_machines=3), 1000)] * bulk(6) + \
                   [(dict(num_jobs=3, num_machines=2, min_ops_per_job=1, max_ops_per_job=3, one2one_ma_map=False), 1000)] * bulk(4)
    for (kw, B) in js_plan:
        s = seed()
        g = JSSPGenerator(**kw)
        td = g([B])
        for b in range(B):
            cases.append("(%s, %s, %s)" % (cz(g.min_processing_time), cz(g.max_processing_time), inst_lit(td, b)))
            meta = {"unit": "sched", "gen": "jssp", "kind": "generated", "kwargs": kw, "torch_seed": s, "batch": B, "row": b,
                    "observed": inst_json(td, b) if B < 100 else None}
            metas.append(meta)
            if g.one2one_ma_map:
                M = g.num_mas
                pos = (td["proc_times"][b] > 0).float().argmax(0).tolist()
                if any(sorted(pos[j * M:(j + 1) * M]) != list(range(M)) for j in range(g.num_jobs)):
                    ctx.failure(SIG["jssp_121"], dict(meta, what="machines of the operations of one job are not a permutation"), tag="jssp")
            else:
                pads_with_machine += int(((td["proc_times"][b] > 0).any(0) & td["pad_mask"][b]).sum())
            ctx.seen({"jssp_a": [s, b, kw]}, nontrivial=True)
            ctx.count("jssp_generated_rows")
    ctx.count("jssp_non_one2one_padded_ops_with_positive_time", pads_with_machine)
    jobs.append(("jssp_prop", "Z * Z * inst", "check_jssp_prop", cases, metas, "jssp"))

    cases, metas = [], []
    ff_plan = [(kw, B0) for kw in [dict(), dict(num_stage=3, num_machine=2, num_job=5, min_time=1, max_time=4), dict(num_stage=1, num_machine=1, num_job=1, min_time=0, max_time=1),
                                  dict(num_stage=2, num_machine=4, num_job=20)]]
    if thorough:
        ff_plan += [(dict(num_stage=2, num_machine=2, num_job=4), 1000)] * bulk(10)
    for (kw, B) in ff_plan:
        s = seed()
        g = FFSPGenerator(**kw)
        td = g([B])
        rt = td["run_time"]
        for b in range(B):
            cases.append("(%d, %d, %s, %s, %s)" % (g.num_job, g.num_machine_total, cz(g.min_time), cz(g.max_time), zzmat(rt[b].tolist())))
            metas.append({"unit": "sched", "gen": "ffsp", "kind": "generated", "kwargs": kw, "torch_seed": s, "batch": B, "row": b})
            ctx.seen({"ffsp_a": [s, b, kw]}, nontrivial=True)
            ctx.count("ffsp_generated_rows")
    jobs.append(("ffsp_prop", "nat * nat * Z * Z * list (list Z)", "check_ffsp_prop", cases, metas, "ffsp"))

    cases, metas = [], []
    sm_plan = [(kw, B0) for kw in [dict(), dict(num_job=3), dict(num_job=25, max_time_span=25),
                                  dict(num_job=6, min_job_weight=0.5, max_job_weight=2.0, min_process_time=0.25, max_process_time=3.0)]]
    if thorough:
        sm_plan += [(dict(num_job=5), 1000)] * bulk(10)
    for (kw, B) in sm_plan:
        s = seed()
        g = SMTWTPGenerator(**kw)
        td = g([B])
        for b in range(B):
            rows = [td[k][b].tolist() for k in ("job_due_time", "job_weight", "job_process_time")]
            cases.append("(%d, %s)" % (g.num_job, ", ".join("[" + "; ".join(cz(zs_floor(x, 30)) for x in r) + "]" for r in rows)))
            metas.append({"unit": "sched", "gen": "smtwtp", "kind": "generated", "kwargs": kw, "torch_seed": s, "batch": B, "row": b})
            ctx.seen({"smtwtp_a": [s, b, kw]}, nontrivial=True)
            ctx.count("smtwtp_generated_rows")
    jobs.append(("smtwtp_prop", "nat * list Z * list Z * list Z", "check_smtwtp_prop", cases, metas, "smtwtp"))

    # ------------------------------------------------------------------ evaluate
    t1 = time.time()
    res = run_jobs(ctx, "sched", HEADER, [(l, t, f, c, m) for (l, t, f, c, m, sg) in jobs], cap=700 if thorough else 60)
    results = [(ms, res.get(label)) for (label, _, _, cs, ms, sg) in jobs]
    stats = {}
    reported = set()
    for (label, _, _, cs, _, sig), (ms, codes) in zip(jobs, results):
        st = {"cases": len(cs)}
        if codes is not None:
            st["nonzero"] = sum(1 for c in codes if c != 0)
            for m, c in zip(ms, codes):
                if c == 1:
                    if label not in reported:
                        reported.add(label)
                        ctx.broken.append("correspondence C18/sched/%s: model and generator differ on %s" % (
                            label, {k: m[k] for k in m if k not in ("observed", "raw_times", "sig")}))
                    # search: is the property itself false on what the generator produced?
                elif c != 0:
                    r = dict(m)
                    r.pop("sig", None)
                    r["code"] = c
                    r["what"] = {12: "instance outside the environment's input format (wfb false)", 6: "solvability / machine count / padding / range predicate false"}.get(c, "")
                    ctx.failure(SIG[sig], r, tag=sig)
        stats[label] = st
    # when the model-vs-code tie broke, evaluate the property on the implementation's outputs of those very cases
    for (label, _, _, cs, _, sig), (ms, codes) in zip(jobs, results):
        if codes is None or label not in ("fjsp", "jssp") or not any(c == 1 for c in codes):
            continue
        pc = ["(%s, %s, %s)" % (cz(m.get("min_max_processing_time", [1, 99])[0]), cz(m.get("min_max_processing_time", [1, 99])[1]),
                                "{| start_op := %s; end_op := %s; proc := %s; pad_mask := %s |}" % (
                                    natlist(m["observed"]["start_op_per_job"]), natlist(m["observed"]["end_op_per_job"]),
                                    zzmat(m["observed"]["proc_times"]), boollist(m["observed"]["pad_mask"]))) for m in ms]
        pcodes = coq_cases(ctx, "sched_%s_search" % label, HEADER, "Z * Z * inst", "check_%s_prop" % label, pc, ms)
        for m, c in zip(ms, pcodes or []):
            if c != 0:
                r = dict(m)
                r.pop("sig", None)
                r["code"] = c
                r["what"] = "property false on the instance the generator produced for these chosen draws"
                ctx.failure(SIG[sig], r, tag=sig)
    ctx.units["sched"] = {"checks": stats, "python_s": round(t1 - t0, 1), "coq_s": round(time.time() - t1, 1),
                          "proved": "FJSP (job index structure, padding, eligibility shuffle, same-mean times), JSSP (one machine per operation), FFSP format, SMTWTP format",
                          "jssp_non_one2one_padded_ops_with_positive_time": pads_with_machine}
    ctx.notes.append("sched: JSSPGenerator(one2one_ma_map=False) assigns a machine (positive time) to PADDED operation columns as well "
                     "(%d such columns in this run); the environment format (wfb) does not forbid it and the pad mask hides them, so it is "
                     "recorded, not reported. FJSP same_mean_per_op: `randint(2**63-1) %% float_tensor` converts the 63-bit draw to float32 first; "
                     "the model takes the draw as an arbitrary non-negative integer (the tie uses draws below 2^24)." % pads_with_machine)


def replay(obj):
    import torch
    quiet_logs()
    print("signature:", obj.get("signature"))
    import importlib
    name = obj.get("gen")
    mods = {"fjsp": ("rl4co.envs.scheduling.fjsp.generator", "FJSPGenerator"), "jssp": ("rl4co.envs.scheduling.jssp.generator", "JSSPGenerator"),
            "ffsp": ("rl4co.envs.scheduling.ffsp.generator", "FFSPGenerator"), "smtwtp": ("rl4co.envs.scheduling.smtwtp.generator", "SMTWTPGenerator")}
    if obj.get("kind") != "generated" or name not in mods:
        import json
        print(json.dumps({k: v for k, v in obj.items() if k != "raw_times"}, indent=1)[:3000])
        print("(model-vs-code case: re-run ./check C18 to replay the chosen draws)")
        return 0
    cls = getattr(importlib.import_module(mods[name][0]), mods[name][1])
    torch.manual_seed(obj["torch_seed"])
    td = cls(**obj["kwargs"])([obj["batch"]])
    b = obj["row"]
    bad = []
    if name in ("fjsp", "jssp"):
        s, e, p, pad = td["start_op_per_job"][b].tolist(), td["end_op_per_job"][b].tolist(), td["proc_times"][b], td["pad_mask"][b]
        n = e[-1] + 1
        if s[0] != 0 or any(a > z for a, z in zip(s, e)) or any(s[j + 1] != e[j] + 1 for j in range(len(s) - 1)):
            bad.append("start/end op indices do not partition 0..n_ops")
        if [bool(x) for x in pad.tolist()] != [o >= n for o in range(pad.shape[0])]:
            bad.append("pad mask is not exactly the tail")
        cnt = (p > 0).sum(0).tolist()
        if any(c < 1 for c in cnt[:n]):
            bad.append("real operation without machine")
        if name == "jssp" and any(c != 1 for c in cnt[:n]):
            bad.append("operation with more than one machine")
        if name == "fjsp" and any(c != 0 for c in cnt[n:]):
            bad.append("padded operation with a machine")
        print("regenerated:", {"start": s, "end": e, "pad_mask": pad.tolist(), "machines_per_op": cnt})
    print("expected: instance inside the documented format and solvable")
    print("observed:", bad or "ok")
    print("still fails" if bad else "no longer fails")
    return 1 if bad else 0
